"""C18, real command line: bin/martinize2 entry() with -go, judged by TLC from the WRITTEN files (spec/GoFiles.tla).

Every run executes the unmodified entry() of /repo/bin/martinize2 in a process forked for that run alone (patched sys.argv, scratch
working directory; the shipped force fields / mappings are parsed once in the parent with the two functions entry() itself calls
and handed over copy-on-write).  Harness-side wrappers (no source change) additionally record
  * the molecule entering site creation and the system after GoPipeline.run_system (the in-memory event of harness/c18.py),
  * system.go_params['go_map'] as the Go pipeline finds it (the contact map in memory),
  * how many molecules the atomistic system had when bin/martinize2 merged it (MergeAllMolecules) and their chains.
After entry() returned, the files are read by harness/indep_readers.py (written from the format descriptions, nothing from vermouth)
and the few lines of fixed-format parsing below:
  <name>.itp   [ atoms ], [ virtual_sitesn ], the group "Go model exclusion" of [ exclusions ]
  cg.pdb       chain and coordinates of every particle (thousandths of an Angstrom, exactly the printed digits), CONECT = bonds
  go_atomtypes.itp / go_nbparams.itp / topol.top
Units handed to TLC: lengths in 0.001 A (mA); sigma as round(sigma * 2^(1/6) * 10^4) mA; epsilon, charge, mass in 10^-3.

Families (spec/GoFiles.tla says what is required of each):
  file   -go <contact file written by the harness in the 18-column format read_go_map documents>
  gen    -go -go-write-file: the map computed by vermouth is an INPUT of the judge (recorded in memory); the written map is parsed
         independently, read back with the real read_go_map (as written, and padded to 18 columns), and used for a second run
  wb     pairs of runs without / with -water-bias, -water-bias-eps, -id-regions"""
import contextlib
import importlib.machinery
import importlib.util
import io
import json
import math
import os
import pickle
import random
import shutil
import sys
import tempfile
import traceback

from . import indep_readers
from .common import REPO

TESTS = os.path.join(REPO, 'vermouth', 'tests', 'data', 'integration_tests')
SOURCES = {'S': ('tier-0/mini-protein1_betasheet/aa.pdb', 'A'), 'H': ('tier-0/mini-protein2_helix/aa.pdb', 'A'),
           'W': ('tier-0/mini-protein3_trp-cage/aa.pdb', 'A'), 'I': ('tier-1/3i40/3i40.pdb', 'A'), 'J': ('tier-1/3i40/3i40.pdb', 'B')}
SCALE = 10000            # nm -> 0.001 Angstrom
TWO16 = 2 ** (1 / 6)
MISSING = -99999


# --------------------------------------------------------------------------------------------------- input structures
_SRC_CACHE = {}


def _source(code):
    if code not in _SRC_CACHE:
        path, chain = SOURCES[code]
        atoms = []
        with open(os.path.join(TESTS, path)) as fh:
            for line in fh:
                if not line.startswith('ATOM'):
                    continue
                line = line.rstrip('\n').ljust(80)
                if line[21] != chain or line[16] not in ' A':
                    continue
                atoms.append({'name': line[12:16], 'resname': line[17:20], 'resid': int(line[22:26]),
                              'xyz': [float(line[30:38]), float(line[38:46]), float(line[46:54])], 'tail': line[54:].rstrip()})
        _SRC_CACHE[code] = atoms
    return _SRC_CACHE[code]


def _min_dist(a, b):
    best = 1e9
    for p in a:
        for q in b:
            d = (p[0] - q[0]) ** 2 + (p[1] - q[1]) ** 2 + (p[2] - q[2]) ** 2
            if d < best:
                best = d
    return math.sqrt(best)


def place_chains(layout, clearance=3.6):
    """layout: list of [source code, chain label, first residue number, direction or None].  A chain with direction None keeps
    the coordinates of its source file (3i40 A and B stay the disulfide-linked complex they are); otherwise it is moved along the
    direction (integer vector) by the smallest whole number of Angstrom that keeps every atom `clearance` A away from the chains
    placed before, so that no bond is guessed between the chains and backbone beads of different chains come within ~1 nm."""
    core, everything, out = [], [], []
    heavy = ('CA', 'C', 'N', 'O', 'CB', 'CG', 'SG')
    for code, label, first, direction in layout:
        atoms = _source(code)
        shift = [0.0, 0.0, 0.0]
        if direction is not None and everything:
            norm = math.sqrt(sum(x * x for x in direction))
            unit = [x / norm for x in direction]
            mine = [a['xyz'] for a in atoms if a['name'].strip() in heavy]
            for t in range(4, 120):
                shift = [round(u * t, 3) for u in unit]
                if _min_dist([[p[k] + shift[k] for k in range(3)] for p in mine], core) < clearance + 0.8:
                    continue
                if _min_dist([[a['xyz'][k] + shift[k] for k in range(3)] for a in atoms], everything) >= clearance:
                    break
        out.append({'code': code, 'label': label, 'first': first, 'shift': shift})
        core += [[a['xyz'][k] + shift[k] for k in range(3)] for a in atoms if a['name'].strip() in heavy]
        everything += [[a['xyz'][k] + shift[k] for k in range(3)] for a in atoms]
    return out


def build_pdb(chains):
    """chains: output of place_chains.  Returns (text, residues) with residues = [{'chain','resid','resname','ca':[x,y,z] A}] in
    file order - what the harness knows about its own input (the residue numbers of the input are the `old` numbers of the judge)."""
    lines = ['CRYST1  500.000  500.000  500.000  90.00  90.00  90.00 P 1           1']
    residues = []
    serial = 1
    for ch in chains:
        atoms = _source(ch['code'])
        first0 = atoms[0]['resid']
        for a in atoms:
            resid = a['resid'] - first0 + ch['first']
            xyz = [a['xyz'][k] + ch['shift'][k] for k in range(3)]
            lines.append('ATOM  %5d %4s %3s %1s%4d    %8.3f%8.3f%8.3f%s' % (serial, a['name'], a['resname'], ch['label'], resid,
                                                                           xyz[0], xyz[1], xyz[2], a['tail']))
            serial += 1
            if not residues or (residues[-1]['chain'], residues[-1]['resid']) != (ch['label'], resid):
                residues.append({'chain': ch['label'], 'resid': resid, 'resname': a['resname'].strip(), 'ca': None, 'names': []})
            residues[-1]['names'].append(a['name'].strip())
            if a['name'].strip() == 'CA':
                residues[-1]['ca'] = xyz
            if a['name'].strip() == 'SG':
                residues[-1]['sg'] = xyz
        lines.append('TER')
        serial += 1
    lines.append('END')
    return '\n'.join(lines) + '\n', residues


def contact_line(n, e):
    """One line of the 18-column format of the rCSU server (doi 10.5281/zenodo.3817447) that read_go_map documents: first column
    'R', chain / residue number of the two residues in columns 5/6 and 9/10, the four contact-map flags OV CSU oCSU rCSU in
    columns 12-15.  e = [resid a, chain a, resid b, chain b, OV, rCSU]."""
    return 'R %6d %5d  %3s %1s %4d    %5d  %3s %1s %4d    %9.4f     %d %d %d %d %5d %6d %4d\n' % (
        n, 1, 'XXX', e[1], e[0], 2, 'YYY', e[3], e[2], 6.0, e[4], 1, 1, e[5], e[5], 10, 0)


def contact_file(entries, noise=True):
    head = 'Contact map written by the C18 harness\n\nResidue-Residue Contacts\n\n      ID    I1  AA  C I(PDB)     I2  AA  C I(PDB)\n' + '=' * 60 + '\n'
    body = ''.join(contact_line(i, e) for i, e in enumerate(entries, 1))
    if noise:       # lines the documented format does not count as contacts: not 18 columns / first column not R
        body += 'R      0     1  XXX Q    1        2  YYY Q    2       6.0000     1 1 1 1     1     10\n'
        body += 'X      0     1  XXX Q    1        2  YYY Q    2       6.0000     1 1 1 1     1     10    0\n'
    return head + body


# ------------------------------------------------------------------------------------------------- running entry()
_PRE = {}


def preload():
    """Parse the shipped force fields and mappings ONCE, in the parent, with the functions entry() itself calls."""
    if _PRE:
        return
    from pathlib import Path
    import vermouth.forcefield
    from vermouth import DATA_PATH
    from vermouth.map_input import read_mapping_directory
    ffs = vermouth.forcefield.find_force_fields(Path(DATA_PATH) / 'force_fields')
    _PRE.update(ff_dir=Path(DATA_PATH) / 'force_fields', map_dir=Path(DATA_PATH) / 'mappings', ffs=ffs,
                maps=read_mapping_directory(Path(DATA_PATH) / 'mappings', ffs))


def _use_preloaded(cli):
    if not _PRE:
        return
    import vermouth.forcefield
    real_find, real_read = vermouth.forcefield.find_force_fields, cli.read_mapping_directory

    def find_force_fields(directory, force_fields=None):
        if force_fields is None and directory == _PRE['ff_dir']:
            return _PRE['ffs']
        return real_find(directory, force_fields)

    def read_mapping_directory(directory, force_fields):
        if directory == _PRE['map_dir'] and force_fields is _PRE['ffs']:
            return _PRE['maps']
        return real_read(directory, force_fields)

    vermouth.forcefield.find_force_fields = find_force_fields
    cli.read_mapping_directory = read_mapping_directory


def load_cli():
    loader = importlib.machinery.SourceFileLoader('martinize2_cli_verif_c18', os.path.join(REPO, 'bin', 'martinize2'))
    spec = importlib.util.spec_from_loader(loader.name, loader)
    mod = importlib.util.module_from_spec(spec)
    loader.exec_module(mod)
    return mod


def in_fork(fn, *args, timeout=600):
    """Run fn(*args) in a process forked for this call alone; the result comes back pickled through a file."""
    fd, path = tempfile.mkstemp(prefix='c18fork_')
    os.close(fd)
    pid = os.fork()
    if pid == 0:
        code = 0
        try:
            res = fn(*args)
            with open(path, 'wb') as fh:
                pickle.dump(res, fh)
        except BaseException:       # noqa
            with open(path, 'wb') as fh:
                pickle.dump({'harness_error': traceback.format_exc()[-2000:]}, fh)
            code = 1
        finally:
            os._exit(code)
    try:
        os.waitpid(pid, 0)
        with open(path, 'rb') as fh:
            return pickle.load(fh)
    except Exception:               # noqa
        return {'harness_error': 'forked run left no result: ' + traceback.format_exc()[-500:]}
    finally:
        with contextlib.suppress(OSError):
            os.remove(path)


def _entry_run(workdir, argv, after):
    """In the forked process: run entry() with recorders; `after(rec)` may use the real library once entry() returned."""
    from . import c18
    import vermouth
    from vermouth.rcsu.go_pipeline import GoPipeline
    from vermouth.processors.merge_all_molecules import MergeAllMolecules
    os.chdir(workdir)
    log = io.StringIO()
    with contextlib.redirect_stderr(log), contextlib.redirect_stdout(log):
        cli = load_cli()
    _use_preloaded(cli)
    rec = {'rc': 0, 'exc': '', 'merged': [], 'gomap': None, 'snap': {}, 'post': None, 'argv': list(argv)}
    real_merge = MergeAllMolecules.run_system

    def merge(self, system):
        rec['merged'].append([sorted({str(d.get('chain')) for _, d in m.nodes(data=True)}) for m in system.molecules])
        return real_merge(self, system)
    MergeAllMolecules.run_system = merge
    real_prepare, real_run = GoPipeline.prepare_run, GoPipeline.run_system

    def prepare(system, moltype):
        real_prepare(system, moltype=moltype)
        rec['gomap'] = [[[int(c[0]), str(c[1]), int(c[2]), str(c[3])] for c in m] for m in system.go_params['go_map']]
        rec['snap'] = c18.snapshot_before(system.molecules[0], SCALE, exact=False)

    def run_system(system, **kwargs):
        out = real_run(system, **kwargs)
        rec['post'] = c18.snapshot_after(system, rec['snap'], SCALE, exact=False)
        return out
    GoPipeline.prepare_run = prepare
    GoPipeline.run_system = run_system
    sys.argv = ['martinize2'] + list(argv)
    with contextlib.redirect_stderr(log), contextlib.redirect_stdout(log):
        try:
            cli.entry()
        except SystemExit as exc:
            rec['rc'] = exc.code if isinstance(exc.code, int) else (0 if exc.code is None else 1)
        except Exception as exc:       # noqa
            rec['rc'] = -1
            rec['exc'] = repr(exc)[:300] + ' | ' + traceback.format_exc()[-600:]
    rec['snap'].pop('keys', None)
    rec['snap'].pop('inter', None)
    rec['log'] = log.getvalue()[-1500:]
    rec['files'] = {}
    for name in sorted(os.listdir(workdir)):
        if os.path.isfile(name) and not name.startswith('in.') and os.path.getsize(name) < 4_000_000:
            with open(name, errors='replace') as fh:
                rec['files'][name] = fh.read()
    if after is not None:
        after(rec)
    return rec


def run_entry(workdir, argv, after=None):
    os.makedirs(workdir, exist_ok=True)
    return in_fork(_entry_run, workdir, argv, after)


# -------------------------------------------------------------------------------------------- reading the written files
def _f(tok, scale):
    try:
        v = float(tok) * scale
    except (TypeError, ValueError):
        return MISSING
    if not math.isfinite(v) or abs(v) > 2e9:
        return MISSING
    return int(round(v))


def _grouped(records, section):
    """records of one section of an ITP as [(group comment or '', record)], following the comment lines the writer puts in front of
    each group of interactions; conditional blocks are kept (the Go model writes none)."""
    out, inside, group = [], False, ''
    for r in records:
        if r['k'] == 'section':
            inside, group = r['s'] == section, ''
        elif inside and r['k'] == 'comment':
            group = r['s']
        elif inside and r['k'] == 'inter':
            out.append((group, r))
    return out


def read_types(text):
    """go_atomtypes.itp: `name mass charge ptype sigma epsilon` under [ atomtypes ] (GROMACS manual, atom types with one
    non-bonded parameter pair)."""
    out, ok, section = [], True, None
    for raw in text.split('\n'):
        body = raw.split(';', 1)[0].strip()
        if not body:
            continue
        if body.startswith('['):
            section = body.strip('[] ')
            continue
        toks = body.split()
        if section != 'atomtypes' or len(toks) != 6:
            ok = False
            continue
        out.append({'t': toks[0], 'mass': _f(toks[1], 1000), 'charge': _f(toks[2], 1000), 'ptype': toks[3],
                    'sigma': _f(toks[4], SCALE), 'eps': _f(toks[5], 1000)})
    return out, ok and section == 'atomtypes'


def read_nb(text):
    """go_nbparams.itp: `type type func sigma epsilon` under [ nonbond_params ]."""
    out, ok, section = [], True, None
    for raw in text.split('\n'):
        body = raw.split(';', 1)[0].strip()
        if not body:
            continue
        if body.startswith('['):
            section = body.strip('[] ')
            continue
        toks = body.split()
        if section != 'nonbond_params' or len(toks) != 5:
            ok = False
            continue
        out.append({'ta': toks[0], 'tb': toks[1], 'f': toks[2], 's': _f(float(toks[3]) * TWO16, SCALE), 'eps': _f(toks[4], 1000)})
    return out, ok and section == 'nonbond_params'


def project_files(files, name, vsname):
    """The written files as the record spec/GoFiles.tla judges.  Nothing is decided here."""
    out = {'has': {'itp': name + '.itp' in files, 'types': 'go_atomtypes.itp' in files, 'nb': 'go_nbparams.itp' in files,
                   'top': 'topol.top' in files, 'pdb': 'cg.pdb' in files},
           'moltype': '-', 'nrexcl': '-', 'atoms': [], 'vs': [], 'excl': [], 'exclbad': False, 'decl': [], 'declok': False,
           'nb': [], 'nbok': False, 'top': {'defines': [], 'includes': [], 'molecules': []}, 'edges': [], 'joined': False,
           'itps': sorted(f for f in files if f.endswith('.itp'))}
    if not all(v for k, v in out['has'].items() if k != 'nb'):
        return out
    itp = indep_readers.read_itp(files[name + '.itp'])
    pdb = indep_readers.read_pdb(files['cg.pdb'])
    top = indep_readers.read_top(files['topol.top'])
    out['moltype'], out['nrexcl'] = str(itp['moltype']), str(itp['nrexcl'])
    out['top'] = {'defines': top['defines'], 'includes': top['includes'], 'molecules': [[m[0], m[1]] for m in top['molecules']]}
    patoms = [a for m in pdb['molecules'] for a in m]
    iatoms = [r for r in itp['records'] if r['k'] == 'atom']
    out['joined'] = len(patoms) == len(iatoms) and all(r['a'][0] == i for i, r in enumerate(iatoms, 1)) and \
        all(str(p['serial']) == str(i) for i, p in enumerate(patoms, 1))
    if not out['joined']:
        return out
    for r, p in zip(iatoms, patoms):
        t = r['p']
        out['atoms'].append({'key': r['a'][0], 'chain': p['chain'] or '-', 'resid': _f(t[1], 1), 'old': MISSING, 'resname': t[2],
                             'name': t[3], 'atype': t[0], 'pos': [_f(p['x'], 1000), _f(p['y'], 1000), _f(p['z'], 1000)],
                             'mass': _f(t[6], 1000) if len(t) > 6 else -1, 'charge': _f(t[5], 1000) if len(t) > 5 else -1,
                             'pname': p['name'], 'presname': p['resname'], 'presid': _f(p['resid'], 1)})
    n = len(out['atoms'])
    for group, r in _grouped(itp['records'], 'virtual_sitesn'):
        out['vs'].append({'site': r['a'][0], 'from': r['a'][1:], 'one': r['p'] == ['1'], 'group': group})
    for group, r in _grouped(itp['records'], 'exclusions'):
        if group == 'Go model exclusion':
            if len(r['a']) == 2:
                out['excl'].append({'a': r['a'][0], 'b': r['a'][1]})
            else:
                out['exclbad'] = True
    seen = set()
    for c in pdb['conect']:
        for b in c[1:]:
            e = (min(c[0], b), max(c[0], b))
            if e[0] != e[1] and e not in seen and 1 <= e[0] and e[1] <= n:
                seen.add(e)
    out['edges'] = [list(e) for e in sorted(seen)]
    out['decl'], out['declok'] = read_types(files['go_atomtypes.itp'])
    # vermouth writes no go_nbparams.itp at all when no pair potential was selected: an absent file has no lines
    out['nb'], out['nbok'] = read_nb(files['go_nbparams.itp']) if out['has']['nb'] else ([], True)
    return out


def assign_old(fatoms, vsname, residues):
    """Input residue number (`old`) of every written particle that is not a Go site.  The written files do not say which input
    residue a particle belongs to (the order of residues in the written molecule is not always the order of the input, and the
    written numbers are the merged ones), so residues are identified by geometry: the backbone bead of a written residue lies
    within 2 A of the C-alpha of exactly one input residue (neighbouring C-alphas are 3.8 A apart).  Written residues are the
    groups of equal (chain, number, name).  Returns '' or the reason why the identification failed (a binding problem)."""
    groups = {}
    for a in fatoms:
        if a['name'] != vsname:
            groups.setdefault((a['chain'], a['resid'], a['resname']), []).append(a)
    used = set()
    for rid, members in groups.items():
        anchor = [a for a in members if a['name'] == 'BB'] or members[:1]
        pos = [c / 1000.0 for c in anchor[0]['pos']]
        best = sorted((math.sqrt(sum((pos[k] - r['ca'][k]) ** 2 for k in range(3))), i) for i, r in enumerate(residues) if r['ca'])[:2]
        if not best or best[0][0] > 2.0 or (len(best) > 1 and best[1][0] < 2.6):
            return 'written residue %s%d%s has no unique input residue within 2 A of its backbone bead' % rid
        r = residues[best[0][1]]
        if r['chain'] != rid[0] or best[0][1] in used:
            return 'written residue %s%d%s maps to input residue %s%d%s' % (rid + (r['chain'], r['resid'], r['resname']))
        used.add(best[0][1])
        for a in members:
            a['old'] = r['resid']
    if len(used) != len(residues):
        return 'written molecule has %d residues, the input %d' % (len(used), len(residues))
    return ''


def parse_written_map(text):
    """The map file vermouth writes, read by the column legend in its own header (ID I1 AA C I(PDB) I2 AA C I(PDB) DCA CMs(4) rCSU
    Count): [resid a, chain a, resid b, chain b, OV, rCSU] per R line, and the number of columns of each R line."""
    out, widths = [], []
    for line in text.split('\n'):
        toks = line.split()
        if not toks or toks[0] != 'R' or len(toks) < 15:
            continue
        widths.append(len(toks))
        try:
            out.append([int(toks[5]), toks[4], int(toks[9]), toks[8], int(toks[11]), int(toks[14])])
        except ValueError:
            widths[-1] = -1
    return out, sorted(set(widths))


# ------------------------------------------------------------------------------------------------------- scenarios
TOL = 2                   # mA: two coordinates printed to 0.001 A each -> a distance is known to within sqrt(3) mA
DEFAULTS = {'name': 'molecule', 'vs': 'CA', 'bb': 'BB', 'eps': 9414, 'lo': 3000, 'up': 11000, 'sep': 3}      # documented defaults
LAYOUTS = {
    'W': [['W', 'A', 1, None]],                                          # one chain
    'S5': [['S', 'A', 5, None]],                                         # one chain numbered from 5
    'H': [['H', 'A', 1, None]],
    'SS': [['S', 'A', 1, None], ['S', 'B', 1, [0, 0, 1]]],               # identical chains, same numbers, separate molecules
    'SW5': [['S', 'A', 1, None], ['W', 'B', 5, [1, 0, 0]]],              # different chains, the second numbered from 5
    'IJ': [['I', 'A', 1, None], ['J', 'B', 1, None]],                    # 3i40: two chains linked by disulfides (one molecule)
    'IJ5': [['I', 'A', 1, None], ['J', 'B', 5, None]],
    'IJW': [['I', 'A', 1, None], ['J', 'B', 1, None], ['W', 'C', 5, [1, 0, 0]]],
    'WSn': [['W', 'A', 1, None], ['S', 'B', -2, [0, 1, 0]]],            # later chain starting below residue 1
    'WWW': [['W', 'A', 1, None], ['W', 'B', 1, [0, 0, 1]], ['W', 'C', 11, [0, 1, 0]]],
}
_LAYOUT_CACHE = {}


def layout(name):
    if name not in _LAYOUT_CACHE:
        chains = place_chains(LAYOUTS[name])
        text, residues = build_pdb(chains)
        _LAYOUT_CACHE[name] = (chains, text, residues)
    return _LAYOUT_CACHE[name]


def _approx(residues, i, j):
    p, q = residues[i]['ca'], residues[j]['ca']
    return math.sqrt(sum((p[k] - q[k]) ** 2 for k in range(3)))


def gen_entries(rng, residues, opts, want=16):
    """Contact-map lines [resid a, chain a, resid b, chain b, OV, rCSU] for a structure the harness built.  Distances are only
    estimated here (C-alpha positions of the input) to aim at every class; the classes are decided by TLC afterwards."""
    up, lo, sep = opts['up'] / 1000.0, opts['lo'] / 1000.0, opts['sep']           # Angstrom
    usable = [i for i, r in enumerate(residues) if r['ca'] is not None and (opts['bb'] == 'BB' or 'CB' in r['names'])]
    pairs = [(i, j) for a, i in enumerate(usable) for j in usable[a + 1:]]
    inter = [p for p in pairs if residues[p[0]]['chain'] != residues[p[1]]['chain'] and _approx(residues, *p) < up + 1.5]
    near = [p for p in pairs if residues[p[0]]['chain'] == residues[p[1]]['chain'] and abs(p[0] - p[1]) <= sep + 1]
    close = [p for p in pairs if p not in near and _approx(residues, *p) < lo + 2.0]
    inside = [p for p in pairs if residues[p[0]]['chain'] == residues[p[1]]['chain'] and abs(p[0] - p[1]) > sep + 1
              and lo + 0.5 < _approx(residues, *p) < up - 0.5]
    beyond = [p for p in pairs if up + 0.3 < _approx(residues, *p) < up + 4.0]
    # residues next to a disulfide bridge (S-S below 2.5 A in the input): close on the residue graph, far apart by number
    bridge = []
    for i in usable:
        for j in usable:
            if i < j and 'sg' in residues[i] and 'sg' in residues[j] and abs(i - j) > 2 and \
                    math.sqrt(sum((residues[i]['sg'][k] - residues[j]['sg'][k]) ** 2 for k in range(3))) < 2.5:
                bridge += [(i + di, j + dj) for di in (-1, 0, 1) for dj in (-1, 0, 1)
                           if (di or dj) and i + di in usable and j + dj in usable and residues[i + di]['chain'] == residues[i]['chain']
                           and residues[j + dj]['chain'] == residues[j]['chain']]
    chosen = []
    for bucket, k in ((inter, 5), (near, 3), (close, 2), (inside, 6), (beyond, 3), (bridge, 3)):
        rng.shuffle(bucket)
        chosen += bucket[:k]
    rng.shuffle(pairs)
    chosen += pairs[:max(0, want - len(chosen))]
    lines = []

    def taken():
        return [1, rng.choice([0, 1])] if rng.random() < 0.7 else [0, 1]

    def line(i, j, flags):
        return [residues[i]['resid'], residues[i]['chain'], residues[j]['resid'], residues[j]['chain']] + flags
    for i, j in dict.fromkeys(chosen):
        if rng.random() < 0.5:
            i, j = j, i
        lines.append(line(i, j, taken()))
        r = rng.random()
        if r < 0.68:
            lines.append(line(j, i, taken()))
        elif r < 0.8:
            lines.append(line(j, i, [0, 0]))                 # listed the other way round, but not a contact by the flags
    where = {(r['chain'], r['resid']): k for k, r in enumerate(residues)}
    for i, j in inter[:3]:                                   # mirrored one-directional inter-chain entries: A2->B3 and A3->B2
        a, b = residues[i], residues[j]
        x, y = where.get((a['chain'], b['resid'])), where.get((b['chain'], a['resid']))
        if x is not None and y is not None and x in usable and y in usable and x != i:
            lines.append(line(i, j, [1, 1]))
            lines.append(line(x, y, [1, 1]))
    chains = sorted({r['chain'] for r in residues})
    for _ in range(rng.randint(1, 3)):                       # residues / chains the structure does not have
        r = residues[rng.choice(usable)]
        kind = rng.choice(['resid', 'chain', 'both'])
        others = [q['resid'] for q in residues if q['chain'] != r['chain'] and (r['chain'], q['resid']) not in where]
        ghost = [rng.choice(others) if others and rng.random() < 0.6 else rng.choice([-7, 0, 200, 999]), r['chain']] if kind == 'resid' \
            else [r['resid'], rng.choice(['Z', 'Q'])] if kind == 'chain' else [rng.randint(300, 400), 'Z']
        if (ghost[1], ghost[0]) in where or ghost[1] in chains and kind != 'resid':
            continue
        o = residues[rng.choice(usable)]
        lines.append(ghost + [o['resid'], o['chain'], 1, 1])
        if rng.random() < 0.6:
            lines.append([o['resid'], o['chain']] + ghost + [1, 1])
    if rng.random() < 0.5:
        k = rng.choice(usable)
        lines.append(line(k, k, [1, 1]))
    out, seen = [], set()
    for ln in lines:                                         # "every contact list without repeated entries"
        key = tuple(ln[:4])
        if key in seen:
            continue
        seen.add(key)
        out.append(ln)
    rng.shuffle(out)
    return out


def make_opts(rng, fixed=None):
    o = {'name': rng.choice(['molecule', 'mol', 'P', 'SP', 'mol_1', 'T']), 'vs': rng.choice(['CA', 'CA', 'VS', 'GO']), 'bb': 'BB',
         'eps': rng.choice([9414, 9414, 12000, 5500]), 'lo': rng.choice([3000, 3000, 4500, 5000, 1000]),
         'up': rng.choice([11000, 11000, 8000, 15000, 22000]), 'sep': rng.choice([3, 3, 0, 1, 2, 4, 5])}
    o.update(fixed or {})
    return o


def option_args(o):
    """Only options that differ from the documented default are put on the command line (the defaults are exercised too)."""
    args = []
    for key, flag, fmt in (('name', '-name', str), ('vs', '-go-atomname', str), ('bb', '-go-backbone', str),
                           ('eps', '-go-eps', lambda v: '%.3f' % (v / 1000.0)), ('lo', '-go-low', lambda v: '%.4f' % (v / SCALE)),
                           ('up', '-go-up', lambda v: '%.4f' % (v / SCALE)), ('sep', '-go-res-dist', str)):
        if o[key] != DEFAULTS[key]:
            args += [flag, fmt(o[key])]
    return args


def secondary(rng, n, plain=False):
    if plain:
        return 'C' * n
    out = ''
    while len(out) < n:
        out += rng.choice('HECCT') * rng.randint(3, 9)
    return out[:n]


def base_args(ss):
    return ['-f', 'in.pdb', '-x', 'cg.pdb', '-o', 'topol.top', '-ff', 'martini3001', '-ss', ss, '-maxwarn', '1000']


def make_scenario(rng, mode, lay, fixed=None, variants=None):
    _, _, residues = layout(lay)
    opts = make_opts(rng, fixed)
    sc = {'cli': True, 'mode': mode, 'fam': 'cli-' + mode, 'layout': lay, 'opts': opts, 'ss': secondary(rng, len(residues), plain=mode != 'wb'),
          'lines': gen_entries(rng, residues, opts) if mode != 'gen' else [], 'variants': variants or []}
    return sc


WATER_VARIANTS = [
    {'args': ['-water-bias', '-water-bias-eps', 'H:3.6', 'C:2.1', 'E:1.0'], 'regions': []},
    {'args': ['-id-regions', 'R1'], 'regions': ['R1']},
    {'args': ['-water-bias', '-water-bias-eps', 'idr:0.5', 'H:1.0', '-id-regions', 'R1', 'R2'], 'regions': ['R1', 'R2']},
    {'args': ['-water-bias-eps', 'idr:1.5', '-id-regions', 'R2'], 'regions': ['R2']},
]


def water_variants(rng, residues, lines, k, opts=None):
    """Regions are placed on residues of listed pairs that probably get a potential (listed both ways, estimated distance inside
    the window, far apart in sequence), so that some potentials join a disordered and a folded residue, some two disordered."""
    where = {(r['chain'], r['resid']): i for i, r in enumerate(residues)}
    taken = {tuple(ln[:4]) for ln in lines if ln[4] == 1 or ln[5] == 1}
    good = []
    for ln in lines:
        a, b = where.get((ln[1], ln[0])), where.get((ln[3], ln[2]))
        if a is None or b is None or a == b or (ln[2], ln[3], ln[0], ln[1]) not in taken or tuple(ln[:4]) not in taken:
            continue
        d = _approx(residues, a, b)
        if opts is None or (opts['lo'] / 1000.0 + 0.5 < d < opts['up'] / 1000.0 - 0.5 and
                            (residues[a]['chain'] != residues[b]['chain'] or abs(a - b) > opts['sep'] + 1)):
            good.append(ln)
    good = good or lines
    later = [ln for ln in good if ln[1] != residues[0]['chain']]       # residues whose merged number is not their input number
    if later and rng.random() < 0.8:
        good = later
    numbers = sorted({r['resid'] for r in residues})
    out = []
    for v in rng.sample(WATER_VARIANTS, k):
        regs = {}
        for tag in v['regions']:
            ln = rng.choice(good)
            if rng.random() < 0.3 and abs(ln[0] - ln[2]) < 12:            # both residues of a pair inside one region
                regs[tag] = [min(ln[0], ln[2]), max(ln[0], ln[2])]
            else:
                first = ln[0] - rng.randint(0, 2)
                regs[tag] = [first, max(ln[0], first + rng.randint(1, 4))]
        if len(regs) == 2 and not (regs['R1'][1] < regs['R2'][0] or regs['R2'][1] < regs['R1'][0]):
            regs['R2'] = [numbers[-1] - 1, numbers[-1] + 3]
        out.append({'args': ['%d:%d' % tuple(regs[a]) if a in regs else a for a in v['args']], 'regions': [regs[t] for t in v['regions']]})
    return out


# ------------------------------------------------------------------------------------------------------------- jobs
def _rc(rec):
    return 0 if rec.get('rc') == 0 and not rec.get('exc') else 1


def _memory_olds(rec):
    """(chain, merged number) -> _old_resid as the molecule in memory has it when site creation starts."""
    return {(a['chain'], a['resid']): a['old'] for a in rec.get('snap', {}).get('atoms', [])}


def _old_differs(rec, fev):
    """Does a residue carry another input number in memory (_old_resid) than the harness identified from the input?"""
    mem = _memory_olds(rec)
    return any(mem.get((a['chain'], a['resid']), a['old']) != a['old'] for a in fev['files']['atoms'] if a['name'] != fev['opts']['vs'])


def mem_event(sc, rec, fam=None):
    o, snap = sc['opts'], rec.get('snap') or {}
    cmap = [c for m in (rec.get('gomap') or []) for c in m]
    g = {'atoms': snap.get('atoms', []), 'edges': snap.get('edges', []), 'cmap': [{'ra': c[0], 'ca': c[1], 'rb': c[2], 'cb': c[3]} for c in cmap],
         'name': o['name'], 'bb': o['bb'], 'vs': o['vs'], 'lo': o['lo'], 'up': o['up'], 'sep': o['sep'], 'eps': o['eps']}
    post = rec.get('post') or {'exc': True, 'atoms': [], 'vs': [], 'excl': [], 'others': True, 'decl': [], 'nb': []}
    return {'kind': 'climem', 'fam': fam or sc['fam'], 'tol': TOL, 'g': g, 'post': post}


def file_event(sc, rec, lines, residues, fam=None):
    o = sc['opts']
    f = project_files(rec.get('files', {}), o['name'], o['vs'])
    why = assign_old(f['atoms'], o['vs'], residues) if f['atoms'] else ''
    ev = {'kind': 'clifile', 'fam': fam or sc['fam'], 'tol': TOL, 'rc': _rc(rec), 'opts': dict(o),
          'lines': [{'ra': ln[0], 'ca': ln[1], 'rb': ln[2], 'cb': ln[3], 'ov': ln[4], 'rcsu': ln[5]} for ln in lines], 'files': f}
    return ev, why


def _binding_problems(sc, rec, fev, aligned):        # aligned: '' or the reason assign_old gave
    """Things that make a recording unusable (exit 2), never a violation: harness errors, residues that cannot be aligned with
    the input, bonds in cg.pdb (CONECT) that are not the bonds of the molecule in memory."""
    if rec.get('harness_error'):
        return 'harness error in the forked run: ' + rec['harness_error'][-600:]
    if _rc(rec) != 0:
        return ''
    if not fev['files']['atoms']:
        return ''
    if aligned:
        return aligned
    n = len(rec['snap'].get('atoms', []))
    mem = sorted(sorted(e) for e in rec['snap'].get('edges', []))
    fil = sorted(sorted(e) for e in fev['files']['edges'] if e[0] <= n and e[1] <= n)
    if mem != fil:
        return 'CONECT records of cg.pdb are not the bonds of the molecule in memory (%d vs %d)' % (len(fil), len(mem))
    return ''


def _roundtrip_hook(rec):
    """Runs in the forked process after entry(): the real read_go_map on the map -go-write-file wrote, as written and with one
    column appended to every R line (the written lines have 17 columns, read_go_map reads lines of 18)."""
    from vermouth.rcsu.contact_map import read_go_map
    from vermouth.system import System
    text = rec['files'].get('gen.out')
    rec['raw'] = {'ok': False, 'map': [], 'why': 'no file'}
    rec['back'] = {'ok': False, 'map': [], 'why': 'no file'}
    if text is None:
        return
    padded = ''.join((ln + '     0\n') if ln.startswith('R ') else ln + '\n' for ln in text.split('\n'))
    with open('gen_padded.out', 'w') as fh:
        fh.write(padded)
    for key, path in (('raw', 'gen.out'), ('back', 'gen_padded.out')):
        system = System()
        try:
            read_go_map(system, path)
            rec[key] = {'ok': True, 'map': [[int(c[0]), str(c[1]), int(c[2]), str(c[3])] for c in system.go_params['go_map'][0]], 'why': ''}
        except Exception as exc:       # noqa
            rec[key] = {'ok': False, 'map': [], 'why': repr(exc)[:200]}


def run_job(job):
    """One scenario = one scratch directory and 1-4 runs of entry(), each in its own fork.  Returns the scenario, the TLC
    events and the observations that are not judged."""
    sc, scratch = job
    work = tempfile.mkdtemp(prefix='c18cli_', dir=scratch)
    out = {'sc': sc, 'events': [], 'problems': [], 'obs': {}, 'info': {}}
    try:
        _, text, residues = layout(sc['layout'])
        with open(os.path.join(work, 'in.pdb'), 'w') as fh:
            fh.write(text)
        oargs = option_args(sc['opts'])
        if sc['mode'] in ('file', 'wb'):
            with open(os.path.join(work, 'in.map'), 'w') as fh:
                fh.write(contact_file(sc['lines']))
            rec = run_entry(work, base_args(sc['ss']) + ['-go', 'in.map'] + oargs)
            fev, aligned = file_event(sc, rec, sc['lines'], residues)
            out['problems'].append(_binding_problems(sc, rec, fev, aligned))
            base = 'cli-wb-base' if sc['mode'] == 'wb' else None
            fev['fam'] = base or fev['fam']
            out['events'] += [mem_event(sc, rec, fam=base), fev]
            out['info'] = {'merged': rec.get('merged', [])[:1], 'log': rec.get('log', '')[-400:] if _rc(rec) else '', 'exc': rec.get('exc', ''),
                           'old_in_memory_differs': _old_differs(rec, fev)}
            for i, var in enumerate(sc['variants']):
                wdir = os.path.join(work, 'v%d' % i)
                os.makedirs(wdir)
                shutil.copy(os.path.join(work, 'in.pdb'), wdir)
                shutil.copy(os.path.join(work, 'in.map'), wdir)
                rec2 = run_entry(wdir, base_args(sc['ss']) + ['-go', 'in.map'] + oargs + var['args'])
                fev2, aligned2 = file_event(sc, rec2, sc['lines'], residues)
                out['problems'].append(_binding_problems(sc, rec2, fev2, aligned2))
                out['events'].append(mem_event(sc, rec2, fam='cli-wb-variant'))
                out['events'].append({'kind': 'wb', 'fam': 'cli-wb', 'tol': TOL, 'rc': max(_rc(rec), _rc(rec2)), 'opts': dict(sc['opts']),
                                      'regions': var['regions'], 'args': var['args'], 'first': fev['files'], 'second': fev2['files']})
        else:
            rec = run_entry(work, base_args(sc['ss']) + ['-go', '-go-write-file', 'gen.out'] + oargs, _roundtrip_hook)
            mapped = [c + [1, 1] for m in (rec.get('gomap') or []) for c in m]
            fev, aligned = file_event(sc, rec, mapped, residues)
            out['problems'].append(_binding_problems(sc, rec, fev, aligned))
            mev = mem_event(sc, rec)
            out['events'] += [mev, fev]
            legend, widths = parse_written_map(rec.get('files', {}).get('gen.out', ''))
            out['obs'] = {'written_map_columns': widths, 'written_map_unreadable_by_read_go_map': not rec.get('raw', {}).get('ok', False),
                          'why': rec.get('raw', {}).get('why', ''),
                          'raw_equals_memory': sorted(rec.get('raw', {}).get('map', [])) == sorted(c[:4] for c in mapped) if rec.get('raw', {}).get('ok') else None}
            out['info'] = {'merged': rec.get('merged', [])[:1], 'log': rec.get('log', '')[-400:] if _rc(rec) else '', 'exc': rec.get('exc', ''),
                           'old_in_memory_differs': _old_differs(rec, fev)}
            back = rec.get('back', {'ok': False, 'map': []})
            out['events'].append({'kind': 'rt', 'fam': 'cli-rt', 'tol': TOL, 'rc': _rc(rec), 'g': mev['g'], 'backok': bool(back['ok']),
                                  'back': back['map'], 'legend': [{'ra': ln[0], 'ca': ln[1], 'rb': ln[2], 'cb': ln[3], 'ov': ln[4], 'rcsu': ln[5]}
                                                                    for ln in legend]})
            if back['ok']:
                rec2 = run_entry(work, base_args(sc['ss']) + ['-go', 'gen_padded.out'] + oargs)
                fev2, aligned2 = file_event(sc, rec2, [c + [1, 1] for c in back['map']], residues)
                out['problems'].append(_binding_problems(sc, rec2, fev2, aligned2))
                out['events'].append(mem_event(sc, rec2, fam='cli-gen-reread'))
                out['events'].append({'kind': 'same', 'fam': 'cli-same', 'tol': TOL, 'rc': max(_rc(rec), _rc(rec2)), 'first': fev['files'],
                                      'second': fev2['files']})
        out['problems'] = [p for p in out['problems'] if p]
        return out
    except Exception:       # noqa
        out['problems'].append('harness exception: ' + traceback.format_exc()[-1500:])
        return out
    finally:
        shutil.rmtree(work, ignore_errors=True)


# ------------------------------------------------------------------------------------------------------------ plan
QUICK_PLAN = [     # (mode, layout, pinned options, number of water variants); gen / wb first: they are the long jobs
    ('gen', 'IJ', {'up': 11000, 'lo': 3000, 'sep': 3, 'bb': 'BB'}, 0),      # chains in contact: the map has inter-chain entries
    ('gen', 'W', {'bb': 'BB'}, 0),
    ('wb', 'IJ', {'sep': 1, 'up': 15000, 'lo': 1000, 'bb': 'BB'}, 2),
    ('wb', 'S5', {'sep': 2, 'up': 15000, 'bb': 'BB'}, 2),                    # numbered from 5: merged number /= input number
    ('file', 'IJ', {'sep': 1, 'up': 15000, 'lo': 1000}, 0),
    ('file', 'SS', {}, 0),
    ('file', 'SW5', {}, 0),
    ('file', 'IJW', {}, 0),
    ('file', 'WSn', {'sep': 4, 'lo': 1000}, 0),
    ('file', 'S5', {'sep': 0, 'lo': 5000}, 0),
    ('file', 'WWW', {'up': 8000}, 0),
    ('file', 'IJ5', {'bb': 'SC1', 'sep': 2}, 0),
]


def plan(tier, seed):
    rng = random.Random(seed * 9973 + 18)
    todo = list(QUICK_PLAN)
    if tier != 'quick':
        lays = sorted(LAYOUTS)
        for k in range(360):
            todo.append(('file', lays[k % len(lays)], {'bb': 'SC1'} if k % 7 == 3 else {}, 0))
        for k in range(28):
            todo.append(('gen', ['W', 'SS', 'SW5', 'IJ', 'S5', 'WSn', 'IJ5'][k % 7], {'bb': 'BB'}, 0))
        for k in range(48):
            todo.append(('wb', ['IJ', 'H', 'W', 'S5', 'IJ5', 'SS'][k % 6], {'sep': rng.choice([1, 2, 3]), 'up': rng.choice([11000, 15000]), 'bb': 'BB'},
                         rng.choice([2, 3])))
    out = []
    for mode, lay, fixed, nvar in todo:
        sc = make_scenario(rng, mode, lay, fixed)
        if nvar:
            sc['variants'] = water_variants(rng, layout(lay)[2], sc['lines'], nvar, sc['opts'])
        out.append(sc)
    order = {'gen': 0, 'wb': 1, 'file': 2}
    out.sort(key=lambda sc: order[sc['mode']])
    return out


# -------------------------------------------------------------------------------------- worker process of harness/c18.py
def main(argv):
    """python -m harness.c18_real <tier> <seed> <result file>: all runs of the plan and TLC's verdicts on their events, in a
    process of its own so that the driver can model-check and replay the generated molecules meanwhile (started with
    subprocess, no threads involved).  The driver does the accounting (violations, vacuity, evidence)."""
    import multiprocessing as mp
    tier, seed, path = argv[0], int(argv[1]), argv[2]
    preload()
    scenarios = plan(tier, seed)
    scratch = tempfile.mkdtemp(prefix='c18cli_')
    try:
        with mp.Pool(min(16, os.cpu_count() or 1)) as pool:
            outs = pool.map(run_job, [(sc, scratch) for sc in scenarios], chunksize=1)
    finally:
        shutil.rmtree(scratch, ignore_errors=True)
    from . import c18
    batch = [(out['sc'], e) for out in outs for e in out['events']]
    usable = not any(out['problems'] for out in outs)
    judged = c18.judge_shards(batch, nshards=min(16, max(4, len(batch) // 3))) if usable else (0, 0, [])
    with open(path + '.tmp', 'wb') as fh:
        pickle.dump({'outs': outs, 'judged': judged}, fh)
    os.replace(path + '.tmp', path)
    return 0


if __name__ == '__main__':
    sys.exit(main(sys.argv[1:]))
