"""Shared plumbing of the per-property drivers: repo import path, evidence, violations, known findings."""
import hashlib
import json
import os
import sys
import time

VERIF = os.path.dirname(os.path.dirname(os.path.abspath(__file__)))
REPO = os.environ.get('VERIF_REPO', '/repo')
if REPO not in sys.path:
    sys.path.insert(0, REPO)
os.environ.setdefault('VERMOUTH_VERIF', '1')

EVIDENCE_DIR = os.path.join(VERIF, 'evidence')
REPLAY_DIR = os.path.join(VERIF, 'replays')
KNOWN_FILE = os.path.join(VERIF, 'known_findings.json')


def jsonable(v):
    """Make harness values (tuples, frozensets, dict with non-str keys) JSON-serialisable."""
    if isinstance(v, dict):
        return {str(k): jsonable(x) for k, x in v.items()}
    if isinstance(v, (list, tuple)):
        return [jsonable(x) for x in v]
    if isinstance(v, (set, frozenset)):
        return sorted((jsonable(x) for x in v), key=repr)
    if isinstance(v, (str, int, bool)) or v is None:
        return v
    if isinstance(v, float):
        return v
    return repr(v)


class Evidence:
    def __init__(self, pid, tier, seed, level='model_checking'):
        self.pid, self.tier, self.seed, self.level = pid, tier, seed, level
        self.t0 = time.time()
        self.states = 0
        self.transitions = 0
        self.traces = 0            # traces / replayed behaviours validated against the implementation
        self.evaluations = 0
        self.nontrivial = set()    # hashes of distinct non-trivial cases
        self.rule = ''
        self.samples = []
        self.assumptions = []
        self.extra = {}
        self.exhaustive = False
        self.violations = 0
        self.known = 0
        self.tlc_runs = []

    def add_tlc(self, name, res):
        self.states += res.distinct
        self.transitions += res.generated
        self.tlc_runs.append({'run': name, 'distinct_states': res.distinct, 'states_generated': res.generated,
                              'depth': res.depth, 'wall_s': round(res.wall, 2),
                              'action_coverage': {k: list(v) for k, v in res.coverage.items()}})

    def nontrivial_case(self, case):
        h = hashlib.sha1(json.dumps(jsonable(case), sort_keys=True).encode()).hexdigest()[:16]
        self.nontrivial.add(h)

    def sample(self, case, limit=3):
        if len(self.samples) < limit:
            self.samples.append(jsonable(case))

    def write(self):
        os.makedirs(EVIDENCE_DIR, exist_ok=True)
        cov = {
            'states': self.states,
            'transitions': self.transitions,
            'traces_validated_against_impl': self.traces,
            'evaluations': self.evaluations,
            'distinct_nontrivial': len(self.nontrivial),
            'rule': self.rule,
            'samples': self.samples[:5],
            'exhaustive': self.exhaustive,
            'tlc_runs': self.tlc_runs,
            'known_findings_seen': self.known,
        }
        cov.update(self.extra)
        doc = {
            'property_id': self.pid, 'tier': self.tier, 'seed': self.seed, 'level': self.level,
            'coverage': cov, 'assumptions': self.assumptions,
            'wall_s': round(time.time() - self.t0, 2), 'violations': self.violations,
        }
        path = os.path.join(EVIDENCE_DIR, self.pid + '.json')
        tmp = path + '.tmp'
        with open(tmp, 'w') as fh:
            json.dump(doc, fh, indent=1, sort_keys=True)
        os.replace(tmp, path)
        return path


def load_known():
    try:
        with open(KNOWN_FILE) as fh:
            return json.load(fh)['findings']
    except FileNotFoundError:
        return []


class Verdicts:
    """Collects violations of one run; matches them against known findings; prints the contract lines."""
    def __init__(self, pid, ev, signatures=None):
        self.pid, self.ev = pid, ev
        self.signatures = signatures or {}
        self.known_entries = [k for k in load_known() if k['property'] == pid and k['status'] == 'known']
        self.reported_known = {}
        self.violations = []

    def violation(self, kind, scenario, detail=''):
        """scenario: JSON-able dict that the driver's replay() can re-run."""
        scenario = jsonable(scenario)
        for k in self.known_entries:
            pred = self.signatures.get(k['id'])
            if pred is not None:
                try:
                    hit = pred(kind, scenario)
                except Exception:
                    hit = False
                if hit:
                    self.reported_known.setdefault(k['id'], k)
                    self.ev.known += 1
                    return False
        if len(self.violations) < 20:
            os.makedirs(REPLAY_DIR, exist_ok=True)
            blob = json.dumps({'property': self.pid, 'kind': kind, 'detail': detail, 'scenario': scenario},
                              indent=1, sort_keys=True)
            h = hashlib.sha1(blob.encode()).hexdigest()[:10]
            path = os.path.join(REPLAY_DIR, '%s_%s.json' % (self.pid, h))
            with open(path, 'w') as fh:
                fh.write(blob)
            self.violations.append((kind, path, detail))
        else:
            self.violations.append((kind, self.violations[-1][1], detail))
        self.ev.violations += 1
        return True

    def count(self):
        """number of violations recorded so far (vacuity rules of later parts do not pre-empt them)"""
        return len(self.violations)

    def finish(self):
        for k in self.reported_known.values():
            print('KNOWN-FINDING: property=%s %s' % (self.pid, k['what']))
        seen = set()
        for kind, path, detail in self.violations:
            if path in seen:
                continue
            seen.add(path)
            print('VIOLATION property=%s replay=%s' % (self.pid, path))
            print('  kind=%s %s' % (kind, (detail or '')[:500]))
        return 1 if self.violations else 0


def chunks(seq, n):
    seq = list(seq)
    k = max(1, (len(seq) + n - 1) // n)
    return [seq[i:i + k] for i in range(0, len(seq), k)]
