"""C18 - Go-model sites and contacts mirror the backbone and the contact map.

spec/PairGraph.tla      residue graph, graph distance with cut-off, pm^2 geometry (shared with C15)
spec/GoModel.tla        site type rule, the four contact criteria (listed both ways / separation / lower / upper cut-off),
                        ExpectedDecl (statement) / ExpectedOp (one pass over the list, shaped like contact_selector),
                        TAB model: residues on a line x every set of directed contacts x separations x windows     (TAB)
spec/Trace_GoModel.tla  TLC judges recorded runs of the real GoPipeline.run_system: sites, then contacts          (TRACE)

spec -> code: every (input, expected residue pairs) row of the TAB dump becomes a real System (coordinates exactly
representable, so a distance ON a cut-off is decided exactly), goes through the real GoPipeline with the contact list in
random order, and the pair potentials found in system.gmx_topology_params are compared with TLC's set.
code -> spec: seeded random proteins (3-10 residues, 1-3 chains as separate or already merged molecules, input resids
overlapping between chains, gaps, disulfide-like cross-links, 1-3 beads per residue, bead types P2/SP2/..., molecule
names mol/P/S/T/molecule_0) with contact lists (one-directional entries, absent residues and chains, self contacts,
no repeats) go through the real pipeline; the merged molecule is snapshotted when site creation starts (harness-side
wrapper around GoPipeline.prepare_run, no source change) and the final molecule + topology parameters are judged by TLC.
One generator family per contact criterion in which it is the ONLY failing criterion of any listed pair; TLC classifies
the listed residue pairs and the harness requires every sole-criterion class to be inhabited (vacuity -> exit 2).

Float boundary: coordinates are integer pm handed over as pm/1000 nm and read back by rounding (|x*1000 - round| <= 1e-6);
sigma enters TLC as round((sigma*2^(1/6)*1000)^2) pm^2 and must be within 1 pm^2 of the squared backbone distance;
epsilon, mass, charge in 10^-3 units.  Never generated: backbone distances equal to a cut-off (except the exactly
representable TAB rows), repeated contact entries, residues without backbone particle, two residues sharing chain and input
resid, input resids < 1 or not increasing along a chain (see SIGNATURES / VERIF_C18_RESID0)."""
import logging
import math
import multiprocessing as mp
import numbers
import os
import random

from . import common, tlc, tlaval

PID = 'C18'
CRITERIA = ['sym', 'sep', 'lo', 'up']
FAMILIES = CRITERIA + ['absent', 'mixed']
NAMES = ['mol', 'P', 'S', 'T', 'molecule_0', 'SP']
BB_TYPES = ['P2', 'SP2', 'P5', 'SQ5n', 'TP1', 'SP1', 'P6']
SC_TYPES = ['C3', 'SC4', 'TC5', 'P1', 'SQ4p', 'TN6d']
RESNAMES = ['ALA', 'GLY', 'LYS', 'CYS', 'TRP']

TAB_CFG = ("SPECIFICATION Spec\nINVARIANT OpIsDecl\nINVARIANT FastIsDecl\nINVARIANT OrderFree\nINVARIANT BallIsWalk\nINVARIANT OnlySymmetric\n"
           "INVARIANT MonoContacts\nINVARIANT MonoSeparation\n")
TAB_CONSTS = {
    'quick': {'NR': '4', 'Spacing': '500', 'Seps': '{0, 1}', 'Windows': '{<<400, 1600>>, <<500, 1500>>}', 'XLinks': '{FALSE}'},
    'thorough': {'NR': '4', 'Spacing': '500', 'Seps': '{0, 1, 2}', 'Windows': '{<<400, 1600>>, <<500, 1500>>, <<600, 1100>>}',
                 'XLinks': 'BOOLEAN'},
}
RESID0 = os.environ.get('VERIF_C18_RESID0', '1') != '0'      # family with a later chain starting below residue 1 (known finding D13)


def _is_resid0(kind, scenario):
    """Signature of the merge-offset collision: a later chain whose first input resid is < 1."""
    sc = scenario.get('scenario', scenario)
    return ('site-type-not-unique' in str(scenario.get('verdict', ''))
            and any(min(a['old'] for a in m['atoms']) < 1 for m in sc.get('mols', [])[1:]))


SIGNATURES = {'D13': _is_resid0}


# ------------------------------------------------------------------------------------------------- real code
def _num(x, scale):
    try:
        v = float(x) * scale
    except (TypeError, ValueError):
        return -99999
    if not math.isfinite(v):
        return -99999
    r = round(v)
    return r if abs(v - r) <= 1e-6 else -99998


def project_atoms(mol, scale=1000, exact=True):
    """exact: coordinates must be integers after scaling (generated inputs); otherwise they are rounded (real structures: the
    judge then works with a tolerance band)."""
    def coord(x):
        if exact:
            return _num(x, scale)
        try:
            v = float(x) * scale
        except (TypeError, ValueError):
            return -99999
        return int(round(v)) if math.isfinite(v) and abs(v) < 2e9 else -99999
    out = []
    for key, d in mol.nodes(data=True):
        pos = d.get('position')
        resid, old = d.get('resid'), d.get('_old_resid')
        out.append({'key': key, 'chain': str(d.get('chain', '-')), 'resid': int(resid) if isinstance(resid, numbers.Integral) else -99999,
                    'old': int(old) if isinstance(old, numbers.Integral) else -99999,
                    'resname': str(d.get('resname', '-')), 'name': str(d.get('atomname', '-')), 'atype': str(d.get('atype', '-')),
                    'pos': [coord(x) for x in pos] if pos is not None else [-99999] * 3,
                    'mass': _num(d.get('mass', -99.999), 1000), 'charge': _num(d.get('charge', -99.999), 1000)})
    return out


def _inter_snapshot(mol, new_nodes=()):
    snap = {}
    for name, lst in mol.interactions.items():
        keep = []
        for it in lst:
            if name == 'virtual_sitesn' and it.atoms and it.atoms[0] in new_nodes:
                continue
            if name == 'exclusions' and it.meta.get('group') == 'Go model exclusion':
                continue
            keep.append((tuple(it.atoms), [str(p) for p in it.parameters], sorted((str(k), str(v)) for k, v in it.meta.items())))
        if keep:
            snap[name] = keep
    return snap


def build_system(sc):
    import numpy as np
    from vermouth.molecule import Molecule
    from vermouth.system import System
    from vermouth.forcefield import ForceField
    ff = ForceField(name='verif_c18')
    system = System(force_field=ff)
    for m in sc['mols']:
        mol = Molecule(force_field=ff, nrexcl=1)
        for idx in m['order']:
            a = m['atoms'][idx]
            mol.add_node(a['key'], atomname=a['name'], atype=a['atype'], resid=a['resid'], _old_resid=a['old'],
                         resname=a['resname'], chain=a['chain'], position=np.array(a['pos'], dtype=float) / 1000.0,
                         charge_group=a['cg'], mass=a['mass'] / 1000.0, charge=a['charge'] / 1000.0)
        for k1, k2 in m['edges']:
            mol.add_edge(k1, k2)
        for k1, k2 in m.get('bonds', []):
            mol.add_interaction('bonds', (k1, k2), [1, 0.35, 4000])
        for k1, k2 in m.get('excl', []):
            mol.add_interaction('exclusions', (k1, k2), [], meta={'group': 'verif pre-existing'})
        system.add_molecule(mol)
    system.go_params['go_map'] = [[tuple(c) for c in sc['cmap']]]
    return system


def snapshot_before(mol_, scale=1000, exact=True):
    """The merged molecule as it enters site creation."""
    index = {k: i + 1 for i, k in enumerate(mol_.nodes)}
    return {'atoms': project_atoms(mol_, scale, exact), 'edges': [[index[a], index[b]] for a, b in mol_.edges],
            'inter': _inter_snapshot(mol_), 'keys': set(mol_.nodes)}


def snapshot_after(system, snap, scale=1000, exact=True):
    """The system after GoPipeline.run_system, as the `post` record of spec/Trace_GoModel.tla."""
    post = {'exc': 'atoms' not in snap or len(system.molecules) != 1, 'atoms': [], 'vs': [], 'excl': [],
            'others': True, 'decl': [], 'nb': []}
    if post['exc']:
        return post
    mol = system.molecules[0]
    index = {k: i + 1 for i, k in enumerate(mol.nodes)}
    post['atoms'] = project_atoms(mol, scale, exact)
    new_nodes = set(mol.nodes) - snap['keys']
    for it in mol.interactions.get('virtual_sitesn', []):
        if it.atoms and it.atoms[0] in new_nodes:
            post['vs'].append({'site': index[it.atoms[0]], 'from': [index.get(a, 0) for a in it.atoms[1:]],
                               'one': [str(p) for p in it.parameters] == ['1']})
    for it in mol.interactions.get('exclusions', []):
        if it.meta.get('group') == 'Go model exclusion':
            post['excl'].append({'a': index.get(it.atoms[0], 0), 'b': index.get(it.atoms[1], 0)})
    post['others'] = _inter_snapshot(mol, new_nodes) == snap['inter']
    for at in system.gmx_topology_params.get('atomtypes', []):
        post['decl'].append({'node': index.get(at.node, 0) if at.molecule is mol else 0,
                             'sigma': _num(at.sigma, 1000), 'eps': _num(at.epsilon, 1000)})
    for nb in system.gmx_topology_params.get('nonbond_params', []):
        atoms = [str(a) for a in nb.atoms]
        s = float(nb.sigma) * 2 ** (1 / 6) * scale
        ok = math.isfinite(s) and s < 40000
        post['nb'].append({'ta': atoms[0], 'tb': atoms[-1], 's2': round(s * s) if ok else -1, 's': round(s) if ok else -1,
                           'eps': _num(nb.epsilon, 1000)})
    return post


def run_real(sc):
    """Run the real pipeline; return the TLC event (g, post) and the raw exception text."""
    from vermouth.rcsu.go_pipeline import GoPipeline
    system = build_system(sc)
    snap = {}
    original = GoPipeline.prepare_run          # bound method of the singleton; the wrapper shadows it on the instance

    def prepare_and_snapshot(system_, moltype):
        original(system_, moltype=moltype)
        snap.update(snapshot_before(system_.molecules[0]))

    GoPipeline.prepare_run = prepare_and_snapshot
    exc = ''
    root = logging.getLogger('vermouth')
    old_level = root.level
    root.setLevel(logging.ERROR)
    try:
        GoPipeline.run_system(system, moltype=sc['name'], cutoff_short=sc['lo'] / 1000.0, cutoff_long=sc['up'] / 1000.0,
                              go_eps=sc['eps'] / 1000.0, res_dist=sc['sep'], go_anchor_bead=sc['bb'], go_atomname=sc['vs'])
    except (Exception, SystemExit) as err:
        exc = repr(err)
    finally:
        del GoPipeline.prepare_run
        root.setLevel(old_level)
    g = {'atoms': snap.get('atoms', []), 'edges': snap.get('edges', []),
         'cmap': [{'ra': c[0], 'ca': c[1], 'rb': c[2], 'cb': c[3]} for c in sc['cmap']],
         'name': sc['name'], 'bb': sc['bb'], 'vs': sc['vs'], 'lo': sc['lo'], 'up': sc['up'], 'sep': sc['sep'], 'eps': sc['eps']}
    if exc:
        post = {'exc': True, 'atoms': [], 'vs': [], 'excl': [], 'others': True, 'decl': [], 'nb': []}
    else:
        post = snapshot_after(system, snap)
    return {'kind': 'mem', 'fam': sc['fam'], 'tol': 0, 'g': g, 'post': post}, exc


# --------------------------------------------------------------------------------------------------- generator
def _unit(rng):
    while True:
        v = [rng.gauss(0, 1) for _ in range(3)]
        n = math.sqrt(sum(x * x for x in v))
        if n > 1e-3:
            return [x / n for x in v]


def gen_scenario(rng, fam):
    nres = rng.randint(3, 10)
    nchains = min(nres, rng.choice([1, 2, 2, 3]))
    cuts = sorted(rng.sample(range(1, nres), nchains - 1))
    bounds = [0] + cuts + [nres]
    bbname = rng.choice(['BB', 'BB', 'B1'])
    residues = []          # dicts: chain, old, mol index, bb key, pos
    mols = []
    bb_positions = []
    for c in range(nchains):
        chain = 'ABC'[c]
        new_mol = c == 0 or rng.random() < 0.6
        if new_mol:
            mols.append({'atoms': [], 'edges': [], 'bonds': [], 'excl': []})
            key = rng.randint(0, 5)
            offset = 0
            cg = 0
        else:
            offset = mols[-1]['atoms'][-1]['resid']          # what an earlier merge of the chains would have done
        mol = mols[-1]
        old = rng.randint(1, 12) if not (RESID0 and c and new_mol and rng.random() < 0.5) else rng.randint(-2, 0)
        start = [rng.randint(-300, 300) for _ in range(3)] if not bb_positions else \
            [x + int(round(u * rng.uniform(450, 800))) for x, u in zip(rng.choice(bb_positions), _unit(rng))]
        pos_bb = start
        prev_bb = None
        for r in range(bounds[c], bounds[c + 1]):
            gap = prev_bb is not None and rng.random() < 0.2
            if prev_bb is not None:
                old += rng.choice([2, 3]) if gap else 1
                u = _unit(rng)
                pos_bb = [pos_bb[k] + int(round(u[k] * rng.uniform(340, 420) * (2 if gap else 1))) for k in range(3)]
            resname = rng.choice(RESNAMES)
            nbeads = rng.choice([1, 2, 2, 3])
            names = [bbname, 'SC1', 'SC2'][:nbeads]
            slots = list(range(nbeads))
            if rng.random() < 0.3:
                rng.shuffle(slots)                            # the backbone particle is not always the first of its residue
            members = {}
            for slot in slots:
                key += rng.choice([1, 1, 1, 2, 4])
                cg += 1
                if slot == 0:
                    pos = list(pos_bb)
                else:
                    u = _unit(rng)
                    pos = [pos_bb[k] + int(round(u[k] * rng.uniform(220, 340) * slot)) for k in range(3)]
                mol['atoms'].append({'key': key, 'chain': chain, 'resid': old + offset, 'old': old, 'resname': resname,
                                     'name': names[slot], 'atype': rng.choice(BB_TYPES if slot == 0 else SC_TYPES),
                                     'pos': pos, 'mass': rng.choice([72000, 54000, 36000]), 'charge': rng.choice([0, 0, 1000, -1000]),
                                     'cg': cg})
                members[slot] = key
            for slot in range(1, nbeads):
                mol['edges'].append([members[slot - 1], members[slot]])
            if prev_bb is not None and not (gap and rng.random() < 0.7):
                mol['edges'].append([prev_bb, members[0]])
                if rng.random() < 0.5:
                    mol['bonds'].append([prev_bb, members[0]])
            prev_bb = members[0]
            residues.append({'chain': chain, 'old': old, 'mol': len(mols) - 1, 'keys': members, 'pos': list(pos_bb)})
            bb_positions.append(list(pos_bb))
    for _ in range(rng.choice([0, 0, 1, 2])):               # disulfide-like cross-links inside one molecule
        r1, r2 = rng.sample(range(len(residues)), 2)
        if residues[r1]['mol'] == residues[r2]['mol']:
            e = [rng.choice(list(residues[r1]['keys'].values())), rng.choice(list(residues[r2]['keys'].values()))]
            edges = mols[residues[r1]['mol']]['edges']
            if e not in edges and e[::-1] not in edges:
                edges.append(e)
                if rng.random() < 0.5:
                    mols[residues[r1]['mol']]['excl'].append(e)
    for m in mols:
        m['order'] = list(range(len(m['atoms'])))
    span = 1 + int(max(math.sqrt(sum((x - y) ** 2 for x, y in zip(p, q))) for p in bb_positions for q in bb_positions))
    # contact list
    pairs = [(i, j) for i in range(len(residues)) for j in range(i + 1, len(residues))]
    rng.shuffle(pairs)
    chosen = pairs[:rng.randint(2, min(len(pairs), 14))]
    entries = []

    def entry(i, j):
        return [residues[i]['old'], residues[i]['chain'], residues[j]['old'], residues[j]['chain']]

    one_way = fam in ('sym', 'mixed', 'absent')
    for i, j in chosen:
        if rng.random() < 0.5:
            i, j = j, i
        entries.append(entry(i, j))
        if not (one_way and rng.random() < 0.4):
            entries.append(entry(j, i))
    if fam in ('absent', 'mixed'):
        present = {(r['chain'], r['old']) for r in residues}
        for _ in range(rng.randint(1, 4) if fam == 'absent' else rng.randint(0, 2)):
            r = rng.choice(residues)
            kind = rng.choice(['resid', 'chain', 'both'])
            elsewhere = [q['old'] for q in residues if q['chain'] != r['chain']]      # a resid only other chains have
            ghost = [rng.choice(elsewhere) if elsewhere and rng.random() < 0.6 else rng.randint(-3, 40), r['chain']] \
                if kind == 'resid' else \
                [r['old'], rng.choice(['Z', 'D', ''])] if kind == 'chain' else [rng.randint(50, 60), 'Z']
            if (ghost[1], ghost[0]) in present:
                continue
            other = rng.choice(residues)
            e = ghost + [other['old'], other['chain']]
            entries.append(e)
            if rng.random() < 0.6:
                entries.append(e[2:] + e[:2])
    if fam == 'mixed':
        for _ in range(rng.randint(0, 2)):
            r = rng.randrange(len(residues))
            entries.append(entry(r, r))
    cmap = []
    for e in entries:
        if e not in cmap:
            cmap.append(e)
    rng.shuffle(cmap)
    sc = {'fam': fam, 'mols': mols, 'cmap': cmap, 'name': rng.choice(NAMES), 'bb': bbname, 'vs': rng.choice(['CA', 'CA', 'VS']),
          'eps': rng.choice([9414, 12000, 5000, 9414]), 'sep': 0, 'lo': 10, 'up': span + rng.randint(20, 300)}
    if fam == 'sep':
        sc['sep'] = rng.choice([1, 1, 2, 3, 4])
    elif fam == 'lo':
        sc['lo'] = rng.randint(400, 800)
    elif fam == 'up':
        sc['up'] = rng.randint(500, 1100)
    elif fam in ('mixed', 'absent'):
        sc['sep'] = rng.choice([0, 1, 2, 3, 4])
        sc['lo'] = rng.randint(300, 600)
        sc['up'] = rng.randint(800, 1400)
    for i, p in enumerate(bb_positions):
        for q in bb_positions[i + 1:]:
            d2 = sum((x - y) ** 2 for x, y in zip(p, q))
            if d2 < 10000 or d2 in (sc['lo'] ** 2, sc['up'] ** 2):
                return None
    return sc


def make_scenario(rng, fam):
    for _ in range(200):
        sc = gen_scenario(rng, fam)
        if sc is not None:
            return sc
    raise tlc.MachineryError('generator cannot find an unambiguous scenario for family ' + fam)


def _trace_chunk(args):
    jobs, seed = args
    rng = random.Random(seed)
    out = []
    for fam in jobs:
        sc = make_scenario(rng, fam)
        ev, exc = run_real(sc)
        out.append((sc, ev))
    return out


# ------------------------------------------------------------------------------------------------- TAB replay
def scenario_of_state(inp, rng):
    axis, sign = rng.randrange(3), rng.choice([1, -1])
    off = [500 * rng.randint(-3, 3) for _ in range(3)]
    key0 = rng.randint(0, 7)
    atoms = []
    for a in inp['atoms']:
        pos = list(off)
        pos[axis] += sign * a['pos'][0]
        atoms.append({'key': key0 + a['key'], 'chain': a['chain'], 'resid': a['resid'], 'old': a['old'], 'resname': a['resname'],
                      'name': a['name'], 'atype': a['atype'], 'pos': pos, 'mass': a['mass'], 'charge': a['charge'], 'cg': a['key']})
    cmap = [[c['ra'], c['ca'], c['rb'], c['cb']] for c in inp['cmap']]
    rng.shuffle(cmap)
    mol = {'atoms': atoms, 'edges': [[key0 + i, key0 + j] for i, j in inp['edges']], 'bonds': [], 'excl': [],
           'order': list(range(len(atoms)))}
    return {'fam': 'tab', 'mols': [mol], 'cmap': cmap, 'name': inp['name'], 'bb': inp['bb'], 'vs': inp['vs'], 'eps': inp['eps'],
            'sep': inp['sep'], 'lo': inp['lo'], 'up': inp['up']}


def _replay_chunk(args):
    states, seed = args
    rng = random.Random(seed)
    if states and isinstance(states[0], str):
        states = [st for st in map(tlaval.parse_state_body, states) if (0, 0) not in st['out']]
    bad, judged, nontrivial, sample, n, inhabited = [], [], [], [], 0, 0
    for st in states:
        sc = scenario_of_state(st['inp'], rng)
        ev, exc = run_real(sc)
        n += 1
        exp = sorted([list(p) for p in st['out']])
        resid_of_type = {a['atype']: a['resid'] for a in ev['post']['atoms'] if a['name'] == sc['vs']}
        got = sorted(sorted([resid_of_type.get(nb['ta'], 0), resid_of_type.get(nb['tb'], 0)]) for nb in ev['post']['nb'])
        if exc or got != exp:
            bad.append({'kind': 'tab', 'scenario': sc, 'expected': exp, 'got': got, 'exc': exc})
        if exp:
            inhabited += 1
        if exp and len(exp) * 2 < len(sc['cmap']):
            nontrivial.append(st['inp'])
            if not sample:
                sample.append({'kind': 'TAB row replayed', 'contacts': sc['cmap'], 'sep': sc['sep'], 'window_pm': [sc['lo'], sc['up']],
                               'expected_pairs': exp, 'real_pairs': got})
        if rng.random() < 0.05:
            judged.append((sc, ev))
    return n, bad, judged, nontrivial, sample, inhabited


# ------------------------------------------------------------------------------------------------------ judge
def _judge(shard):
    work = tlc.scratch('c18_')
    tf = tlc.write_json(work, 'trace.json', [ev for _, ev in shard])
    res = tlc.run('Trace_GoModel', 'SPECIFICATION Spec\n', dump=True, env={'TRACE_FILE': tf}, workdir=work, workers=2,
                  timeout=1800)
    if res.violated:
        raise tlc.MachineryError('Trace_GoModel violated ' + str(res.violated))
    verdicts = {st['tid']: st['verdict'] for st in res.states() if st['verdict']['v'] != 'pending'}
    return res.distinct, res.generated, verdicts


def judge_batch(batch, ev, vd):
    shards = common.chunks(batch, 4 if len(batch) < 3000 else tlc.NCPU // 2)
    with mp.Pool(len(shards)) as pool:
        res = pool.map(_judge, shards)
    hist = {}
    for shard, (dist, gen, verdicts) in zip(shards, res):
        ev.states += dist
        ev.transitions += gen
        if len(verdicts) != len(shard):
            raise tlc.MachineryError('trace verdicts missing: %d of %d' % (len(verdicts), len(shard)))
        for i, (sc, e) in enumerate(shard, 1):
            v = verdicts[i]
            ev.traces += 1
            ev.evaluations += 1
            h = hist.setdefault(e['fam'], {'events': 0})
            h['events'] += 1
            for c, k in v['cls'].items():
                h[c] = h.get(c, 0) + k
            if v['v'] != 'ok':
                vd.violation('trace-rejected', {'kind': 'trace', 'scenario': sc, 'post': e['post'], 'verdict': v['v']}, v['v'])
            if sum(1 for c in ['pair'] + CRITERIA if v['cls'].get(c, 0) > 0) >= 2:
                ev.nontrivial_case(e['g'])
    return hist


# -------------------------------------------------------------------------------------------------------- run
def run(tier, seed, ev, vd):
    quick = tier == 'quick'
    ev.rule = ('TAB: 4 residues on a line x every set of directed contacts (2^12) x separations x cut-off windows, replayed into '
               'the real GoPipeline. TRACE: random multi-chain proteins per generator family. Non-trivial = input on which at '
               'least two of the classes {contact kept, listed pair excluded only by one-directional listing, only by separation, '
               'only by lower cut-off, only by upper cut-off} are inhabited (classes computed by TLC; for TAB rows: at least one '
               'pair kept and fewer than half of the entries used); distinct by model input.')
    ev.assumptions = [
        'TLC 1.8 evaluates the TLA+ operators correctly',
        'the molecule entering site creation is observed by wrapping GoPipeline.prepare_run in the harness process (merging '
        'of molecules itself belongs to C12)',
        'coordinates integer pm; sigma compared through round((sigma*2^(1/6))^2) pm^2 within 1 pm^2; epsilon, mass, charge in 1e-3',
        'not generated: backbone distance equal to a cut-off (except exactly representable TAB rows), repeated contact entries, '
        'residues without backbone particle, residues sharing chain and input resid, input resids < 1 or decreasing along a chain',
    ]
    consts = TAB_CONSTS[tier]
    res = tlc.run('GoModel', TAB_CFG, consts=consts, dump=True, timeout=1700)
    if res.violated:
        raise tlc.MachineryError('GoModel model violates %s' % res.violated)
    ev.add_tlc('TAB GoModel %s' % consts, res)
    ev.exhaustive = True
    with open(res.dump_path) as fh:
        bodies = tlaval._STATE_HDR.split(fh.read())[2::2]
    if len(bodies) != res.distinct:
        raise tlc.MachineryError('dump has %d states, TLC reports %d' % (len(bodies), res.distinct))
    with mp.Pool(tlc.NCPU) as pool:
        outs = pool.map(_replay_chunk, [(p, seed * 1013 + i) for i, p in enumerate(common.chunks(bodies, tlc.NCPU * 4))])
    batch = []
    nrows = inhabited = 0
    for n, bad, judged, nontrivial, sample, inh in outs:
        nrows += n
        inhabited += inh
        ev.traces += n
        ev.evaluations += n
        batch += judged
        for b in bad:
            vd.violation('replay-mismatch', b, 'real pair potentials %s, TLC ExpectedDecl %s %s' % (b['got'], b['expected'], b['exc']))
        for g in nontrivial:
            ev.nontrivial_case(g)
        for smp in sample:
            ev.sample(smp, limit=1)
    if nrows * 2 != res.distinct:
        raise tlc.MachineryError('TAB dump has %d evaluated rows for %d states' % (nrows, res.distinct))
    if not inhabited:
        raise tlc.MachineryError('vacuous TAB model: no input with a kept contact')

    per = 120 if quick else 2500
    jobs = [f for f in FAMILIES for _ in range(per)]
    random.Random(seed).shuffle(jobs)
    with mp.Pool(tlc.NCPU) as pool:
        parts = pool.map(_trace_chunk, [(c, seed * 7907 + i) for i, c in enumerate(common.chunks(jobs, tlc.NCPU * 2))])
    batch += [x for p in parts for x in p]
    hist = judge_batch(batch, ev, vd)
    ev.tlc_runs.append({'run': 'TRACE Trace_GoModel', 'events': len(batch)})
    ev.extra['listed_pairs_per_family_and_class'] = hist
    ev.extra['class_legend'] = ('per generator family: residue pairs listed in the contact map (either direction) that are kept '
                                '(pair) / excluded by exactly the named criterion / by several (multi); absent = entries naming a '
                                'residue or chain the molecule does not have; sites = backbone particles; classified by TLC')
    for fam in CRITERIA:
        h = hist.get(fam, {})
        if h.get(fam, 0) == 0 or h.get('pair', 0) == 0:
            raise tlc.MachineryError('vacuous family %s: %s' % (fam, h))
        if [c for c in CRITERIA if c != fam and h.get(c, 0)] or h.get('multi', 0):
            raise tlc.MachineryError('family %s is not a sole-criterion family: %s' % (fam, h))
    if not hist.get('absent', {}).get('absent'):
        raise tlc.MachineryError('no contact entry for an absent residue generated')
    sc, e = next(x for x in batch if x[0]['fam'] == 'mixed')
    ev.sample({'kind': 'recorded run judged by TLC', 'event': e})


def replay(sc):
    if sc.get('kind') == 'tab':
        ev, exc = run_real(sc['scenario'])
        resid_of_type = {a['atype']: a['resid'] for a in ev['post']['atoms'] if a['name'] == sc['scenario']['vs']}
        got = sorted(sorted([resid_of_type.get(nb['ta'], 0), resid_of_type.get(nb['tb'], 0)]) for nb in ev['post']['nb'])
        print('real pair potentials', got, 'expected', sc['expected'], exc)
        return 0 if got == sc['expected'] and not exc else 1
    scen = sc['scenario']
    e, exc = run_real(scen)
    _, _, verdicts = _judge([(scen, e)])
    print('real run: exception=%r' % exc)
    print(' sites  :', [(a['key'], a['atype'], a['resid'], a['old'], a['chain']) for a in e['post']['atoms'][len(e['g']['atoms']):]])
    print(' pairs  :', e['post']['nb'])
    print(' excl   :', e['post']['excl'])
    print('TLC verdict:', verdicts[1])
    return 0 if verdicts[1]['v'] == 'ok' else 1


def selftest(seed):
    """Binding demonstration: tampered recordings are rejected by the judge, a flipped TAB expectation by the replay."""
    rng = random.Random(seed)
    batch = []
    while len(batch) < 10:
        sc = make_scenario(rng, 'mixed')
        e, _ = run_real(sc)
        if len(e['post']['nb']) >= 2:
            batch.append((sc, e))
    batch[1][1]['post']['nb'].pop()                                        # a qualifying contact loses its potential
    batch[3][1]['post']['nb'][0]['s2'] += 3                                # sigma off
    p = batch[5][1]['post']
    p['atoms'][-1]['atype'] = p['atoms'][-1]['atype'] + 'x'                # site type not the rule
    p = batch[7][1]['post']
    p['excl'][0] = {'a': p['vs'][0]['site'], 'b': p['excl'][0]['b']}      # exclusion on a site instead of the backbone
    batch[8][1]['post']['atoms'][-1]['mass'] = 72000                       # site with a mass
    _, _, verdicts = _judge(batch)
    got = {i: verdicts[i]['v'] for i in verdicts if verdicts[i]['v'] != 'ok'}
    want = {2: 'qualifying-contact-without-pair-potential', 4: 'sigma-is-not-distance-over-2^(1/6)',
            6: 'site-type-not-named-after-molecule-and-residue', 8: 'exclusions-are-not-the-backbone-pairs-of-the-contacts',
            9: 'site-mass-or-charge-not-zero'}
    assert got == want, got
    res = tlc.run('GoModel', TAB_CFG, consts=dict(TAB_CONSTS['quick'], Seps='{0}', Windows='{<<400, 1600>>}'), dump=True)
    rows = [st for st in res.states() if (0, 0) not in st['out'] and st['out']][:5]
    rows[2] = dict(rows[2], out=frozenset(list(rows[2]['out'])[1:]))
    n, bad = _replay_chunk((rows, seed))[:2]
    assert n == 5 and len(bad) == 1, bad
    print('selftest C18: tampered recordings rejected by TLC: %s; flipped TAB expectation reported by the replay: '
          'expected %s got %s' % (sorted(got.items()), bad[0]['expected'], bad[0]['got']))
    return 0
