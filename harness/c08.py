"""C08 - warning allowances are accounted exactly; errors are never waived.

spec/WarnCountOps.tla  LeftoverDecl (statement) / LeftoverOp (implementation loop)
spec/WarnCount.tla     state machine Log / LogAbove / Allow, invariants + action properties   (MC)
spec/Trace_WarnCount   batch validation of recorded evaluations of the real function         (TRACE)

Binding spec -> code: every reachable state of the MC run is replayed through the real logging
path (StyleAdapter(TypeAdapter(logger)) -> CountingHandler) and the real `maxwarn` argument parser
of bin/martinize2; `ignore_warnings_and_count` must return TLC's `left`.
Binding code -> spec: random larger multisets are run through the same real path, recorded and
judged by TLC (Trace_WarnCount.Judge)."""
import importlib.machinery
import importlib.util
import logging
import multiprocessing as mp
import os
import random

from . import common, tlc
from .common import REPO

PID = 'C08'
NONE = -1000

CFG = """SPECIFICATION Spec
INVARIANT LeftIsDecl
INVARIANT OpIsDecl
INVARIANT NonNegative
INVARIANT ErrorsCounted
INVARIANT ZeroIffCovered
INVARIANT OnlyLargestLimit
INVARIANT NegativeIsZero
PROPERTY ErrorAddsOne
PROPERTY WarningNeverHelps
PROPERTY AbsentTypeNoEffect
"""
TRACE_CFG = "SPECIFICATION Spec\n"

CONSTS = {
    'quick': {'Types': '{"a","Bb"}', 'GhostTypes': '{"z"}', 'MaxC': '3', 'MaxAbove': '1',
              'Limits': '{-1,0,1,2,5}', 'MaxSpecs': '2'},
    'thorough': {'Types': '{"a","Bb","general"}', 'GhostTypes': '{"z"}', 'MaxC': '3', 'MaxAbove': '1',
                 'Limits': '{-1,0,1,2,5}', 'MaxSpecs': '3'},
}

_cli = None


def cli_module():
    global _cli
    if _cli is None:
        path = os.path.join(REPO, 'bin', 'martinize2')
        loader = importlib.machinery.SourceFileLoader('martinize2_cli_verif', path)
        spec = importlib.util.spec_from_loader(loader.name, loader)
        mod = importlib.util.module_from_spec(spec)
        loader.exec_module(mod)
        _cli = mod
    return _cli


def entry_to_string(e):
    if e['t'] == '*':
        return str(e['n'])
    if e['n'] == NONE:
        return e['t']
    return '%s:%d' % (e['t'], e['n'])


def run_real(counts, above, below, specs, rng, order=None):
    """Emit the records through the real logging stack, parse allowances with the real maxwarn,
    return (result, iteration order of the WARNING dictionary)."""
    from vermouth.log_helpers import StyleAdapter, TypeAdapter, CountingHandler, ignore_warnings_and_count
    cli = cli_module()
    logger = logging.Logger('verif.c08')
    logger.setLevel(1)
    logger.propagate = False
    counter = CountingHandler()
    if rng.random() < 0.5:
        counter.setLevel(logging.WARNING)      # as in bin/martinize2
    adapter = TypeAdapter(logger)
    adapter.addHandler(counter)
    adapter = StyleAdapter(adapter)
    records = []
    for t, n in counts.items():
        records += [(logging.WARNING, t)] * n
    for lvl_t in above:
        records.append(lvl_t)
    for t in below:
        records.append((rng.choice([logging.INFO, logging.DEBUG]), t))
    if order is None:
        rng.shuffle(records)
    for lvl, t in records:
        if t == 'general' and rng.random() < 0.5:
            adapter.log(lvl, 'message {} without type', 1)
        else:
            adapter.log(lvl, 'message {} of type {}', 1, t, type=t)
    parsed = [cli.maxwarn(entry_to_string(e)) for e in specs]
    # -maxwarn is action=append, nargs=+ : a list of lists; group deterministically at random
    groups = []
    for p in parsed:
        if groups and rng.random() < 0.5:
            groups[-1].append(p)
        else:
            groups.append([p])
    result = ignore_warnings_and_count(counter, groups)
    seen_order = [t for t, n in counter.counts[logging.WARNING].items()]
    return result, seen_order


def _replay_chunk(args):
    states, seed = args
    rng = random.Random(seed)
    bad = []
    n = 0
    for st in states:
        counts = dict(st['counts'])
        above_n = st['above']
        types = sorted(counts)
        above = [(rng.choice([logging.ERROR, logging.CRITICAL]), rng.choice(types)) for _ in range(above_n)]
        below = [rng.choice(types) for _ in range(rng.randrange(3))]
        specs = [dict(e) for e in st['specs']]
        try:
            got, _ = run_real(counts, above, below, specs, rng)
        except Exception as exc:   # the real code must not fail on a well-specified input
            got = 'exception %r' % (exc,)
        n += 1
        if got != st['left']:
            bad.append({'counts': counts, 'above': [list(a) for a in above], 'below': below, 'specs': specs,
                        'expected': st['left'], 'got': got})
    return n, bad


def classify(counts, above, specs):
    """Which clauses of the statement are in play (for the non-triviality rule)."""
    lim = {e['t'] for e in specs if e['n'] != NONE and e['t'] != '*'}
    named = {e['t'] for e in specs if e['n'] == NONE}
    blanket = max([0] + [e['n'] for e in specs if e['t'] == '*'])
    cases = set()
    if above:
        cases.add('above')
    if any(counts.get(t, 0) > 0 for t in lim):
        cases.add('limited')
    if any(counts.get(t, 0) > 0 for t in named):
        cases.add('named')
    if blanket > 0 and any(n > 0 for t, n in counts.items() if t not in lim and t not in named):
        cases.add('blanket')
    if len({e['t'] for e in specs}) < len(specs):
        cases.add('repeated')
    return cases


def random_case(rng):
    ntypes = rng.randint(1, 6)
    # warning types are case-sensitive names ('DSSP-version' is a shipped one); 'Tx' and 'tx' are different types
    types = ['t0', 'DSSP-version', 'Tx', 'tx', 'unknown-input', 'pdb-alternate'][:ntypes]
    if rng.random() < 0.4:
        types[0] = 'general'
    counts = {t: rng.choice([0, 1, 2, 3, 7, 20, 60]) for t in types}
    above = [(rng.choice([logging.ERROR, logging.CRITICAL]), rng.choice(types)) for _ in range(rng.choice([0, 0, 1, 2]))]
    below = [rng.choice(types) for _ in range(rng.randrange(4))]
    pool = types + ['ghost1', 'ghost2']
    specs = []
    named, limited = set(), set()
    for _ in range(rng.randint(0, 6)):
        kind = rng.choice(['blanket', 'named', 'limited', 'limited'])
        if kind == 'blanket':
            specs.append({'t': '*', 'n': rng.choice([-3, 0, 1, 2, 5, 30, 100])})
        elif kind == 'named':
            t = rng.choice(pool)
            if t in limited:
                continue
            named.add(t)
            specs.append({'t': t, 'n': NONE})
        else:
            t = rng.choice(pool)
            if t in named:
                continue
            limited.add(t)
            specs.append({'t': t, 'n': rng.choice([-2, 0, 1, 2, 3, 8, 25, 70])})
    return counts, above, below, specs


def _trace_chunk(args):
    n, seed = args
    rng = random.Random(seed)
    out = []
    for _ in range(n):
        counts, above, below, specs = random_case(rng)
        try:
            got, order = run_real(counts, above, below, specs, rng)
        except Exception as exc:
            got, order = -999, [t for t in counts if counts[t] > 0]
        cz = {t: n_ for t, n_ in counts.items()}
        out.append({'counts': cz, 'above': len(above), 'specs': specs, 'order': order, 'result': got,
                    'aboverec': [list(a) for a in above], 'below': below})
    return out


APA_INV = 'Inv'


def unbounded_part(tier, ev):
    """For three warning types Apalache (SMT) proves - for ALL natural counts, ALL integer limits and blanket allowances and
    every iteration order - that the loop equals the sentence, that the result is never negative, zero exactly when every
    warning is covered, and never below the number of records above warning level (spec/WarnCountApa.tla); TLC ties that
    module to WarnCountOps (used by everything else here) on a small domain (spec/WarnCountBridge.tla)."""
    from . import apalache
    r = apalache.check_init_invariant('WarnCountApa', APA_INV)
    if not r['ok']:
        raise tlc.MachineryError('WarnCountApa: Apalache refutes conjunct %s of %s' % (r['violated_conjunct'], APA_INV))
    work = tlc.scratch('c08b_')
    apalache.standard_module(work)
    quick = tier == 'quick'
    res = tlc.run('WarnCountBridge', 'SPECIFICATION Spec\nINVARIANT SameDecl\nINVARIANT SameOp\nINVARIANT SameCovered\n',
                  consts={'MaxCount': '2', 'Limits': '{-1, 1}' if quick else '{-1, 0, 2}', 'Blankets': '{-1, 0, 1, 3}'},
                  workdir=work, timeout=1500)
    if res.violated:
        raise tlc.MachineryError('WarnCountBridge: WarnCountApa and WarnCountOps disagree (%s)' % res.violated)
    ev.add_tlc('MC WarnCountBridge (WarnCountApa = WarnCountOps)', res)
    ev.extra['apalache'] = dict(r, note='initial-state invariant, unbounded integers, three warning types')


def run(tier, seed, ev, vd):
    consts = CONSTS[tier]
    ev.rule = ('MC: every reachable (counts, above, allowances) state of WarnCount; traces: random multisets over <=6 '
               'types, counts <=60, <=6 allowance entries. Non-trivial = at least two of the clauses '
               '{record above WARNING, type with numeric limit occurring, type waived by name occurring, blanket '
               'allowance consumed, repeated entry} apply; distinct by (counts, above, allowances).')
    ev.assumptions = ['TLC 1.8 evaluates the TLA+ operators correctly',
                      'a type both waived by name and given a numeric limit is not generated (unspecified)',
                      'harness renders allowance entries to -maxwarn strings and groups them at random']
    unbounded_part(tier, ev)
    res = tlc.run('WarnCount', CFG, consts=consts, dump=True, coverage=True, timeout=1500 if tier == 'quick' else 5000)
    if res.violated:
        # the design itself is broken: a machinery/spec problem, not a finding about the code
        raise tlc.MachineryError('WarnCount model violates %s' % res.violated)
    for act in ('Log', 'LogAbove', 'Allow'):
        if res.coverage.get(act, (0, 0))[1] == 0:
            raise tlc.MachineryError('vacuous model: action %s never taken' % act)
    ev.add_tlc('MC WarnCount %s' % consts, res)
    ev.exhaustive = True
    states = list(res.states())
    if len(states) != res.distinct:
        raise tlc.MachineryError('dump has %d states, TLC reports %d' % (len(states), res.distinct))
    # spec -> code replay of every state
    parts = common.chunks(states, tlc.NCPU * 4)
    with mp.Pool(tlc.NCPU) as pool:
        results = pool.map(_replay_chunk, [(p, seed * 1000 + i) for i, p in enumerate(parts)])
    for n, bad in results:
        ev.traces += n
        ev.evaluations += n
        for b in bad:
            vd.violation('replay-mismatch', b, 'real result %r, TLC LeftoverDecl %r' % (b['got'], b['expected']))
    for st in states:
        cs = classify(dict(st['counts']), st['above'], [dict(e) for e in st['specs']])
        if len(cs) >= 2:
            ev.nontrivial_case([st['counts'], st['above'], st['specs']])
    for st in states[len(states) // 2: len(states) // 2 + 2]:
        ev.sample({'kind': 'replayed model state', 'state': st})

    # code -> spec traces
    ntr = 2000 if tier == 'quick' else 40000
    per = ntr // tlc.NCPU
    with mp.Pool(tlc.NCPU) as pool:
        batches = pool.map(_trace_chunk, [(per, seed * 7919 + i) for i in range(tlc.NCPU)])
    batch = [e for b in batches for e in b]
    work = tlc.scratch('c08_')
    tf = tlc.write_json(work, 'trace.json', [{k: e[k] for k in ('counts', 'above', 'specs', 'order', 'result')}
                                             for e in batch])
    tres = tlc.run('Trace_WarnCount', TRACE_CFG, dump=True, env={'TRACE_FILE': tf}, workdir=work, timeout=1500)
    if tres.violated:
        raise tlc.MachineryError('trace spec violated %s' % tres.violated)
    ev.add_tlc('TRACE Trace_WarnCount (%d recorded evaluations)' % len(batch), tres)
    verdicts = {}
    for st in tres.states():
        if st['verdict'] != 'pending':
            verdicts[st['tid']] = st['verdict']
    if len(verdicts) != len(batch):
        raise tlc.MachineryError('trace verdicts missing: %d of %d' % (len(verdicts), len(batch)))
    for i, e in enumerate(batch, 1):
        ev.traces += 1
        ev.evaluations += 1
        if verdicts[i] != 'ok':
            vd.violation('trace-rejected', e, verdicts[i])
        if len(classify(e['counts'], e['above'], e['specs'])) >= 2:
            ev.nontrivial_case([e['counts'], e['above'], e['specs']])
    ev.sample({'kind': 'recorded evaluation judged by TLC', 'event': batch[0], 'verdict': verdicts[1]})


def replay(scenario):
    rng = random.Random(0)
    above = [tuple(a) for a in scenario.get('above', scenario.get('aboverec', []))] \
        if not isinstance(scenario.get('above'), int) else [tuple(a) for a in scenario.get('aboverec', [])]
    got, order = run_real(scenario['counts'], above, scenario.get('below', []), scenario['specs'], rng)
    print('real ignore_warnings_and_count ->', got, ' expected', scenario.get('expected', scenario.get('result')))
    return 0


def selftest(seed):
    # the symbolic part is bound too: a mutant of WarnCountApa (negative limits no longer clamped in the loop) must be refuted
    from . import apalache
    src = open(os.path.join(tlc.SPEC_DIR, 'WarnCountApa.tla')).read()
    mut = src.replace('<<total - Max2(0, Min2(cnt[t], Lim(t))), bl>>', '<<total - Min2(cnt[t], lim[t]), bl>>')
    assert mut != src
    r = apalache.check_init_invariant('WarnCountApa', APA_INV, text=mut)
    assert not r['ok'], 'Apalache accepted the mutated loop'
    print('selftest C08: Apalache refutes the mutated loop (conjunct %s of %s)' % (r['violated_conjunct'], APA_INV))
    """Binding demonstration: a corrupted recorded result must be rejected by the trace spec."""
    batch = _trace_chunk((20, seed))
    batch[7]['result'] += 1
    work = tlc.scratch('c08s_')
    tf = tlc.write_json(work, 'trace.json', [{k: e[k] for k in ('counts', 'above', 'specs', 'order', 'result')}
                                             for e in batch])
    tres = tlc.run('Trace_WarnCount', TRACE_CFG, dump=True, env={'TRACE_FILE': tf}, workdir=work)
    verdicts = {st['tid']: st['verdict'] for st in tres.states() if st['verdict'] != 'pending'}
    bad = [i for i, v in verdicts.items() if v != 'ok']
    assert bad == [8], bad
    print('selftest C08: corrupted trace 8 rejected (%s), 19 accepted' % verdicts[8])
    return 0
