"""C02 - a written ITP states exactly the molecule held in memory.

spec/ItpWrite.tla        Write (operational, shaped like write_molecule_itp), Canon (declarative), ReadMol (reader
                         semantics), Judge (total verdict); TAB model over four input families              (TAB)
spec/Trace_ItpWrite.tla  TLC judges recorded (molecule in memory, records read from the written text) pairs   (TRACE)
harness/indep_readers.py independent ITP reader (text -> abstract records), shares no code with vermouth

spec -> code: every molecule of the TAB domain is built as a real vermouth Molecule, written with the real
write_molecule_itp, the text parsed by the independent reader.  If the records equal TLC's Write(mol) the verdict
is the one TLC computed for them (Judge(mol, Write(mol))); if they differ, the real records go to the TRACE judge
and TLC decides on ReadMol(real records) = Canon(mol); a difference that still round-trips is only counted
(`write_model_deviations`: the text is right, the model of the algorithm is not the code's any more).
code -> spec: (a) molecules left behind by random editing histories on real Molecule objects (merge_molecule,
remove_node, add_node: sparse keys, stale / duplicated / missing atom ids, interactions renumbered by the merge),
(b) the molecules the real martinize2 pipeline hands to its topology writer (plus the same molecules after
deleting atoms and shuffling atom ids); each is written, read back, and judged by TLC as a one-event trace.

Family `d11` (atoms with a mass and without a charge, the only inputs on which D11 can show) is generated
separately; everything else never contains such an atom."""
import hashlib
import io
import itertools
import json
import multiprocessing as mp
import random
import re

from . import common, tlc, tlaval
from . import indep_readers

PID = 'C02'
T = tlaval.to_tla
NOAID = -1

SIGNATURES = {
    # D11: atom with a mass and without a charge -> the mass is written where a reader finds the charge
    'D11': lambda kind, sc: (kind == 'roundtrip' and sc.get('why') == 'mass-in-charge-column'
                             and any(n['f'][5] == '' and n['f'][6] != '' for n in sc['mol']['nodes'])),
}

CFG = ("SPECIFICATION Spec\nINVARIANT RoundTrip\nINVARIANT OnlyD11\nINVARIANT VerdictIsRound\nINVARIANT Numbered\n"
       "INVARIANT NothingLost\nINVARIANT GuardsBalanced\n")

# key -> <<atype, resid, resname, atomname, charge_group, charge, mass>>: distinct per key (a field landing on another
# atom is visible), different widths (column alignment), str(float(token)) == token
ATOMTAB = {2: ("P1", "1", "ALA", "BB", "1", "0.5", "72.0"), 5: ("SC2", "1", "ALA", "SC1", "2", "-1.0", "36.0"),
           9: ("Q5", "12", "LYS", "BB", "3", "1.0", "45.5"), 11: ("TC3", "12", "LYS", "SC2", "14", "0.0", "54.0")}
CM = {'cm': {'c': True, 'm': True}, 'c-': {'c': True, 'm': False}, '--': {'c': False, 'm': False},
      '-m': {'c': False, 'm': True}}
IFA = ({'kind': 'ifdef', 'name': 'A'},)
NFA = ({'kind': 'ifndef', 'name': 'A'},)
IFB = ({'kind': 'ifdef', 'name': 'B'},)


def tmpl(type_, at, p, g=(), grp='', com=''):
    return {'type': type_, 'at': tuple(at), 'p': tuple(p), 'g': tuple(g), 'grp': grp, 'com': com}


def tla_set(items):
    return '{' + ', '.join(T(x) for x in items) + '}'


def atomtab_tla():
    return '(' + ' @@ '.join('%d :> %s' % (k, T(v)) for k, v in ATOMTAB.items()) + ')'


def perms(keys):
    return list(itertools.permutations(keys))


def families(tier):
    """name -> constants of one TAB run."""
    quick = tier == 'quick'
    fam = {}
    # F1 renumbering: every node order x every atom-id assignment (none, partial, ties, permutations) x charge/mass
    pool1 = [tmpl('bonds', (2, 1), ('1', '0.47', '3800')), tmpl('angles', (2, 3, 1), ('2', '120', '50'), com='c1'),
             tmpl('virtual_sitesn', (3, 1, 2), ('1',))]
    fam['renumber'] = dict(KeySeqs=[(9,)] + perms((9, 2)) + perms((5, 2, 11)), AidVals=[NOAID, 1, 2, 7],
                           CMPats=[(CM['cm'],), (CM['--'], CM['c-'], CM['cm'])], Pool=pool1, MaxInter=2)
    if not quick:
        pool1b = pool1 + [tmpl('dihedrals', (4, 2, 1, 3), ('1', '180', '10', '2'), g=IFA)]
        fam['renumber4'] = dict(KeySeqs=perms((9, 2, 11, 5)), AidVals=[NOAID, 1, 2, 3],
                                CMPats=[(CM['c-'], CM['cm'], CM['--'])], Pool=pool1b, MaxInter=2)
    # F2 guards and groups inside one section
    pool2 = []
    for gi, g in enumerate([(), IFA, NFA, IFB]):
        for grp in ('', 'g'):
            pool2.append(tmpl('bonds', (1, 2) if grp == '' else (3, 1), ('1', '0.3%d' % gi, '1250'), g=g, grp=grp,
                              com='' if gi % 2 else 'note'))
    if not quick:
        pool2 += [tmpl('bonds', (2, 3), ('1', '0.5', '900'), g=g, grp=grp) for g in [(), IFA, NFA] for grp in ('', 'h')]
    fam['guards'] = dict(KeySeqs=[(11, 2, 5)] if quick else [(11, 2, 5), (2, 5, 11)], AidVals=[NOAID, 1],
                         CMPats=[(CM['cm'],)], Pool=pool2, MaxInter=3)
    # F3 sections: ordering by (arity, name), impropers under dihedrals, virtual_sitesn, exclusions of varying arity
    pool3 = [tmpl('bonds', (1, 2), ('1', '0.47', '3800')), tmpl('constraints', (4, 2), ('1', '0.31')),
             tmpl('angles', (1, 2, 3), ('2', '120', '50')),
             tmpl('dihedrals', (1, 2, 3, 4), ('1', '180', '10', '2')), tmpl('dihedrals', (4, 3, 2, 1), ('9', '0', '5', '1'), g=IFA),
             tmpl('impropers', (2, 1, 3, 4), ('2', '0', '100')), tmpl('impropers', (3, 4, 1, 2), ('2', '35', '60'), g=IFA),
             tmpl('virtual_sitesn', (1, 2, 3), ('1',)), tmpl('virtual_sitesn', (4, 3, 1, 2), ('2',), com='cog'),
             tmpl('exclusions', (1, 2), ()), tmpl('exclusions', (2, 1, 3, 4), ()),
             tmpl('position_restraints', (3,), ('1', 'FC', 'FC', 'FC'), g=({'kind': 'ifdef', 'name': 'POSRES'},))]
    fam['sections'] = dict(KeySeqs=[(9, 2, 11, 5)], AidVals=[NOAID, 3], CMPats=[(CM['cm'],)],
                           Pool=pool3, MaxInter=2 if quick else 3)
    # D11 family, kept apart: atoms with a mass and without a charge
    fam['d11'] = dict(KeySeqs=[(9,), (5, 2)], AidVals=[NOAID, 1], CMPats=[(CM['-m'],), (CM['cm'], CM['-m'])],
                      Pool=[tmpl('bonds', (2, 1), ('1', '0.47', '3800'))], MaxInter=1)
    return fam


def consts_of(f):
    return {'KeySeqs': tla_set(f['KeySeqs']), 'AidVals': tla_set(f['AidVals']), 'AtomTab': atomtab_tla(),
            'CMPats': tla_set(f['CMPats']), 'Pool': tla_set(f['Pool']), 'MaxInter': str(f['MaxInter'])}


# ----------------------------------------------------------------------------------------------------------------
# abstract molecule <-> real Molecule, real writer, independent reader

def norm(v):
    """TLC value (tuples / dicts) -> plain JSON-able lists / dicts."""
    if isinstance(v, dict):
        return {str(k): norm(x) for k, x in v.items()}
    if isinstance(v, (tuple, list)):
        return [norm(x) for x in v]
    return v


def _typed(token, conv):
    """Real attribute value for a token: the typed value when it prints back as the token, else the token itself."""
    if token == '':
        return None
    try:
        v = conv(token)
    except ValueError:
        return token
    return v if str(v) == token else token


def build_molecule(m):
    """Real vermouth Molecule for an abstract molecule (nodes inserted in the given order, interactions added
    through Molecule.add_interaction in the given order)."""
    from vermouth.molecule import Molecule
    mol = Molecule(nrexcl=1)
    for nd in m['nodes']:
        f = nd['f']
        attrs = {'atype': f[0], 'resid': _typed(f[1], int), 'resname': f[2], 'atomname': f[3],
                 'charge_group': _typed(f[4], int)}
        if f[5] != '':
            attrs['charge'] = _typed(f[5], float)
        if f[6] != '':
            attrs['mass'] = _typed(f[6], float)
        if nd['aid'] != NOAID:
            attrs['atomid'] = nd['aid']
        mol.add_node(nd['key'], **attrs)
    for x in m['inter']:
        meta = {}
        if x['g']:
            meta[x['g'][0]['kind']] = x['g'][0]['name']
        if x['grp'] != '':
            meta['group'] = x['grp']
        if x['com'] != '':
            meta['comment'] = x['com']
            meta['version'] = 1
        mol.add_interaction(x['type'], tuple(x['at']), list(x['p']), meta)
    return mol


def project(mol):
    """Abstract molecule of a real Molecule: nodes in graph order, interactions in dictionary / list order.
    Field values become the tokens str(value) ("numeric formatting is compared as text")."""
    nodes = []
    for key in mol.nodes:
        a = mol.nodes[key]
        aid = a.get('atomid')
        nodes.append({'key': int(key), 'aid': NOAID if aid is None else int(aid),
                      'f': [str(a['atype']), str(a['resid']), str(a['resname']), str(a['atomname']),
                            str(a['charge_group']), str(a['charge']) if 'charge' in a else '',
                            str(a['mass']) if 'mass' in a else '']})
    inter = []
    for type_, lst in mol.interactions.items():
        for it in lst:
            g = []
            if it.meta.get('ifdef') is not None:
                g = [{'kind': 'ifdef', 'name': str(it.meta['ifdef'])}]
            elif it.meta.get('ifndef') is not None:
                g = [{'kind': 'ifndef', 'name': str(it.meta['ifndef'])}]
            inter.append({'type': type_, 'at': [int(k) for k in it.atoms], 'p': [str(p) for p in it.parameters],
                          'g': g, 'grp': str(it.meta.get('group') or ''), 'com': str(it.meta.get('comment', ''))})
    return {'nodes': nodes, 'inter': inter}


def in_scope(m):
    """The statement's domain: tokens the format can carry (no blanks / ';' / empty), n-body virtual sites with exactly
    their function type, exclusions without parameters, no aid equal to the NOAID sentinel, mass only with charge."""
    tok = re.compile(r'^[^\s;]+$')
    for nd in m['nodes']:
        if not all(tok.match(t) for t in nd['f'][:5]) or any(t != '' and not tok.match(t) for t in nd['f'][5:]):
            return False
        if nd['f'][5] == '' and nd['f'][6] != '':
            return False
        if nd['aid'] < 0 and nd['aid'] != NOAID:
            return False
    for x in m['inter']:
        if not all(tok.match(t) for t in x['p']):
            return False
        if x['type'] == 'virtual_sitesn' and len(x['p']) != 1:
            return False
        if x['type'] == 'exclusions' and x['p']:
            return False
        if '\n' in x['com'] or '\n' in x['grp']:
            return False
    return True


def write_text(mol, moltype='verif'):
    from vermouth.gmx.itp import write_molecule_itp
    buf = io.StringIO()
    write_molecule_itp(mol, buf, moltype=moltype)
    return buf.getvalue()


def write_and_read(mol, moltype='verif'):
    """(text written by the REAL writer, parsed ITP of the independent reader)"""
    text = write_text(mol, moltype)
    return text, indep_readers.read_itp(text)


# ----------------------------------------------------------------------------------------------------------------
# spec -> code: TAB replay, dump parsed and replayed in parallel

_HDR = re.compile(rb'^State \d+:', re.M)


def _dump_ranges(path, nparts, marker=b'done |-> TRUE'):
    """Byte ranges of the dump that together hold all states containing `marker` (TLC dumps breadth first, so the final
    states sit at the end of the file), balanced by the number of such states."""
    with open(path, 'rb') as fh:
        data = fh.read()
    starts = [mm.start() for mm in _HDR.finditer(data)] + [len(data)]
    wanted = [i for i in range(len(starts) - 1) if data.find(marker, starts[i], starts[i + 1]) >= 0]
    if not wanted:
        return []
    step = max(1, (len(wanted) + nparts - 1) // nparts)
    out = []
    for a in range(0, len(wanted), step):
        grp = wanted[a:a + step]
        out.append((path, starts[grp[0]], starts[grp[-1] + 1]))
    return out


def features(m):
    """Input features used for the non-triviality rule (no expected value involved)."""
    aids = [nd['aid'] if nd['aid'] != NOAID else 1 << 30 for nd in m['nodes']]
    keys = [nd['key'] for nd in m['nodes']]
    feats = set()
    if aids != sorted(aids):
        feats.add('atomid-order-differs-from-node-order')
    if keys != sorted(keys):
        feats.add('key-order-differs-from-node-order')
    if len(set(aids)) < len(aids) and len(aids) > 1:
        feats.add('tied-or-missing-atomids')
    by_type = {}
    for x in m['inter']:
        by_type.setdefault(x['type'], set()).add((json.dumps(x['g']), x['grp']))
    if any(len(v) >= 2 for v in by_type.values()):
        feats.add('several-guard-groups-in-a-section')
    if len(by_type) >= 2:
        feats.add('several-sections')
    if 'impropers' in by_type or 'virtual_sitesn' in by_type:
        feats.add('renamed-or-special-section')
    return feats


def nontrivial(m):
    return bool(m['inter']) and len(features(m)) >= 2


def _hash(case):
    return hashlib.sha1(json.dumps(common.jsonable(case), sort_keys=True).encode()).hexdigest()[:16]


def _replay_range(job):
    path, lo, hi, family = job
    with open(path, 'rb') as fh:
        fh.seek(lo)
        text = fh.read(hi - lo).decode()
    out = {'n': 0, 'bad': [], 'deviant': [], 'nontrivial': set(), 'sample': None, 'verdicts': {}}
    for body in re.split(r'^State \d+:.*$', text, flags=re.M):
        if 'done |-> TRUE' not in body:
            continue
        st = tlaval.parse_state_body(body)
        m = norm(st['mol'])
        exp_recs = norm(st['out']['recs'])
        verdict = st['out']['verdict']
        try:
            text_real, parsed = write_and_read(build_molecule(m))
            recs = parsed['records']
        except Exception as exc:     # the real writer must not fail on a well-formed molecule
            out['bad'].append({'family': family, 'mol': m, 'why': 'writer-raised', 'detail': repr(exc)})
            out['n'] += 1
            continue
        out['n'] += 1
        out['verdicts'][verdict] = out['verdicts'].get(verdict, 0) + 1
        if recs == exp_recs:
            if verdict != 'ok':
                out['bad'].append({'family': family, 'mol': m, 'why': verdict, 'text': text_real})
        else:
            out['deviant'].append({'family': family, 'mol': m, 'recs': recs, 'text': text_real, 'model_recs': exp_recs})
        if nontrivial(m):
            out['nontrivial'].add(_hash(m))
        if out['sample'] is None and len(m['inter']) >= 2 and nontrivial(m):
            out['sample'] = {'kind': 'TAB state replayed (family %s)' % family, 'mol': m, 'tlc_records': exp_recs,
                             'tlc_verdict': verdict, 'real_text': text_real}
    return out


def size_of(m):
    return (len(m['nodes']), len(m['inter']), json.dumps(m, sort_keys=True))


def run_family(name, fam, ev, vd, pool, deviants):
    res = tlc.run('ItpWrite', CFG, consts=consts_of(fam), dump=True, timeout=2400)
    if res.violated:
        raise tlc.MachineryError('ItpWrite (family %s) violates %s' % (name, res.violated))
    if res.distinct < 4 or res.distinct % 2:
        raise tlc.MachineryError('vacuous / odd TAB model for family %s: %d states' % (name, res.distinct))
    ev.add_tlc('TAB ItpWrite family=%s' % name, res)
    jobs = [(p, lo, hi, name) for p, lo, hi in _dump_ranges(res.dump_path, tlc.NCPU * 4)]
    outs = pool.map(_replay_range, jobs)
    n = sum(o['n'] for o in outs)
    if n * 2 != res.distinct:
        raise tlc.MachineryError('family %s: replayed %d molecules, TLC has %d states' % (name, n, res.distinct))
    ev.traces += n
    ev.evaluations += n
    bad = sorted((b for o in outs for b in o['bad']), key=lambda b: size_of(b['mol']))
    verdicts = {}
    for o in outs:
        ev.nontrivial.update(o['nontrivial'])
        deviants.extend(o['deviant'])
        for k, v in o['verdicts'].items():
            verdicts[k] = verdicts.get(k, 0) + v
    # bad is sorted by size: the smallest failing molecules of the exhaustive domain are the minimal scenarios;
    # at most two per verdict are written out, the number of further ones is put in the detail
    per_why = {}
    for b in bad:
        per_why.setdefault(b['why'], []).append(b)
    for why, lst in per_why.items():
        for b in lst[:2]:
            vd.violation('roundtrip' if why != 'writer-raised' else 'writer-raised', b,
                         'family %s: TLC verdict on the records of the real text: %s %s (%d molecules of this family with '
                         'this verdict)' % (name, why, b.get('detail', ''), len(lst)))
    smp = next((o['sample'] for o in outs if o['sample']), None)
    if smp and name in ('renumber', 'guards'):
        ev.sample(smp, limit=4)
    ev.extra.setdefault('families', {})[name] = {'molecules': n, 'tlc_verdicts': verdicts,
                                                 'mismatching_tlc_write': sum(len(o['deviant']) for o in outs)}
    if name == 'd11' and verdicts.get('mass-in-charge-column', 0) == 0:
        raise tlc.MachineryError('d11 family does not exercise the mass-without-charge case')
    return n


# ----------------------------------------------------------------------------------------------------------------
# code -> spec (a): random editing histories on real Molecule objects

ARITY = {'bonds': 2, 'constraints': 2, 'pairs': 2, 'angles': 3, 'dihedrals': 4, 'impropers': 4, 'virtual_sites2': 3,
         'virtual_sites3': 4, 'position_restraints': 1, 'settles': 1, 'cmap': 5}
CHARGES = [0.0, 1.0, -1.0, 0.5, -0.25, 0.123, 0]
MASSES = [72.0, 36.0, 54.0, 45.5, 72]
MACROS = ['FLEXIBLE', 'POSRES', 'A', 'B']
GROUPS = [None, None, 'g', 'Backbone bonds', 'Side chain bonds']
COMMENTS = [None, None, 'BB-SC1', 'note 1', 'x']
PARAMS = ['1', '2', '0.47', '3800', '120', 'POSRES_FC', 0.35, 1250, 1, 2.5e-3, 0, 0.0, '0', -1.5]


def _rand_interactions(rng, mol, keys, count):
    for _ in range(count):
        kind = rng.choice(list(ARITY) + ['exclusions', 'virtual_sitesn', 'bonds', 'angles', 'dihedrals', 'impropers'])
        if kind == 'exclusions':
            n, params = rng.randint(2, 4), []
        elif kind == 'virtual_sitesn':
            n, params = rng.randint(2, 5), [rng.choice(['1', '2', 1])]
        else:
            n, params = ARITY[kind], [rng.choice(PARAMS) for _ in range(rng.randint(1, 4))]
        if len(keys) < n:
            continue
        atoms = rng.sample(keys, n)
        meta = {}
        r = rng.random()
        if r < 0.2:
            meta['ifdef'] = rng.choice(MACROS)
        elif r < 0.35:
            meta['ifndef'] = rng.choice(MACROS)
        grp = rng.choice(GROUPS)
        if grp is not None:
            meta['group'] = grp
        com = rng.choice(COMMENTS)
        if com is not None:
            meta['comment'] = com
        if rng.random() < 0.3:
            meta['version'] = rng.randint(0, 2)
        mol.add_interaction(kind, atoms, params, meta)


def _rand_part(rng, tag):
    from vermouth.molecule import Molecule
    mol = Molecule(nrexcl=1)
    n = rng.randint(1, 6)
    keys = rng.sample(range(0, 40), n)
    style = rng.choice(['none', 'seq', 'perm', 'partial', 'ties'])
    ids = list(range(1, n + 1))
    if style in ('perm', 'partial'):
        rng.shuffle(ids)
    cm = rng.choice(['cm', 'c-', '--', 'mix'])
    for i, k in enumerate(keys):
        attrs = {'atype': rng.choice(['P1', 'SC2', 'Q5', 'TC3', 'N4a']), 'resid': rng.choice([1, 2, 12, 105]),
                 'resname': rng.choice(['ALA', 'LYS', 'W']), 'atomname': '%s%d' % (tag, i),
                 'charge_group': rng.randint(1, 30)}
        how = cm if cm != 'mix' else rng.choice(['cm', 'c-', '--'])
        if how[0] == 'c':
            attrs['charge'] = rng.choice(CHARGES)
        if how == 'cm':
            attrs['mass'] = rng.choice(MASSES)
        if style in ('seq', 'perm') or (style == 'partial' and rng.random() < 0.6):
            attrs['atomid'] = ids[i]
        elif style == 'ties':
            attrs['atomid'] = rng.choice([1, 2])
        mol.add_node(k, **attrs)
    _rand_interactions(rng, mol, keys, rng.randint(0, 5))
    return mol


def random_history(rng):
    """A real Molecule after merge_molecule / remove_node / add_node editing; returns (molecule, list of operations)."""
    ops = []
    mol = _rand_part(rng, 'A')
    ops.append('part A: %d atoms' % len(mol))
    for tag in 'BC'[:rng.randint(0, 2)]:
        part = _rand_part(rng, tag)
        mol.merge_molecule(part)
        ops.append('merge part %s: %d atoms' % (tag, len(part)))
    for _ in range(rng.randint(0, 3)):
        if len(mol) > 1:
            k = rng.choice(list(mol.nodes))
            mol.remove_node(k)
            ops.append('remove_node(%d)' % k)
    if rng.random() < 0.4:
        k = max(mol.nodes) + rng.randint(1, 9)
        mol.add_node(k, atype='P1', resid=3, resname='GLY', atomname='NEW', charge_group=1, charge=0.0)
        ops.append('add_node(%d)' % k)
    _rand_interactions(rng, mol, list(mol.nodes), rng.randint(0, 4))
    return mol, ops


def _history_chunk(args):
    n, seed = args
    rng = random.Random(seed)
    out = []
    for _ in range(n):
        mol, ops = random_history(rng)
        out.append(event_of(mol, {'source': 'editing history', 'ops': ops}))
    return out


def event_of(mol, origin):
    m = project(mol)
    try:
        text, parsed = write_and_read(mol)
        recs = parsed['records']
        err = ''
    except Exception as exc:
        text, recs, err = '', [], repr(exc)
    return {'mol': m, 'recs': recs, 'text': text, 'origin': origin, 'err': err}


# ----------------------------------------------------------------------------------------------------------------
# code -> spec (b): molecules of the real pipeline

CLI_JOBS = {
    'quick': [('PS', ['-ff', 'martini3001', '-nt', '-noscfix', '-p', 'backbone', '-sep']),
              ('W', ['-ff', 'martini22', '-elastic', '-noscfix'])],
    'thorough': [('PS', ['-ff', 'martini3001', '-nt', '-noscfix', '-p', 'backbone', '-sep']),
                 ('W', ['-ff', 'martini22', '-elastic', '-noscfix']),
                 ('H', ['-ff', 'martini3001', '-p', 'all', '-ss', 'H']),
                 ('S', ['-ff', 'elnedyn22', '-noscfix']),
                 ('SW', ['-ff', 'martini3001', '-merge', 'all', '-elastic', '-p', 'backbone']),
                 ('W', ['-ff', 'martini3001', '-go', '-go-eps', '9.4', '-noscfix']),
                 ('UP', ['-ff', 'martini3001', '-elastic', '-p', 'backbone', '-sep']),
                 ('PSP', ['-ff', 'martini22', '-cys', 'auto', '-noscfix', '-maxwarn', '100'])],
}


def _pipeline_job(job):
    from . import cli_c03
    chains, options, seed = job
    rng = random.Random(seed)

    def on_system(system):
        evs = []
        for mi, mol in enumerate(system.molecules):
            origin = {'source': 'martinize2 ' + ' '.join(options), 'chains': chains, 'molecule': mi}
            evs.append(event_of(mol, origin))
            # the same molecule after losing atoms and with stale / shuffled atom ids (what repair and merging leave)
            for variant in range(2):
                cp = mol.copy()
                keys = list(cp.nodes)
                for k in rng.sample(keys, min(len(keys) - 1, rng.randint(1, 4))):
                    cp.remove_node(k)
                keys = list(cp.nodes)
                ids = list(range(1, len(keys) + 1))
                rng.shuffle(ids)
                for k, i in zip(keys, ids):
                    if variant == 0 or rng.random() < 0.5:
                        cp.nodes[k]['atomid'] = i
                    else:
                        cp.nodes[k].pop('atomid', None)
                evs.append(event_of(cp, dict(origin, edited='removed atoms, atom ids %s'
                                             % ('shuffled' if variant == 0 else 'partly missing'))))
        return evs

    r = cli_c03.run_cli(chains, options, on_system)
    if r['rc'] != 0 or r['captured'] is None:
        return {'error': 'martinize2 %s on %s: rc=%s\n%s' % (r['argv'], chains, r['rc'], r['log'][-800:])}
    return {'events': r['captured']}


# ----------------------------------------------------------------------------------------------------------------
# TRACE judge

def _judge(shard):
    work = tlc.scratch('c02j_')
    tf = tlc.write_json(work, 'trace.json', [{'mol': e['mol'], 'recs': e['recs']} for e in shard])
    res = tlc.run('Trace_ItpWrite', 'SPECIFICATION Spec\n', dump=True, env={'TRACE_FILE': tf}, workdir=work, workers=2,
                  timeout=2400)
    if res.violated:
        raise tlc.MachineryError('Trace_ItpWrite violated %s' % res.violated)
    verdicts = {st['tid']: st['verdict'] for st in res.states() if st['verdict'] != 'pending'}
    return res.distinct, res.generated, res.wall, verdicts


def judge_events(events, pool=None):
    """TLC verdict for every event (list of strings, same order)."""
    if not events:
        return [], (0, 0, 0.0)
    nshards = max(1, min(8, len(events) // 40))
    shards = common.chunks(events, nshards)
    if pool is None:
        with mp.Pool(len(shards)) as p:
            res = p.map(_judge, shards)
    else:
        res = pool.map(_judge, shards)
    verdicts, dist, gen, wall = [], 0, 0, 0.0
    for shard, (d, g, w, vs) in zip(shards, res):
        dist, gen, wall = dist + d, gen + g, max(wall, w)
        if len(vs) != len(shard):
            raise tlc.MachineryError('trace verdicts missing: %d of %d' % (len(vs), len(shard)))
        verdicts += [vs[i] for i in range(1, len(shard) + 1)]
    return verdicts, (dist, gen, wall)


def drop_node(m, i):
    key = m['nodes'][i]['key']
    return {'nodes': m['nodes'][:i] + m['nodes'][i + 1:], 'inter': [x for x in m['inter'] if key not in x['at']]}


def minimise(m, why, rounds=10):
    """Greedy shrinking: drop one atom (with its interactions) or one interaction while TLC still gives the same
    verdict on what the real writer produces for the smaller molecule."""
    for _ in range(rounds):
        cands = [drop_node(m, i) for i in range(len(m['nodes'])) if len(m['nodes']) > 1]
        cands += [{'nodes': m['nodes'], 'inter': m['inter'][:i] + m['inter'][i + 1:]} for i in range(len(m['inter']))]
        events = []
        for c in cands:
            try:
                events.append(event_of(build_molecule(c), {'source': 'shrink'}))
                events[-1]['mol'] = c
            except Exception:
                pass
        if not events:
            break
        verdicts, _ = judge_events(events)
        keep = [e for e, v in zip(events, verdicts) if v == why]
        if not keep:
            break
        m = min((e['mol'] for e in keep), key=size_of)
    return m


def report_trace_violations(failed, vd, label, shrink=True):
    """failed: list of (event, verdict).  Per verdict the two smallest scenarios are written out; with `shrink` the
    smallest one of each verdict is first minimised (the TAB domain is exhaustive, its smallest failing member is
    already minimal)."""
    per_why = {}
    for e, v in sorted(failed, key=lambda ev_v: size_of(ev_v[0]['mol'])):
        per_why.setdefault(v, []).append(e)
    for n, (v, lst) in enumerate(per_why.items()):
        for k, e in enumerate(lst[:2]):
            m = e['mol']
            if shrink and k == 0 and n < 3 and not e.get('err'):
                try:
                    m = minimise(m, v, rounds=8)
                except tlc.MachineryError:
                    pass
            sc = {'mol': m, 'why': v, 'origin': e.get('origin', e.get('family')),
                  'original_size': [len(e['mol']['nodes']), len(e['mol']['inter'])]}
            more = '(%d recorded runs with this verdict)' % len(lst)
            if e.get('err'):
                vd.violation('writer-raised', dict(sc, detail=e['err']), '%s: real writer raised %s %s' % (label, e['err'], more))
            else:
                vd.violation('roundtrip', sc, '%s: TLC verdict on the records of the real text: %s %s' % (label, v, more))


# ----------------------------------------------------------------------------------------------------------------

def run(tier, seed, ev, vd):
    quick = tier == 'quick'
    ev.rule = ('TAB: every molecule of four bounded families (renumbering: all node orders x atom-id assignments incl. '
               'missing and tied; guards/groups in one section; section mix incl. impropers, virtual_sitesn, exclusions; '
               'd11: mass without charge). TRACE: molecules left by random editing histories and by the real martinize2 '
               'pipeline (also after deleting atoms / shuffling atom ids). Non-trivial = molecule with >=1 interaction and '
               '>=2 of {atom-id order != node order, key order != node order, tied or missing atom ids, >=2 guard groups in a '
               'section, >=2 sections, impropers or virtual_sitesn}; distinct by abstract molecule.')
    ev.assumptions = [
        'TLC evaluates the TLA+ operators correctly; harness/indep_readers.py tokenises the text as the GROMACS manual '
        'describes (atoms / parameters split by the directive arity, virtual_sitesn = site, function type, atoms)',
        'attribute values are opaque tokens str(value); numeric formatting is compared as text (DESIGN limit)',
        'not generated: ifdef and ifndef on one interaction (ValueError by contract), comments with newlines, tokens '
        'with blanks or ";", virtual_sitesn without exactly one parameter, exclusions with parameters, pre/post '
        'section lines',
        'atoms with a mass and without a charge are generated only in family d11 (candidate defect D11)',
    ]
    fams = families(tier)
    deviants = []
    with mp.Pool(tlc.NCPU) as pool:
        for name, fam in fams.items():
            run_family(name, fam, ev, vd, pool, deviants)
        ev.exhaustive = True

        # records that differ from TLC's Write(mol): TLC judges the real records
        ev.extra['write_model_deviations'] = 0
        if deviants:
            deviants.sort(key=lambda d: size_of(d['mol']))
            if len(deviants) > 12000:       # the 6000 smallest and a seeded sample of the rest
                rest = deviants[6000:]
                random.Random(seed).shuffle(rest)
                deviants = deviants[:6000] + rest[:6000]
            verdicts, (d, g, w) = judge_events(deviants, pool)
            failed = []
            for e, v in zip(deviants, verdicts):
                if v == 'ok':
                    ev.extra['write_model_deviations'] += 1
                else:
                    failed.append((e, v))
            if ev.extra['write_model_deviations']:
                print('NOTE property=C02 %d texts round-trip but are not what ItpWrite!Write produces (model of the '
                      'algorithm out of date), first: %s' % (ev.extra['write_model_deviations'],
                                                             json.dumps(deviants[0]['mol'])[:300]))
            report_trace_violations(failed, vd, 'TAB replay', shrink=False)

        # code -> spec
        nhist = 1600 if quick else 24000
        parts = pool.map(_history_chunk, [(nhist // (tlc.NCPU * 2), seed * 7907 + i) for i in range(tlc.NCPU * 2)])
    events = [e for p in parts for e in p]
    jobs = [(c, o, seed * 31 + i) for i, (c, o) in enumerate(CLI_JOBS[tier])]
    with mp.Pool(min(len(jobs), tlc.NCPU), maxtasksperchild=1) as pool:
        cli_out = pool.map(_pipeline_job, jobs, chunksize=1)
    npipe = 0
    for o in cli_out:
        if 'error' in o:
            raise tlc.MachineryError('pipeline run failed: ' + o['error'])
        events += o['events']
        npipe += len(o['events'])
    skipped = [e for e in events if not in_scope(e['mol'])]
    events = [e for e in events if in_scope(e['mol'])]
    ev.extra['trace_events'] = {'editing_histories': len(parts) and sum(len(p) for p in parts),
                                'pipeline_molecules': npipe, 'out_of_scope_skipped': len(skipped)}
    errs = [(e, 'writer-raised') for e in events if e['err']]
    events = [e for e in events if not e['err']]
    verdicts, (d, g, w) = judge_events(events)
    ev.states += d
    ev.transitions += g
    ev.tlc_runs.append({'run': 'TRACE Trace_ItpWrite', 'events': len(events), 'distinct_states': d, 'states_generated': g,
                        'wall_s': round(w, 2)})
    failed = list(errs)
    for e, v in zip(events, verdicts):
        ev.traces += 1
        ev.evaluations += 1
        if v != 'ok':
            failed.append((e, v))
        if nontrivial(e['mol']):
            ev.nontrivial.add(_hash(e['mol']))
    report_trace_violations(failed, vd, 'recorded run')
    big = max(events, key=lambda e: len(e['recs']))
    si = next((i for i, e in enumerate(events) if nontrivial(e['mol']) and len(e['mol']['nodes']) <= 6), 0)
    ev.sample({'kind': 'recorded run judged by TLC', 'origin': events[si]['origin'], 'mol': events[si]['mol'],
               'records': events[si]['recs'], 'verdict': verdicts[si]}, limit=5)
    ev.extra['largest_trace'] = {'origin': big['origin'], 'atoms': len(big['mol']['nodes']),
                                 'interactions': len(big['mol']['inter']), 'records': len(big['recs'])}


def replay(sc):
    m = sc['mol']
    mol = build_molecule(m)
    e = event_of(mol, {'source': 'replay'})
    e['mol'] = m
    print('abstract molecule:', json.dumps(m))
    print('text written by the real write_molecule_itp:\n' + e['text'])
    verdicts, _ = judge_events([e])
    print('TLC verdict (ItpWrite!Judge) on the records read back:', verdicts[0], ' recorded:', sc.get('why'))
    return 0 if verdicts[0] == 'ok' else 1


def selftest(seed):
    """Binding demonstration: (1) tampered recorded records must be rejected by the TLC judge with the right clause,
    untouched ones accepted; (2) a flipped expected record in a TAB row must be seen by the replay comparison."""
    batch = _history_chunk((400, seed))
    batch = [e for e in batch if in_scope(e['mol']) and not e['err'] and len(e['mol']['nodes']) >= 2
             and any(len(x['at']) >= 2 and len(set(x['at'])) > 1 for x in e['mol']['inter'])][:12]
    assert len(batch) == 12
    expect = {}
    # 1: an interaction attached to a different atom
    e = batch[1]
    i = next(i for i, r in enumerate(e['recs']) if r['k'] == 'inter' and len(set(r['a'])) >= 2)
    a = e['recs'][i]['a']
    other = next(x for x in range(1, len(e['mol']['nodes']) + 2) if x not in a)
    e['recs'][i] = dict(e['recs'][i], a=[other] + a[1:])
    expect[2] = {'interaction-attached-to-different-atoms', 'interaction-section-or-parameters-differ'}
    # 4: an atom line dropped
    e = batch[4]
    i = next(i for i, r in enumerate(e['recs']) if r['k'] == 'atom')
    del e['recs'][i]
    expect[5] = {'atom-dropped-or-duplicated'}
    # 7: an #endif dropped, or (no guard in that text) an interaction duplicated
    e = batch[7]
    idx = [i for i, r in enumerate(e['recs']) if r['k'] == 'endif']
    if idx:
        del e['recs'][idx[0]]
        expect[8] = {'unbalanced-guard-or-unreadable-line', 'interaction-under-wrong-guard'}
    else:
        i = next(i for i, r in enumerate(e['recs']) if r['k'] == 'inter')
        e['recs'].insert(i, e['recs'][i])
        expect[8] = {'interaction-dropped-or-duplicated'}
    # 10: a parameter changed
    e = batch[10]
    i = next(i for i, r in enumerate(e['recs']) if r['k'] == 'atom')
    e['recs'][i] = dict(e['recs'][i], p=e['recs'][i]['p'][:3] + ['XX'] + e['recs'][i]['p'][4:])
    expect[11] = {'atom-fields-differ'}
    verdicts, _ = judge_events(batch)
    for i, v in enumerate(verdicts, 1):
        if i in expect:
            assert v in expect[i], (i, v, expect[i])
        else:
            assert v == 'ok', (i, v)
    print('selftest C02 (TRACE): tampered events rejected: %s; the other %d accepted' % (
        {i: verdicts[i - 1] for i in sorted(expect)}, len(batch) - len(expect)))
    # TAB binding: corrupt TLC's expected records of one row -> the replay must notice the difference
    fam = families('quick')['d11']
    res = tlc.run('ItpWrite', CFG, consts=consts_of(fam), dump=True)
    rows = [st for st in res.states() if st['out']['done']]
    st = rows[0]
    m = norm(st['mol'])
    _text, parsed = write_and_read(build_molecule(m))
    same = parsed['records'] == norm(st['out']['recs'])
    tampered = norm(st['out']['recs'])
    tampered[1]['a'] = [tampered[1]['a'][0] + 1]
    assert same and parsed['records'] != tampered
    print('selftest C02 (TAB): real records equal TLC Write(mol) for %s; after flipping one expected index they differ; '
          'TLC verdict for that row: %s' % (json.dumps(m['nodes']), st['out']['verdict']))
    return 0
