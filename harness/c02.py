"""C02 - a written ITP states exactly the molecule held in memory.

spec/ItpText.tla         abstract records of the text, reader semantics of the FORMAT (ReadStep / ReadMol), prologue of
                         guarded #defines
spec/ItpWrite.tla        Write (operational, shaped like write_molecule_itp), Canon (declarative), Judge / JudgeFile (total
                         verdict), Repeatable; TAB model over the input families                                     (TAB)
spec/ItpAgree.tla        the second consumer of the format, the repository's own reader read_itp: both readings of one
                         text as ONE abstract description, Agree, the named exclusions, BlockOf (operational model)
spec/Trace_ItpWrite.tla  TLC judges recorded (molecule in memory, both readings of the written text) events      (TRACE)
harness/indep_readers.py independent ITP reader (text -> abstract records), shares no code with vermouth
harness/c02_real.py      generic projection of live Molecules, the two readings, the interposed pipeline runs

spec -> code: every molecule of the TAB domain is built as a real vermouth Molecule, written with the real
write_molecule_itp, the text parsed by the independent reader AND by vermouth's read_itp.  If the records equal TLC's
Write(mol) the verdict is the one TLC computed for them (Judge(mol, Write(mol))), and the projected Block must equal
TLC's ReaderBlock(Write(mol)); whatever differs goes to the TRACE judge and TLC decides on ReadMol(real records) =
Canon(mol) and on Agree(independent reading, Block); a difference that still passes is only counted
(`write_model_deviations`: the text is right, the model of the algorithm is not the code's any more).
code -> spec, every event judged by TLC on three counts (write / agree / pure):
 (a) HISTORY family: molecules left behind by random editing histories on real Molecule objects (merge_molecule of
     parts with guarded interactions, remove_node of atoms with interactions, add_node, add_interaction; sparse keys,
     stale / duplicated / gapped / partial atom ids), written after EVERY step of some histories; histories on
     molecules whose node keys are strings, tuples or a mix (no merge: merge_molecule is defined for integer keys);
 (b) REAL MOLECULES family: the real martinize2 entry() in-process on the tier-0 structures with martini3001,
     martini22, martini22p, elnedyn22(p), -elastic, -p backbone, -go with a contact file, -scfix / -noscfix ...;
     vermouth.gmx.itp.write_molecule_itp is interposed, the LIVE molecule of every call is projected just before the
     real writer runs and the text the real writer produces for that call (header, moltype of the call) is judged;
     the file left on disk must be that text; plus the same molecules after deleting atoms / shuffling atom ids.
 (c) every event also carries the projection of the molecule AFTER writing and the records of a second write
     (Repeatable).

Family `d11` (atoms with a mass and without a charge, the only inputs on which D11 can show) is generated separately;
everything else never contains such an atom.  Family `vs1` ([ virtual_sites1 ]: read_itp took ONE atom column where
the GROMACS manual has two - found by the agreement judge, fixed in /repo 3ef2780, D26) keeps that section covered."""
import ast
import hashlib
import itertools
import json
import multiprocessing as mp
import random
import re
import shutil

from . import common, tlc, tlaval
from . import indep_readers
from . import c02_real as R
from .c02_real import project, in_scope, event_of, write_text          # noqa: F401 (re-exported: harness/c03.py uses write_text)

PID = 'C02'
T = tlaval.to_tla
NOAID = -1

SIGNATURES = {
    # D11: atom with a mass and without a charge -> the mass is written where a reader finds the charge
    'D11': lambda kind, sc: (kind == 'roundtrip' and sc.get('why') == 'mass-in-charge-column'
                             and any(n['f'][5] == '' and n['f'][6] != '' for n in sc['mol']['nodes'])),
}
# findings of this driver that wait for the lead's decision (id -> text): while known_findings.json has no entry (known or
# fixed) with the id, a scenario matching SIGNATURES[id] is printed as a NOTE and counted in the evidence, not as a violation
PENDING = {}

CFG = ("SPECIFICATION Spec\nINVARIANT RoundTrip\nINVARIANT OnlyD11\nINVARIANT VerdictIsRound\nINVARIANT Numbered\n"
       "INVARIANT NothingLost\nINVARIANT GuardsBalanced\nINVARIANT ReaderModelAgrees\nINVARIANT ReaderStatesMolecule\n")

# key -> <<atype, resid, resname, atomname, charge_group, charge, mass>>: distinct per key (a field landing on another
# atom is visible), different widths (column alignment), str(float(token)) == token
ATOMTAB = {2: ("P1", "1", "ALA", "BB", "1", "0.5", "72.0"), 5: ("SC2", "1", "ALA", "SC1", "2", "-1.0", "36.0"),
           9: ("Q5", "12", "LYS", "BB", "3", "1.0", "45.5"), 11: ("TC3", "12", "LYS", "SC2", "14", "0.0", "54.0")}
CM = {'cm': {'c': True, 'm': True}, 'c-': {'c': True, 'm': False}, '--': {'c': False, 'm': False},
      '-m': {'c': False, 'm': True}}
IFA = ({'kind': 'ifdef', 'name': 'A'},)
NFA = ({'kind': 'ifndef', 'name': 'A'},)
IFB = ({'kind': 'ifdef', 'name': 'B'},)


def tmpl(type_, at, p, g=(), grp='', com=''):
    return {'type': type_, 'at': tuple(at), 'p': tuple(p), 'g': tuple(g), 'grp': grp, 'com': com}


def tla_set(items):
    return '{' + ', '.join(T(x) for x in items) + '}'


def atomtab_tla():
    return '(' + ' @@ '.join('%d :> %s' % (k, T(v)) for k, v in ATOMTAB.items()) + ')'


def perms(keys):
    return list(itertools.permutations(keys))


def families(tier):
    """name -> constants of one TAB run."""
    quick = tier == 'quick'
    fam = {}
    # F1 renumbering: every node order x every atom-id assignment (none, partial, ties, permutations) x charge/mass
    pool1 = [tmpl('bonds', (2, 1), ('1', '0.47', '3800')), tmpl('angles', (2, 3, 1), ('2', '120', '50'), com='c1'),
             tmpl('virtual_sitesn', (3, 1, 2), ('1',))]
    fam['renumber'] = dict(KeySeqs=[(9,)] + perms((9, 2)) + perms((5, 2, 11)), AidVals=[NOAID, 1, 2, 7],
                           CMPats=[(CM['cm'],), (CM['--'], CM['c-'], CM['cm'])], Pool=pool1, MaxInter=2)
    if not quick:
        pool1b = pool1 + [tmpl('dihedrals', (4, 2, 1, 3), ('1', '180', '10', '2'), g=IFA)]
        fam['renumber4'] = dict(KeySeqs=perms((9, 2, 11, 5)), AidVals=[NOAID, 1, 2, 3],
                                CMPats=[(CM['c-'], CM['cm'], CM['--'])], Pool=pool1b, MaxInter=2)
    # F2 guards and groups inside one section
    pool2 = []
    for gi, g in enumerate([(), IFA, NFA, IFB]):
        for grp in ('', 'g'):
            pool2.append(tmpl('bonds', (1, 2) if grp == '' else (3, 1), ('1', '0.3%d' % gi, '1250'), g=g, grp=grp,
                              com='' if gi % 2 else 'note'))
    if not quick:
        pool2 += [tmpl('bonds', (2, 3), ('1', '0.5', '900'), g=g, grp=grp) for g in [(), IFA, NFA] for grp in ('', 'h')]
    fam['guards'] = dict(KeySeqs=[(11, 2, 5)] if quick else [(11, 2, 5), (2, 5, 11)], AidVals=[NOAID, 1],
                         CMPats=[(CM['cm'],)], Pool=pool2, MaxInter=3)
    # F3 sections: ordering by (arity, name), impropers under dihedrals, virtual_sitesn, exclusions of varying arity
    pool3 = [tmpl('bonds', (1, 2), ('1', '0.47', '3800')), tmpl('constraints', (4, 2), ('1', '0.31')),
             tmpl('angles', (1, 2, 3), ('2', '120', '50')),
             tmpl('dihedrals', (1, 2, 3, 4), ('1', '180', '10', '2')), tmpl('dihedrals', (4, 3, 2, 1), ('9', '0', '5', '1'), g=IFA),
             tmpl('impropers', (2, 1, 3, 4), ('2', '0', '100')), tmpl('impropers', (3, 4, 1, 2), ('2', '35', '60'), g=IFA),
             tmpl('virtual_sitesn', (1, 2, 3), ('1',)), tmpl('virtual_sitesn', (4, 3, 1, 2), ('2',), com='cog'),
             tmpl('exclusions', (1, 2), ()), tmpl('exclusions', (2, 1, 3, 4), ()),
             tmpl('position_restraints', (3,), ('1', 'FC', 'FC', 'FC'), g=({'kind': 'ifdef', 'name': 'POSRES'},))]
    fam['sections'] = dict(KeySeqs=[(9, 2, 11, 5)], AidVals=[NOAID, 3], CMPats=[(CM['cm'],)],
                           Pool=pool3, MaxInter=2 if quick else 3)
    # D11 family, kept apart: atoms with a mass and without a charge
    fam['d11'] = dict(KeySeqs=[(9,), (5, 2)], AidVals=[NOAID, 1], CMPats=[(CM['-m'],), (CM['cm'], CM['-m'])],
                      Pool=[tmpl('bonds', (2, 1), ('1', '0.47', '3800'))], MaxInter=1)
    # the one-atom virtual site (GROMACS: site, constructing atom, function type); read_itp once took one atom column (D26)
    fam['vs1'] = dict(KeySeqs=[(5, 2), (9, 2, 11)], AidVals=[NOAID, 1], CMPats=[(CM['cm'],)],
                      Pool=[tmpl('virtual_sites1', (2, 1), ('1',)), tmpl('bonds', (1, 2), ('1', '0.47', '3800'))], MaxInter=2)
    return fam


def token_tables():
    """token -> number tables of the TAB model, made from ATOMTAB by the same exact conversion the harness applies to a
    real text (integers; decimals in units of 10^-6)."""
    ints, decs = {}, {}
    for f in ATOMTAB.values():
        for t in (f[1], f[4]):
            ints[t] = R._int_tok(t)
        for t in (f[5], f[6]):
            decs[t] = R._dec(t)['v']
    return ints, decs


def consts_of(f):
    ints, decs = token_tables()
    return {'KeySeqs': tla_set(f['KeySeqs']), 'AidVals': tla_set(f['AidVals']), 'AtomTab': atomtab_tla(),
            'CMPats': tla_set(f['CMPats']), 'Pool': tla_set(f['Pool']), 'MaxInter': str(f['MaxInter']),
            'TokInt': T(ints), 'TokDec': T(decs)}


# ----------------------------------------------------------------------------------------------------------------
# abstract molecule <-> real Molecule, real writer, independent reader

def norm(v):
    """TLC value (tuples / dicts) -> plain JSON-able lists / dicts."""
    if isinstance(v, dict):
        return {str(k): norm(x) for k, x in v.items()}
    if isinstance(v, (tuple, list)):
        return [norm(x) for x in v]
    return v


def _typed(token, conv):
    """Real attribute value for a token: the typed value when it prints back as the token, else the token itself."""
    if token == '':
        return None
    try:
        v = conv(token)
    except ValueError:
        return token
    return v if str(v) == token else token


def real_key(k):
    """abstract key -> node key (inverse of c02_real.key_encoder)"""
    return ast.literal_eval(k[2:]) if isinstance(k, str) and k.startswith('k:') else k


def build_molecule(m):
    """Real vermouth Molecule for an abstract molecule (nodes inserted in the given order, interactions added
    through Molecule.add_interaction in the given order)."""
    from vermouth.molecule import Molecule
    mol = Molecule(nrexcl=_typed(m.get('nrexcl', '1'), int))
    if m.get('defs'):
        mol.meta['define'] = {d['name']: ' '.join(d['val']) for d in m['defs']}
    for nd in m['nodes']:
        f = nd['f']
        attrs = {'atype': f[0], 'resid': _typed(f[1], int), 'resname': f[2], 'atomname': f[3],
                 'charge_group': _typed(f[4], int)}
        if f[5] != '':
            attrs['charge'] = _typed(f[5], float)
        if f[6] != '':
            attrs['mass'] = _typed(f[6], float)
        if nd['aid'] != NOAID:
            attrs['atomid'] = nd['aid']
        mol.add_node(real_key(nd['key']), **attrs)
    for x in m['inter']:
        meta = {}
        if x['g']:
            meta[x['g'][0]['kind']] = x['g'][0]['name']
        if x['grp'] != '':
            meta['group'] = x['grp']
        if x['com'] != '':
            meta['comment'] = x['com']
            meta['version'] = 1
        mol.add_interaction(x['type'], tuple(real_key(k) for k in x['at']), list(x['p']), meta)
    return mol


def by_type(m):
    """interactions regrouped the way a Molecule holds them: per type, types in order of first use (the abstract molecule
    lists them in insertion order; only the order within a type and the first of each type mean anything)"""
    types = []
    for x in m['inter']:
        if x['type'] not in types:
            types.append(x['type'])
    return dict(m, inter=[x for t in types for x in m['inter'] if x['type'] == t])


def write_and_read(mol, moltype='verif'):
    """(text written by the REAL writer, parsed ITP of the independent reader) - kept for other drivers"""
    text = write_text(mol, moltype)
    return text, indep_readers.read_itp(text)


def moltype_of(m):
    return m.get('moltype') or 'verif'


# ----------------------------------------------------------------------------------------------------------------
# spec -> code: TAB replay, dump parsed and replayed in parallel

_HDR = re.compile(rb'^State \d+:', re.M)


def _dump_ranges(path, nparts, marker=b'done |-> TRUE'):
    """Byte ranges of the dump that together hold all states containing `marker` (TLC dumps breadth first, so the final
    states sit at the end of the file), balanced by the number of such states."""
    with open(path, 'rb') as fh:
        data = fh.read()
    starts = [mm.start() for mm in _HDR.finditer(data)] + [len(data)]
    wanted = [i for i in range(len(starts) - 1) if data.find(marker, starts[i], starts[i + 1]) >= 0]
    if not wanted:
        return []
    step = max(1, (len(wanted) + nparts - 1) // nparts)
    out = []
    for a in range(0, len(wanted), step):
        grp = wanted[a:a + step]
        out.append((path, starts[grp[0]], starts[grp[-1] + 1]))
    return out


def features(m):
    """Input features used for the non-triviality rule (no expected value involved)."""
    aids = [nd['aid'] if nd['aid'] != NOAID else 1 << 30 for nd in m['nodes']]
    keys = [nd['key'] for nd in m['nodes']]
    feats = set()
    if aids != sorted(aids):
        feats.add('atomid-order-differs-from-node-order')
    if keys != sorted(keys):
        feats.add('key-order-differs-from-node-order')
    if len(set(aids)) < len(aids) and len(aids) > 1:
        feats.add('tied-or-missing-atomids')
    by_type = {}
    for x in m['inter']:
        by_type.setdefault(x['type'], set()).add((json.dumps(x['g']), x['grp']))
    if any(len(v) >= 2 for v in by_type.values()):
        feats.add('several-guard-groups-in-a-section')
    if len(by_type) >= 2:
        feats.add('several-sections')
    if 'impropers' in by_type or 'virtual_sitesn' in by_type:
        feats.add('renamed-or-special-section')
    return feats


def nontrivial(m):
    return bool(m['inter']) and len(features(m)) >= 2


def _hash(case):
    return hashlib.sha1(json.dumps(common.jsonable(case), sort_keys=True).encode()).hexdigest()[:16]


def _replay_range(job):
    path, lo, hi, family = job
    with open(path, 'rb') as fh:
        fh.seek(lo)
        text = fh.read(hi - lo).decode()
    out = {'n': 0, 'bad': [], 'deviant': [], 'nontrivial': set(), 'sample': None, 'verdicts': {}, 'rd_equal': 0}
    for body in re.split(r'^State \d+:.*$', text, flags=re.M):
        if 'done |-> TRUE' not in body:
            continue
        st = tlaval.parse_state_body(body)
        m = norm(st['mol'])
        m.update(moltype='verif', nrexcl='1', defs=[])
        exp_recs = norm(st['out']['recs'])
        exp_rd = norm(st['out']['rd'])
        verdict = st['out']['verdict']
        e = event_of(build_molecule(m), {'source': 'TAB', 'family': family})
        out['n'] += 1
        if e['err']:                 # the real writer must not fail on a well-formed molecule
            out['bad'].append({'family': family, 'mol': m, 'why': 'writer-raised', 'detail': e['err']})
            continue
        if R.strip_raw(e['mol']) != by_type(m):
            out['bad'].append({'family': family, 'mol': m, 'why': 'harness-error-projection-of-the-built-molecule-differs',
                               'detail': json.dumps(e['mol'])[:300]})
            continue
        out['verdicts'][verdict] = out['verdicts'].get(verdict, 0) + 1
        same_recs = e['file']['recs'] == exp_recs
        same_rd = e['rd'] == exp_rd
        pure = e['again']['mol'] == e['mol'] and e['again']['recs'] == e['file']['recs']
        out['rd_equal'] += same_rd
        if same_recs and same_rd and pure:
            if verdict != 'ok':
                out['bad'].append({'family': family, 'mol': m, 'why': verdict, 'text': e['text']})
        else:
            e['family'] = family
            e['model'] = {'recs': exp_recs if not same_recs else 'same', 'rd': exp_rd if not same_rd else 'same'}
            out['deviant'].append(e)
        if nontrivial(m):
            out['nontrivial'].add(_hash(m))
        if out['sample'] is None and len(m['inter']) >= 2 and nontrivial(m):
            out['sample'] = {'kind': 'TAB state replayed (family %s)' % family, 'mol': m, 'tlc_records': exp_recs,
                             'tlc_verdict': verdict, 'tlc_reader_block': exp_rd, 'real_text': e['text']}
    return out


def size_of(m):
    return (len(m['nodes']), len(m['inter']), json.dumps(m, sort_keys=True))


def _tlc_family(args):
    """TLC on one TAB family (may run in a pool worker: the scratch directory belongs to the parent)."""
    fam, workdir, workers = args
    res = tlc.run('ItpWrite', CFG, consts=consts_of(fam), dump=True, timeout=2400, workdir=workdir, workers=workers)
    res.stdout = ''
    return res


def run_family(name, fam, ev, vd, pool, deviants, res=None):
    if res is None:
        res = _tlc_family((fam, tlc.scratch('c02tab_'), None))
    if res.violated:
        raise tlc.MachineryError('ItpWrite (family %s) violates %s' % (name, res.violated))
    if res.distinct < 4 or res.distinct % 2:
        raise tlc.MachineryError('vacuous / odd TAB model for family %s: %d states' % (name, res.distinct))
    ev.add_tlc('TAB ItpWrite family=%s' % name, res)
    jobs = [(p, lo, hi, name) for p, lo, hi in _dump_ranges(res.dump_path, tlc.NCPU * 4)]
    outs = pool.map(_replay_range, jobs)
    n = sum(o['n'] for o in outs)
    if n * 2 != res.distinct:
        raise tlc.MachineryError('family %s: replayed %d molecules, TLC has %d states' % (name, n, res.distinct))
    ev.traces += n
    ev.evaluations += n
    bad = sorted((b for o in outs for b in o['bad']), key=lambda b: size_of(b['mol']))
    for b in bad:
        if b['why'].startswith('harness-error'):
            raise tlc.MachineryError('family %s: %s %s' % (name, b['why'], b.get('detail', '')))
    verdicts = {}
    for o in outs:
        ev.nontrivial.update(o['nontrivial'])
        deviants.extend(o['deviant'])
        for k, v in o['verdicts'].items():
            verdicts[k] = verdicts.get(k, 0) + v
    # bad is sorted by size: the smallest failing molecules of the exhaustive domain are the minimal scenarios;
    # at most two per verdict are written out, the number of further ones is put in the detail
    per_why = {}
    for b in bad:
        per_why.setdefault(b['why'], []).append(b)
    for why, lst in per_why.items():
        for b in lst[:2]:
            _violation(vd, ev, 'roundtrip' if why != 'writer-raised' else 'writer-raised', b,
                       'family %s: TLC verdict on the records of the real text: %s %s (%d molecules of this family with '
                       'this verdict)' % (name, why, b.get('detail', ''), len(lst)))
    smp = next((o['sample'] for o in outs if o['sample']), None)
    if smp and name in ('renumber', 'guards'):
        ev.sample(smp, limit=4)
    ev.extra.setdefault('families', {})[name] = {'molecules': n, 'tlc_verdicts': verdicts,
                                                 'block_of_read_itp_equals_tlc_ReaderBlock': sum(o['rd_equal'] for o in outs),
                                                 'sent_to_the_trace_judge': sum(len(o['deviant']) for o in outs)}
    if name == 'd11' and verdicts.get('mass-in-charge-column', 0) == 0:
        raise tlc.MachineryError('d11 family does not exercise the mass-without-charge case')
    return n


# ----------------------------------------------------------------------------------------------------------------
# code -> spec (a): random editing histories on real Molecule objects

ARITY = {'bonds': 2, 'constraints': 2, 'pairs': 2, 'angles': 3, 'dihedrals': 4, 'impropers': 4, 'virtual_sites2': 3,
         'virtual_sites3': 4, 'position_restraints': 1, 'settles': 1, 'cmap': 5, 'virtual_sites4': 5, 'pairs_nb': 2,
         'distance_restraints': 2, 'virtual_sites1': 2}
CHARGES = [0.0, 1.0, -1.0, 0.5, -0.25, 0.123, 0, 0.0, 0]
MASSES = [72.0, 36.0, 54.0, 45.5, 72, 0, 0.0]
MACROS = ['FLEXIBLE', 'POSRES', 'A', 'B']
GROUPS = [None, None, 'g', 'Backbone bonds', 'Side chain bonds']
COMMENTS = [None, None, 'BB-SC1', 'note 1', 'x']
PARAMS = ['1', '2', '0.47', '3800', '120', 'POSRES_FC', 0.35, 1250, 1, 2.5e-3, 0, 0.0, '0', -1.5]
STR_KEYS = ['a', 'b', 'BB', 'SC1', 'n 7', '1', 'x;y', 'BB2', '', 'Z']
ID_STYLES = ['none', 'seq', 'perm', 'partial', 'ties', 'gaps', 'from0']


def _np_params(rng, params):
    """some parameters as numpy scalars (what geometry-derived parameters are before they are formatted)"""
    import numpy as np
    out = []
    for p in params:
        if isinstance(p, float) and rng.random() < 0.3:
            p = np.float64(p)
        elif isinstance(p, int) and not isinstance(p, bool) and rng.random() < 0.3:
            p = np.int64(p)
        out.append(p)
    return out


def _rand_interactions(rng, mol, keys, count):
    for _ in range(count):
        kind = rng.choice(list(ARITY) + ['exclusions', 'virtual_sitesn', 'bonds', 'angles', 'dihedrals', 'impropers'] * 2)
        if kind == 'exclusions':
            n, params = rng.randint(2, 6), []
        elif kind == 'virtual_sitesn':
            n, params = rng.randint(2, 5), [rng.choice(['1', '2', 1])]
        else:
            n, params = ARITY[kind], _np_params(rng, [rng.choice(PARAMS) for _ in range(rng.randint(1, 4))])
        if len(keys) < n:
            continue
        atoms = rng.sample(keys, n)
        meta = {}
        r = rng.random()
        if r < 0.2:
            meta['ifdef'] = rng.choice(MACROS)
        elif r < 0.35:
            meta['ifndef'] = rng.choice(MACROS)
        grp = rng.choice(GROUPS)
        if grp is not None:
            meta['group'] = grp
        com = rng.choice(COMMENTS)
        if com is not None:
            meta['comment'] = com
        if rng.random() < 0.3:
            meta['version'] = rng.randint(0, 2)
        mol.add_interaction(kind, atoms, params, meta)


def _atom_attrs(rng, name, cm):
    attrs = {'atype': rng.choice(['P1', 'SC2', 'Q5', 'TC3', 'N4a']), 'resid': rng.choice([0, 1, 2, 12, 105]),
             'resname': rng.choice(['ALA', 'LYS', 'W']), 'atomname': name, 'charge_group': rng.randint(0, 30)}
    how = cm if cm != 'mix' else rng.choice(['cm', 'c-', '--'])
    if how[0] == 'c':
        attrs['charge'] = rng.choice(CHARGES)
    if how == 'cm':
        attrs['mass'] = rng.choice(MASSES)
    return attrs


def _atom_ids(rng, n, style):
    """atom id per position (None = attribute absent)"""
    ids = list(range(1, n + 1))
    if style == 'none':
        return [None] * n
    if style == 'seq':
        return ids
    if style == 'from0':
        return list(range(n))
    if style == 'ties':
        return [rng.choice([1, 2]) for _ in range(n)]
    if style == 'gaps':
        return rng.sample(range(0, 60), n)
    rng.shuffle(ids)
    if style == 'partial':
        return [i if rng.random() < 0.6 else None for i in ids]
    return ids


def _keys(rng, n, kind):
    if kind == 'int':
        return rng.sample(range(0, 40), n)
    if kind == 'str':
        return rng.sample(STR_KEYS, n)
    if kind == 'tuple':
        pool = [(c, r, a) for c in 'AB' for r in (1, 2, 17) for a in ('BB', 'SC1')]
        return rng.sample(pool, n)
    pool = [3, 17, 0, 25] + STR_KEYS[:4] + [('A', 1, 'BB'), ('B', 2), (7,), (3, 'x'), '3', '17', (3,), '(3,)', "'a'"]
    if n >= 2 and rng.random() < 0.5:       # keys that collide under str() / repr()
        pair = list(rng.choice([(3, '3'), (17, '17'), ((3,), '(3,)'), ('a', "'a'")]))
        rest = rng.sample([k for k in pool if k not in pair], n - 2)
        keys = pair + rest
        rng.shuffle(keys)
        return keys
    return rng.sample(pool, n)


def _rand_part(rng, tag, kind='int', nrexcl=None):
    from vermouth.molecule import Molecule
    mol = Molecule(nrexcl=rng.choice([1, 1, 3]) if nrexcl is None else nrexcl)
    n = rng.randint(1, 6)
    keys = _keys(rng, n, kind)
    ids = _atom_ids(rng, n, rng.choice(ID_STYLES))
    cm = rng.choice(['cm', 'c-', '--', 'mix'])
    for i, k in enumerate(keys):
        attrs = _atom_attrs(rng, '%s%d' % (tag, i), cm)
        if ids[i] is not None:
            attrs['atomid'] = ids[i]
        mol.add_node(k, **attrs)
    _rand_interactions(rng, mol, keys, rng.randint(0, 5))
    return mol


def random_history(rng, every_step=False):
    """A real Molecule after merge_molecule / remove_node / add_node / add_interaction editing.  Yields (molecule, list of
    operations so far) at the end, or after every step when `every_step` (the SAME live object is written again and again)."""
    ops = []
    kind = rng.choice(['int', 'int', 'str', 'tuple', 'mixed'])
    mol = _rand_part(rng, 'A', kind)
    ops.append('part A: %d atoms, %s keys' % (len(mol), kind))
    if every_step:
        yield mol, list(ops)
    if kind == 'int':         # merge_molecule is defined for integer keys only
        for tag in 'BC'[:rng.randint(0, 2)]:
            part = _rand_part(rng, tag, nrexcl=mol.nrexcl)
            mol.merge_molecule(part)
            ops.append('merge part %s: %d atoms' % (tag, len(part)))
            if every_step:
                yield mol, list(ops)
    for _ in range(rng.randint(0, 3)):
        if len(mol) > 1:
            k = rng.choice(list(mol.nodes))
            mol.remove_node(k)
            ops.append('remove_node(%r)' % (k,))
            if every_step:
                yield mol, list(ops)
    if rng.random() < 0.4:
        if kind == 'int':
            k = max(mol.nodes) + rng.randint(1, 9)
        else:
            k = rng.choice([q for q in ('new', ('N', 9), 99) if q not in mol.nodes])
        mol.add_node(k, atype='P1', resid=3, resname='GLY', atomname='NEW', charge_group=0, charge=0.0)
        ops.append('add_node(%r)' % (k,))
        if every_step:
            yield mol, list(ops)
    if kind != 'int' and rng.random() < 0.3 and len(mol) > 2:
        keep = rng.sample(list(mol.nodes), len(mol) - 1)
        mol = mol.subgraph(keep)
        ops.append('subgraph(%r)' % (keep,))
    _rand_interactions(rng, mol, list(mol.nodes), rng.randint(0, 4))
    ops.append('add_interaction x n')
    yield mol, list(ops)


def history_features(e):
    """what an editing-history event exercises (input features only)"""
    m, ops = e['mol'], e['origin'].get('ops', [])
    feats = set()
    ids = [nd['aid'] for nd in m['nodes']]
    have = sorted(i for i in ids if i != NOAID)
    if have and len(have) < len(ids):
        feats.add('atom ids on some atoms only')
    if len(set(have)) < len(have):
        feats.add('duplicated atom ids')
    if have and have != list(range(have[0], have[0] + len(have))) and len(set(have)) == len(have):
        feats.add('atom ids with gaps')
    if 0 in have:
        feats.add('atom id 0')
    for kind in ('str', 'tuple', 'mixed'):
        if ops and ops[0].endswith(kind + ' keys'):
            feats.add(kind + ' node keys')
    guarded = any(x['g'] for x in m['inter'])
    if any(o.startswith('merge') for o in ops) and guarded:
        feats.add('merged parts with guarded interactions')
    if any(o.startswith('remove_node') for o in ops) and m['inter']:
        feats.add('remove_node, interactions left')
    if e['origin'].get('step', 0) > 0 and len(ops) > 1 and not ops[-1].startswith('add_interaction'):
        feats.add('same object written again after an edit')
    if any(nd['f'][4] == '0' for nd in m['nodes']):
        feats.add('charge_group 0')
    return feats


HISTORY_MUST = {'atom ids on some atoms only', 'duplicated atom ids', 'atom ids with gaps', 'atom id 0', 'str node keys',
                'tuple node keys', 'mixed node keys', 'merged parts with guarded interactions',
                'remove_node, interactions left', 'same object written again after an edit', 'charge_group 0'}


def _history_chunk(args):
    n, seed = args
    rng = random.Random(seed)
    out = []
    for h in range(n):
        every = h % 4 == 0
        for step, (mol, ops) in enumerate(random_history(rng, every)):
            out.append(event_of(mol, {'source': 'editing history', 'ops': ops, 'history': '%d/%d' % (seed, h), 'step': step}))
    return out


# ----------------------------------------------------------------------------------------------------------------
# code -> spec (b): molecules of the real pipeline (harness/c02_real.run_pipeline)

GO = ['-go', 'CONTACTS', '-go-eps', '9.4']
MW = ['-maxwarn', '100']
CLI_JOBS = {
    'quick': [('PS', ['-ff', 'martini3001', '-nt', '-noscfix', '-p', 'backbone', '-sep']),
              ('W', ['-ff', 'martini22', '-elastic', '-noscfix'] + MW),
              ('W', ['-ff', 'martini22p', '-noscfix', '-p', 'backbone'] + MW),
              ('W', ['-ff', 'elnedyn22', '-noscfix'] + MW),
              ('W', ['-ff', 'martini3001', '-scfix'] + GO + MW),
              ('S', ['-ff', 'martini3001', '-scfix', '-elastic', '-p', 'backbone', '-cys', 'auto'] + MW)],
}
CLI_JOBS['thorough'] = CLI_JOBS['quick'] + [
    ('H', ['-ff', 'martini3001', '-p', 'all', '-ss', 'H'] + MW),
    ('S', ['-ff', 'elnedyn22', '-noscfix'] + MW),
    ('SW', ['-ff', 'martini3001', '-merge', 'all', '-elastic', '-p', 'backbone'] + MW),
    ('W', ['-ff', 'martini3001', '-noscfix'] + GO + MW),
    ('UP', ['-ff', 'martini3001', '-elastic', '-p', 'backbone', '-sep'] + MW),
    ('PSP', ['-ff', 'martini22', '-cys', 'auto', '-noscfix'] + MW),
    ('H', ['-ff', 'martini22p', '-scfix', '-elastic'] + MW),
    ('S', ['-ff', 'martini22p', '-noscfix', '-p', 'backbone'] + MW),
    ('P', ['-ff', 'martini22p', '-noscfix'] + MW),
    ('H', ['-ff', 'elnedyn22p', '-noscfix', '-p', 'backbone'] + MW),
    ('W', ['-ff', 'elnedyn22p', '-scfix'] + MW),
    ('H', ['-ff', 'elnedyn21', '-noscfix', '-ef', '500'] + MW),
    ('S', ['-ff', 'martini3001', '-scfix'] + GO + MW),
    ('H', ['-ff', 'martini3001', '-noscfix', '-p', 'backbone', '-pf', '500'] + GO + MW),
    ('HS', ['-ff', 'martini3001', '-scfix', '-merge', 'all'] + GO + MW),
    ('U', ['-ff', 'martini3001', '-scfix', '-go', '-p', 'backbone'] + MW),
    ('H', ['-ff', 'martini22', '-scfix', '-elastic', '-eu', '0.8', '-p', 'backbone'] + MW),
    ('W', ['-ff', 'martini3001', '-noscfix', '-elastic', '-nt'] + MW),
    ('S', ['-ff', 'martini22', '-noscfix', '-p', 'all', '-dssp'] + MW),
]
# what the real molecules of a tier must exercise (else the family is vacuous: exit 2)
REAL_MUST = {'sec:virtual_sitesn', 'virtual_sitesn-from-several-atoms', 'sec:exclusions', 'exclusions-of-more-than-two',
             'sec:impropers', 'sec:dihedrals', 'sec:position_restraints', 'sec:constraints', 'ifdef', 'ifndef', 'define',
             'group', 'comment', 'charge-without-mass', 'zero-charge', 'three-guard-groups-in-a-section',
             'sec:virtual_sites2'}


# ----------------------------------------------------------------------------------------------------------------
# TRACE judge

def _judge(shard):
    work = tlc.scratch('c02j_')
    try:
        tf = tlc.write_json(work, 'trace.json', [R.for_tlc(e) for e in shard])
        res = tlc.run('Trace_ItpWrite', 'SPECIFICATION Spec\n', dump=True, env={'TRACE_FILE': tf}, workdir=work, workers=2,
                      timeout=2400)
        if res.violated:
            raise tlc.MachineryError('Trace_ItpWrite violated %s' % res.violated)
        verdicts = {st['tid']: dict(st['verdict']) for st in res.states() if st['verdict']['write'] != 'pending'}
        return res.distinct, res.generated, res.wall, verdicts
    finally:
        shutil.rmtree(work, ignore_errors=True)


def judge_events(events, pool=None):
    """TLC verdict for every event (list of {'write', 'agree', 'pure'}, same order)."""
    if not events:
        return [], (0, 0, 0.0)
    weight = sum(len(e['file']['recs']) + 10 for e in events)
    nshards = max(1, min(12, len(events) // 40, weight // 1500 + 1))
    # big and small events spread evenly over the shards
    order = sorted(range(len(events)), key=lambda i: -len(events[i]['file']['recs']))
    shards_idx = [order[k::nshards] for k in range(nshards)]
    shards = [[events[i] for i in idx] for idx in shards_idx]
    if pool is None:
        with mp.Pool(len(shards)) as p:
            res = p.map(_judge, shards)
    else:
        res = pool.map(_judge, shards)
    verdicts, dist, gen, wall = [None] * len(events), 0, 0, 0.0
    for idx, shard, (d, g, w, vs) in zip(shards_idx, shards, res):
        dist, gen, wall = dist + d, gen + g, max(wall, w)
        if len(vs) != len(shard):
            raise tlc.MachineryError('trace verdicts missing: %d of %d' % (len(vs), len(shard)))
        for j, i in enumerate(idx):
            verdicts[i] = vs[j + 1]
    return verdicts, (dist, gen, wall)


def overall(v):
    """One word for the three-part verdict: the first part that fails."""
    if v['write'] != 'ok':
        return v['write']
    if v['pure'] != 'ok':
        return v['pure']
    if v['agree'].startswith('reader:'):
        return v['agree']
    return 'ok'


def kind_of(why):
    if why.startswith('reader:'):
        return 'reader-agreement'
    if why in ('writing-changed-the-molecule', 'second-write-differs'):
        return 'repeatable'
    return 'roundtrip'


def drop_node(m, i):
    key = m['nodes'][i]['key']
    return dict(m, nodes=m['nodes'][:i] + m['nodes'][i + 1:], inter=[x for x in m['inter'] if key not in x['at']])


def minimise(m, why, rounds=10):
    """Greedy shrinking: drop one atom (with its interactions) or one interaction while TLC still gives the same
    verdict on what the real writer produces for the smaller molecule."""
    for _ in range(rounds):
        cands = [drop_node(m, i) for i in range(len(m['nodes'])) if len(m['nodes']) > 1]
        cands += [dict(m, inter=m['inter'][:i] + m['inter'][i + 1:]) for i in range(len(m['inter']))]
        if m.get('defs'):
            cands.append(dict(m, defs=[]))
        events = []
        for c in cands:
            try:
                e = event_of(build_molecule(c), {'source': 'shrink'}, moltype=moltype_of(c))
            except Exception:      # noqa
                continue
            if not e['err'] and R.strip_raw(e['mol']) == by_type(R.strip_raw(dict(c, moltype=moltype_of(c)))):
                events.append(e)
        if not events:
            break
        verdicts, _ = judge_events(events)
        keep = [e for e, v in zip(events, verdicts) if overall(v) == why]
        if not keep:
            break
        m = min((e['mol'] for e in keep), key=size_of)
    return m


def _known_ids():
    return {k['id'] for k in common.load_known() if k['property'] == PID}


def _violation(vd, ev, kind, sc, detail):
    """vd.violation, except for the driver's PENDING findings that the lead has not registered yet."""
    registered = _known_ids()
    for fid, what in PENDING.items():
        if fid in registered:
            continue
        try:
            hit = SIGNATURES[fid](kind, common.jsonable(sc))
        except Exception:      # noqa
            hit = False
        if hit:
            seen = ev.extra.setdefault('pending_findings', {})
            if fid not in seen:
                print('NOTE property=%s finding %s is not registered in known_findings.json yet (reported to the lead): %s'
                      % (PID, fid, what))
            seen[fid] = seen.get(fid, 0) + 1
            return False
    return vd.violation(kind, sc, detail)


def report_trace_violations(failed, vd, ev, label, shrink=True):
    """failed: list of (event, overall verdict).  Per verdict the two smallest scenarios are written out; with `shrink`
    the smallest one of each verdict is first minimised (the TAB domain is exhaustive, its smallest failing member is
    already minimal)."""
    per_why = {}
    for e, v in sorted(failed, key=lambda ev_v: size_of(ev_v[0]['mol'])):
        per_why.setdefault(v, []).append(e)
    for n, (v, lst) in enumerate(per_why.items()):
        for k, e in enumerate(lst[:2]):
            m = e['mol']
            if shrink and k == 0 and n < 3 and not e.get('err'):
                try:
                    m = minimise(m, v, rounds=8)
                except tlc.MachineryError:
                    pass
            sc = {'mol': m, 'why': v, 'origin': e.get('origin', e.get('family')),
                  'original_size': [len(e['mol']['nodes']), len(e['mol']['inter'])]}
            more = '(%d recorded runs with this verdict)' % len(lst)
            if e.get('err'):
                _violation(vd, ev, 'writer-raised', dict(sc, detail=e['err']), '%s: real writer raised %s %s' % (label, e['err'], more))
            else:
                what = ('Block stored by read_itp vs independent reading of the same text' if v.startswith('reader:')
                        else 'records of the real text')
                _violation(vd, ev, kind_of(v), sc, '%s: TLC verdict on the %s: %s %s' % (label, what, v, more))


# ----------------------------------------------------------------------------------------------------------------

def _tally(table, family, v):
    t = table.setdefault(family, {})
    for part in ('write', 'agree', 'pure'):
        key = '%s=%s' % (part, v[part])
        t[key] = t.get(key, 0) + 1


def run(tier, seed, ev, vd):
    quick = tier == 'quick'
    ev.rule = ('TAB: every molecule of six bounded families (renumbering: all node orders x atom-id assignments incl. '
               'missing and tied; guards/groups in one section; section mix incl. impropers, virtual_sitesn, exclusions; '
               'd11: mass without charge; vs1: one-atom virtual sites). TRACE: molecules left by random editing histories '
               '(integer, string, tuple and mixed node keys; written after every step of every fourth history) and the live '
               'molecules of every write_molecule_itp call of real martinize2 runs (also after deleting atoms / shuffling '
               'atom ids); each judged on write (ReadMol = Canon), agree (read_itp vs independent reader) and pure '
               '(repeatable). Non-trivial = molecule with >=1 interaction and '
               '>=2 of {atom-id order != node order, key order != node order, tied or missing atom ids, >=2 guard groups in a '
               'section, >=2 sections, impropers or virtual_sitesn}; distinct by abstract molecule.')
    ev.assumptions = [
        'TLC evaluates the TLA+ operators correctly; harness/indep_readers.py tokenises the text as the GROMACS manual '
        'describes (atoms / parameters split by the directive arity, virtual_sitesn = site, function type, atoms)',
        'attribute values and parameters are opaque tokens str(value) (also numpy scalars, numeric 0); numeric formatting is '
        'compared as text (DESIGN limit)',
        'writer/reader agreement compares resid / charge_group as integers and charge / mass as integers in units of 1e-6 '
        '(exact decimal arithmetic on the token, float * 1e6 rounded on the Block; tolerance 1e-9 absolute); what a comment '
        'carries (meta group / comment) is given to no reader by the format and is not part of the agreement',
        'excluded from the agreement, by named operators of spec/ItpAgree.tla, exactly what read_itp declares unsupported: '
        'UsesUnknownSection (sections outside its explicit list, e.g. cmap: "to guard against ... interactions for which '
        'the format is unknown"), NestedOrElseGuard (guard inside a guard is an IOError; never written), '
        'NonNumericAtomColumn (int() / float() of the atom columns); #include (never written)',
        'not generated: ifdef and ifndef on one interaction (ValueError by contract), comments with newlines, tokens '
        'with blanks or ";", virtual_sitesn without exactly one parameter, exclusions with parameters, pre/post '
        'section lines, negative or non-integer atom ids, merge_molecule on non-integer node keys (undefined)',
        'node keys are opaque to the specification: integer keys stay integers, any other key is its repr() string',
        'atoms with a mass and without a charge are generated only in family d11 (known finding D11)',
        'a parameter that is neither text nor a number (e.g. an unevaluated LinkParameterEffector) cannot be carried by '
        'the format: such a real molecule is a machinery failure of this check (exit 2), none occurs',
    ]
    fams = families(tier)
    deviants = []
    jobs = [(c, o, seed * 31 + i) for i, (c, o) in enumerate(CLI_JOBS[tier])]
    cli_pool = mp.Pool(min(len(jobs), 6 if quick else 10), maxtasksperchild=1)
    cli_async = cli_pool.map_async(R.run_pipeline, jobs, chunksize=1)
    with mp.Pool(tlc.NCPU) as pool:
        pre = {}
        if quick:       # the TAB models of the quick tier are small: TLC on all families at once
            names = list(fams)
            for name, res in zip(names, pool.map(_tlc_family, [(fams[n], tlc.scratch('c02tab_'), 8) for n in names], chunksize=1)):
                pre[name] = res
        for name, fam in fams.items():
            run_family(name, fam, ev, vd, pool, deviants, pre.get(name))
        ev.exhaustive = True

        # texts / Blocks that differ from TLC's Write(mol) / ReaderBlock: TLC judges the real ones
        ev.extra['write_model_deviations'] = 0
        if deviants:
            deviants.sort(key=lambda d: size_of(d['mol']))
            if len(deviants) > 12000:       # the 6000 smallest and a seeded sample of the rest
                rest = deviants[6000:]
                random.Random(seed).shuffle(rest)
                deviants = deviants[:6000] + rest[:6000]
            verdicts, (d, g, w) = judge_events(deviants, pool)
            failed = []
            for e, v in zip(deviants, verdicts):
                if overall(v) == 'ok':
                    ev.extra['write_model_deviations'] += 1
                else:
                    failed.append((e, overall(v)))
            if ev.extra['write_model_deviations']:
                print('NOTE property=C02 %d texts pass the judge but are not what ItpWrite!Write / ReaderBlock produce '
                      '(model of the algorithm out of date), first: %s' % (ev.extra['write_model_deviations'],
                                                                           json.dumps(deviants[0]['mol'])[:300]))
            report_trace_violations(failed, vd, ev, 'TAB replay', shrink=False)

        # code -> spec
        nhist = 1600 if quick else 24000
        parts = pool.map(_history_chunk, [(nhist // (tlc.NCPU * 2), seed * 7907 + i) for i in range(tlc.NCPU * 2)])
    events = [e for p in parts for e in p]
    hist_feats = {}
    for e in events:
        e['fam'] = 'history'
        for f in history_features(e):
            hist_feats[f] = hist_feats.get(f, 0) + 1
    thin = sorted(f for f in HISTORY_MUST if hist_feats.get(f, 0) < 20)
    if thin:
        raise tlc.MachineryError('history family is thin on %s: %s' % (thin, hist_feats))
    try:
        cli_out = cli_async.get(timeout=3000)
    finally:
        cli_pool.terminate()
    real_feats, ncalls = set(), 0
    for o in cli_out:
        if 'error' in o:
            raise tlc.MachineryError('pipeline run failed: ' + o['error'])
        for e in o['events']:
            e['fam'] = 'real' if e['origin'].get('what') else 'real-edited'
            if e['fam'] == 'real':
                ncalls += 1
                real_feats |= R.census(e['mol'])
                if e['odd'] or not in_scope(e['mol']):
                    raise tlc.MachineryError('a molecule of the real pipeline cannot be judged (%s): %s' % (
                        e['origin']['source'], e['odd'] or 'token with blanks'))
        events += o['events']
    missing = REAL_MUST - real_feats
    if missing:
        raise tlc.MachineryError('real-molecule family is vacuous for %s' % sorted(missing))
    skipped = [e for e in events if not in_scope(e['mol']) or e['odd']]
    events = [e for e in events if in_scope(e['mol']) and not e['odd']]
    errs = [(e, 'writer-raised') for e in events if e['err']]
    events = [e for e in events if not e['err']]
    verdicts, (d, g, w) = judge_events(events)
    ev.states += d
    ev.transitions += g
    ev.tlc_runs.append({'run': 'TRACE Trace_ItpWrite', 'events': len(events), 'distinct_states': d, 'states_generated': g,
                        'wall_s': round(w, 2)})
    failed = list(errs)
    tally = {}
    for e, v in zip(events, verdicts):
        ev.traces += 1
        ev.evaluations += 1
        _tally(tally, e['fam'], v)
        if overall(v) != 'ok':
            failed.append((e, overall(v)))
        if nontrivial(e['mol']):
            ev.nontrivial.add(_hash(e['mol']))
    ev.extra['trace_events'] = {'editing_history_events': sum(len(p) for p in parts), 'pipeline_writer_calls': ncalls,
                                'pipeline_molecules_edited': sum(1 for e in events if e['fam'] == 'real-edited'),
                                'out_of_scope_skipped': len(skipped), 'verdict_parts': tally,
                                'non_integer_key_molecules': sum(1 for e in events if e['mol']['nodes']
                                                                 and isinstance(e['mol']['nodes'][0]['key'], str)),
                                'real_molecule_features': sorted(real_feats), 'history_features': hist_feats}
    report_trace_violations(failed, vd, ev, 'recorded run')
    if not failed:
        # vacuity of the agreement: it must have been DECIDED (not excluded) on most histories and on every real molecule
        for fam, least in (('history', 0.5), ('real', 1.0), ('real-edited', 1.0)):
            t = tally.get(fam, {})
            total = sum(v for k, v in t.items() if k.startswith('agree='))
            decided = t.get('agree=ok', 0) + sum(v for k, v in t.items() if k.startswith('agree=reader:'))
            if total == 0 or decided < least * total:
                raise tlc.MachineryError('writer/reader agreement decided on %d of %d %s events only: %s' % (decided, total, fam, t))
        if ev.extra['trace_events']['non_integer_key_molecules'] < 50:
            raise tlc.MachineryError('history family has too few molecules with non-integer node keys')
    big = max(events, key=lambda e: len(e['file']['recs']))
    si = next((i for i, e in enumerate(events) if nontrivial(e['mol']) and len(e['mol']['nodes']) <= 6), 0)
    ev.sample({'kind': 'recorded run judged by TLC', 'origin': events[si]['origin'], 'mol': events[si]['mol'],
               'records': events[si]['file']['recs'], 'block_of_read_itp': events[si]['rd'], 'verdict': verdicts[si]}, limit=5)
    ri = next((i for i, e in enumerate(events) if e['fam'] == 'real'), None)
    if ri is not None:
        e = events[ri]
        ev.sample({'kind': 'interposed write_molecule_itp call of a real run (abridged)', 'origin': e['origin'],
                   'atoms': len(e['mol']['nodes']), 'interactions': len(e['mol']['inter']), 'defs': e['mol']['defs'],
                   'first_records': e['file']['recs'][:6], 'verdict': verdicts[ri]}, limit=6)
    ev.extra['largest_trace'] = {'origin': big['origin'], 'atoms': len(big['mol']['nodes']),
                                 'interactions': len(big['mol']['inter']), 'records': len(big['file']['recs'])}


def replay(sc):
    m = sc['mol']
    mol = build_molecule(m)
    e = event_of(mol, {'source': 'replay'}, moltype=moltype_of(m))
    print('abstract molecule:', json.dumps(m))
    print('text written by the real write_molecule_itp:\n' + e['text'])
    if e['err']:
        print('the real writer raised', e['err'])
        return 1
    print('Block stored by the real read_itp:', json.dumps(e['rd']))
    verdicts, _ = judge_events([e])
    print('TLC verdict (ItpWrite!JudgeFile / ItpAgree!AgreeVerdict / ItpWrite!Repeatable):', verdicts[0],
          ' recorded:', sc.get('why'))
    return 0 if overall(verdicts[0]) == 'ok' else 1


def _first(pred, seq, what):
    for x in seq:
        if pred(x):
            return x
    raise tlc.MachineryError('selftest: no event with ' + what)


def selftest(seed):
    """Binding demonstration: (1) tampered recorded records must be rejected by the TLC judge with the right clause,
    untouched ones accepted; (2) the same for the Block of read_itp, the projection after writing, the prologue and the
    [ moleculetype ] line, on history molecules (integer and non-integer keys) and on a live molecule of a real
    martinize2 run; (3) the named exclusion is what read_itp really refuses; (4) a flipped expected record / Block field in
    a TAB row must be seen by the replay comparison."""
    import copy
    pool = [e for e in _history_chunk((500, seed)) if in_scope(e['mol']) and not e['err'] and not e['odd']]
    usable = [e for e in pool if len(e['mol']['nodes']) >= 2 and not e['rd']['err']
              and any(len(x['at']) >= 2 and len(set(x['at'])) > 1 for x in e['mol']['inter'])]
    batch = [copy.deepcopy(e) for e in usable[:12]]
    assert len(batch) == 12
    expect = {}
    # 1: an interaction attached to a different atom
    e = batch[1]
    recs = e['file']['recs']
    i = next(i for i, r in enumerate(recs) if r['k'] == 'inter' and len(set(r['a'])) >= 2)
    a = recs[i]['a']
    other = next(x for x in range(1, len(e['mol']['nodes']) + 2) if x not in a)
    recs[i] = dict(recs[i], a=[other] + a[1:])
    expect[2] = {'interaction-attached-to-different-atoms', 'interaction-section-or-parameters-differ'}
    # 4: an atom line dropped
    e = batch[4]
    recs = e['file']['recs']
    del recs[next(i for i, r in enumerate(recs) if r['k'] == 'atom')]
    expect[5] = {'atom-dropped-or-duplicated'}
    # 7: an #endif dropped, or (no guard in that text) an interaction duplicated
    e = batch[7]
    recs = e['file']['recs']
    idx = [i for i, r in enumerate(recs) if r['k'] == 'endif']
    if idx:
        del recs[idx[0]]
        expect[8] = {'unbalanced-guard-or-unreadable-line', 'interaction-under-wrong-guard'}
    else:
        i = next(i for i, r in enumerate(recs) if r['k'] == 'inter')
        recs.insert(i, recs[i])
        expect[8] = {'interaction-dropped-or-duplicated'}
    # 10: an atom field changed
    e = batch[10]
    recs = e['file']['recs']
    i = next(i for i, r in enumerate(recs) if r['k'] == 'atom')
    recs[i] = dict(recs[i], p=recs[i]['p'][:3] + ['XX'] + recs[i]['p'][4:])
    expect[11] = {'atom-fields-differ'}

    # --- second reader (Block of read_itp), projection after writing, prologue, [ moleculetype ] line
    def add(e, want):
        batch.append(e)
        expect[len(batch)] = want if isinstance(want, set) else {want}

    ok_agree = [e for e in usable[12:] if e['rd']['inters']]
    e = copy.deepcopy(_first(lambda e: any(len(set(x['a'])) >= 2 for x in e['rd']['inters']), ok_agree, 'a Block interaction'))
    x = next(x for x in e['rd']['inters'] if len(set(x['a'])) >= 2)
    x['a'] = [x['a'][1], x['a'][0]] + x['a'][2:]
    add(e, 'reader:interaction-on-different-atoms')
    e = copy.deepcopy(_first(lambda e: any(x['cond'] != 'none' for x in e['rd']['inters']), ok_agree, 'a guarded Block interaction'))
    next(x for x in e['rd']['inters'] if x['cond'] != 'none').update(cond='none', tag='')
    add(e, 'reader:condition-differs')
    e = copy.deepcopy(_first(lambda e: any(a['q']['has'] for a in e['rd']['atoms']), ok_agree, 'a charge'))
    next(a for a in e['rd']['atoms'] if a['q']['has'])['q']['v'] += 1
    add(e, 'reader:atom-fields-differ')
    e = copy.deepcopy(_first(lambda e: any(len(x['a']) >= 2 and x['sec'] != 'exclusions' for x in e['rd']['inters']), ok_agree, 'a bond'))
    x = next(x for x in e['rd']['inters'] if len(x['a']) >= 2 and x['sec'] != 'exclusions')
    x['p'] = [str(x['a'][-1] + 1)] + x['p']
    x['a'] = x['a'][:-1]
    add(e, 'reader:atoms-and-parameters-split-differently')
    e = copy.deepcopy(ok_agree[0])
    e['rd'] = dict(R.EMPTY_RD, err='IOError: tampered')
    add(e, 'reader:rejects-the-written-text')
    e = copy.deepcopy(ok_agree[1])
    e['again']['mol']['nodes'][0]['f'][5] = ''
    add(e, {'writing-changed-the-molecule'})
    e = copy.deepcopy(ok_agree[2])
    e['again']['recs'] = e['again']['recs'][:-1]
    add(e, 'second-write-differs')
    e = copy.deepcopy(_first(lambda e: any(nd['f'][6] == '' for nd in e['mol']['nodes']), ok_agree[3:], 'an atom without mass'))
    next(nd for nd in e['again']['mol']['nodes'] if nd['f'][6] == '')['raw'].append(['mass', "''"])     # attribute appeared
    add(e, 'writing-changed-the-molecule')
    # non-integer keys: an interaction attached to a different atom
    e = copy.deepcopy(_first(lambda e: isinstance(e['mol']['nodes'][0]['key'], str) and len(e['mol']['nodes']) >= 3
                             and any(len(set(x['at'])) == 2 for x in e['mol']['inter']), usable[12:], 'string keys'))
    x = next(x for x in e['mol']['inter'] if len(set(x['at'])) == 2)
    x['at'] = [next(nd['key'] for nd in e['mol']['nodes'] if nd['key'] not in x['at']), x['at'][1]]
    e['again']['mol'] = e['mol']
    add(e, {'interaction-attached-to-different-atoms', 'interaction-section-or-parameters-differ'})
    # the named exclusion is a real refusal: [ cmap ] is written, read_itp raises, TLC excludes
    e = copy.deepcopy(_first(lambda e: any(x['type'] == 'cmap' for x in e['mol']['inter']), pool, 'cmap'))
    assert e['rd']['err'], 'read_itp accepted [ cmap ]'
    add(e, 'ok')
    cmap_at = len(batch)

    # --- a live molecule of a real martinize2 run (define prologue, position restraints)
    out = R.run_pipeline(('P', ['-ff', 'martini3001', '-p', 'backbone', '-noscfix', '-maxwarn', '100'], seed))
    assert 'events' in out, out
    real = _first(lambda e: e['origin'].get('what'), out['events'], 'interposed writer call')
    assert real['mol']['defs'] and not real['err'] and not real['odd']
    add(copy.deepcopy(real), 'ok')
    e = copy.deepcopy(real)
    del e['file']['pro'][next(i for i, r in enumerate(e['file']['pro']) if r['k'] == 'ifndef')]
    del e['file']['pro'][next(i for i, r in enumerate(e['file']['pro']) if r['k'] == 'endif')]
    add(e, 'define-prologue-differs')
    e = copy.deepcopy(real)
    e['file']['head']['moltype'] = 'other'
    add(e, {'moleculetype-line-differs'})
    e = copy.deepcopy(real)
    next(x for x in e['rd']['inters'] if x['sec'] == 'position_restraints').update(cond='ifndef')
    add(e, 'reader:condition-differs')
    e = copy.deepcopy(real)
    e['rd']['atoms'][1]['key'], e['rd']['atoms'][2]['key'] = e['rd']['atoms'][2]['key'], e['rd']['atoms'][1]['key']
    add(e, 'reader:interaction-on-different-atoms')
    e = copy.deepcopy(real)
    x = next(x for x in e['mol']['inter'] if x['type'] == 'position_restraints')
    x['g'] = []
    e['again']['mol'] = e['mol']
    add(e, 'interaction-under-wrong-guard')

    verdicts, _ = judge_events(batch)
    for i, v in enumerate(verdicts, 1):
        if i in expect:
            assert overall(v) in expect[i], (i, v, expect[i])
        else:
            assert overall(v) == 'ok', (i, v)
    assert verdicts[cmap_at - 1]['agree'] == 'excluded:section-unknown-to-read_itp', verdicts[cmap_at - 1]
    print('selftest C02 (TRACE): tampered events rejected: %s; the other %d accepted (incl. the untouched live molecule of a '
          'real run: %d atoms, %d interactions, defines %s); [ cmap ] molecule: read_itp raised %r, TLC: %s' % (
              {i: overall(verdicts[i - 1]) for i in sorted(expect) if expect[i] != {'ok'}},
              sum(1 for i in range(1, len(batch) + 1) if expect.get(i, {'ok'}) == {'ok'}),
              len(real['mol']['nodes']), len(real['mol']['inter']), real['mol']['defs'],
              batch[cmap_at - 1]['rd']['err'][:60], verdicts[cmap_at - 1]['agree']))
    # TAB binding: corrupt TLC's expected records / Block of one row -> the replay must notice the difference
    fam = families('quick')['d11']
    res = tlc.run('ItpWrite', CFG, consts=consts_of(fam), dump=True)
    rows = [st for st in res.states() if st['out']['done']]
    st = rows[0]
    m = norm(st['mol'])
    e = event_of(build_molecule(m), {'source': 'selftest'})
    same = e['file']['recs'] == norm(st['out']['recs']) and e['rd'] == norm(st['out']['rd'])
    tampered = norm(st['out']['recs'])
    tampered[1]['a'] = [tampered[1]['a'][0] + 1]
    tampered_rd = norm(st['out']['rd'])
    tampered_rd['atoms'][0]['key'] += 1
    assert same and e['file']['recs'] != tampered and e['rd'] != tampered_rd
    print('selftest C02 (TAB): real records and real read_itp Block equal TLC Write(mol) / ReaderBlock for %s; after flipping '
          'one expected index / node key they differ; TLC verdict for that row: %s' % (json.dumps(m['nodes']), st['out']['verdict']))
    return 0
