"""C14 - every unrecognised atom is explained by a known modification or reported.

spec/PTM.tla        groups of extra atoms (Components / AnchorsOf), candidate placements (induced embeddings: anchors by name on
                    recognised atoms, added atoms by element on unexplained atoms), ALL exact covers (Exact), the documented
                    preference for larger modifications (Better), REQUESTED modifications (atoms RepairGraph pre-labelled because
                    -modify / -nter / -cter asked for them: placed by name on exactly their atoms), `replace` of any attribute
                    (also to None), residues = (chain, resid, resname, insertion code), JudgeCall / JudgeRun, Note
spec/PTMSmall.tla   the input domain of the exhaustive small-scope family
spec/Trace_PTM.tla  TLC judges recorded runs of the real CanonicalizeModifications with identify_ptms interposed
harness/c14_real.py generic projection of real Molecule / Modification objects, PDB editing, the martinize2 front end in-process

Families (all judged by the same JudgeRun):
  synthetic  peptide-like molecules of 1-4 residues carrying hand-flagged atoms against a library of 12 modifications: sub-patterns
             of one another (PO < PHOS < PO3; only the larger fits), same elements / different connectivity (PHOS / OPH), a
             placement that must be undone (DIOL blocks OH + OPH), a ring in which OPH / PHOS are subgraphs but not induced
             ones, the same modification twice on one anchor, bridges over two and over THREE residues, two bridges on the same
             pair of residues, two bridges sharing one residue (atoms in the outer residues), renaming of anchors and of added
             atoms, atoms that match nothing, residues sharing a number (another chain, an insertion code) in one molecule
  small      EXHAUSTIVE small scope (spec/PTMSmall.tla enumerates the inputs): every way of bonding 2 (thorough: 3) unexplained O / P
             atoms to the CB atoms of two residues and to one another x every choice of <= 2 of 6 modifications
  requested  the same residues with a `modification` request (what AnnotateMutMod writes) taken through the REAL RepairGraph:
             requested atoms present under other names / partly present / absent (rebuilt), one or two requests per residue,
             an anchor renamed by `replace`, unrecognised atoms next to a request (RepairGraph drops them), unrequested
             modifications on the other residues
  real       bin/martinize2's front end on shipped structures with the shipped charmm modifications: default / neutral / no /
             `none` termini, protonation states, phosphotyrosine, atoms nothing explains, -modify requests, several at once,
             terminus + side chain on one residue, two chains in one molecule"""
import copy
import multiprocessing as mp
import random

from . import c14_real as R
from . import common, tlc

PID = 'C14'

BASE = [('N', 'N'), ('CA', 'C'), ('C', 'C'), ('O', 'O'), ('CB', 'C')]
BASE_EDGES = [('N', 'CA'), ('CA', 'C'), ('C', 'O'), ('CA', 'CB')]

# templates: name, nodes (key, atomname, element, ptm, newname), edges
TEMPLATES = [
    {'name': 'PHOS', 'nodes': [('a', 'CB', 'C', False, ''), ('p', 'P', 'P', True, ''), ('o', 'OP1', 'O', True, '')], 'edges': [('a', 'p'), ('p', 'o')]},
    {'name': 'PO', 'nodes': [('a', 'CB', 'C', False, ''), ('p', 'PX', 'P', True, '')], 'edges': [('a', 'p')]},
    {'name': 'OH', 'nodes': [('a', 'CB', 'C', False, ''), ('o', 'OG', 'O', True, 'OGX')], 'edges': [('a', 'o')]},
    {'name': 'OPH', 'nodes': [('a', 'CB', 'C', False, ''), ('o', 'OB', 'O', True, ''), ('p', 'PB', 'P', True, 'PBX')], 'edges': [('a', 'o'), ('o', 'p')]},
    {'name': 'NME', 'nodes': [('a', 'N', 'N', False, ''), ('c', 'CN', 'C', True, '')], 'edges': [('a', 'c')]},
    {'name': 'BRIDGE', 'nodes': [('a', 'CB', 'C', False, ''), ('b', 'CB', 'C', False, ''), ('s', 'SB', 'S', True, '')], 'edges': [('a', 's'), ('s', 'b')]},
    {'name': 'CTER', 'nodes': [('a', 'C', 'C', False, 'CT'), ('o', 'OXT', 'O', True, '')], 'edges': [('a', 'o')]},     # the only template anchored on C: renaming the anchor cannot hide it from another template
    {'name': 'PO3', 'nodes': [('a', 'CB', 'C', False, ''), ('p', 'P', 'P', True, ''), ('o1', 'O1P', 'O', True, ''), ('o2', 'O2P', 'O', True, ''), ('o3', 'O3P', 'O', True, '')],
     'edges': [('a', 'p'), ('p', 'o1'), ('p', 'o2'), ('p', 'o3')]},
    {'name': 'DIOL', 'nodes': [('a', 'CB', 'C', False, ''), ('o1', 'OD1', 'O', True, ''), ('o2', 'OD2', 'O', True, '')], 'edges': [('a', 'o1'), ('a', 'o2')]},
    {'name': 'TRI', 'nodes': [('a', 'CB', 'C', False, ''), ('b', 'CB', 'C', False, ''), ('c', 'CB', 'C', False, ''), ('x', 'BX', 'B', True, '')],
     'edges': [('a', 'x'), ('b', 'x'), ('c', 'x')]},
    {'name': 'THIOL', 'nodes': [('a', 'CB', 'C', False, ''), ('s', 'SG', 'S', True, '')], 'edges': [('a', 's')]},       # fits one side of a bridge, leaves the other anchor uncovered
    {'name': 'ABRIDGE', 'nodes': [('a', 'CA', 'C', False, ''), ('b', 'CA', 'C', False, ''), ('s', 'SE', 'Se', True, '')], 'edges': [('a', 's'), ('s', 'b')]},
]
TNAMES = [t['name'] for t in TEMPLATES]
# decorations: (anchor atom name, [(element, bonded to: 'anchor' | index of an earlier decoration atom)])
DECOR = {
    'phos': ('CB', [('P', 'anchor'), ('O', 0)]),
    'po': ('CB', [('P', 'anchor')]),
    'oh': ('CB', [('O', 'anchor')]),
    'oph': ('CB', [('O', 'anchor'), ('P', 0)]),
    'nme': ('N', [('C', 'anchor')]),
    'cter': ('C', [('O', 'anchor')]),
    'unknownF': ('CA', [('F', 'anchor')]),
    'unknown-chain': ('CB', [('O', 'anchor'), ('O', 0), ('O', 1)]),
    'phos-extra': ('CB', [('P', 'anchor'), ('O', 0), ('O', 0)]),
    'nme-twice': ('N', [('C', 'anchor'), ('C', 'anchor')]),          # the same modification placed twice on one anchor
    'oh-twice': ('CB', [('O', 'anchor'), ('O', 'anchor')]),          # DIOL, or OH twice: the larger is preferred
    'po3': ('CB', [('P', 'anchor'), ('O', 0), ('O', 0), ('O', 0)]),  # PO, PHOS are sub-patterns: only PO3 leaves nothing over
    'oh-oph': ('CB', [('O', 'anchor'), ('O', 'anchor'), ('P', 1)]),  # DIOL fits and must be undone: only OH + OPH cover the P
    'thiol': ('CB', [('S', 'anchor')]),
    'ring': ('CB', [('O', 'anchor'), ('P', ['anchor', 0])]),         # CB-O-P-CB: OPH / PHOS are subgraphs but not INDUCED ones; OH + PO is the cover
}
# what may be REQUESTED on a residue (one anchor each; BRIDGE-like templates cannot be patched onto one reference block)
REQUESTABLE = ['PHOS', 'PO', 'OH', 'OPH', 'NME', 'CTER', 'PO3', 'DIOL']


def _peptide(rng, nres, collide=''):
    nodes, edges, byres = [], [], []
    key = rng.choice([0, 7])
    resid = rng.choice([1, 10])
    chain, icode = 'A', ''
    for r in range(nres):
        if collide and r == nres // 2 and r > 0:                    # residues sharing a number with an earlier one (bonded to it):
            resid = nodes[0]['resid']                               # a second chain whose numbering starts again, or inserted residues
            chain, icode = ('B', '') if collide == 'chain' else ('A', 'A')
        names = {}
        for name, el in BASE:
            nodes.append({'id': key, 'resid': resid, 'chain': chain, 'icode': icode, 'name': name, 'el': el, 'ptm': False})
            names[name] = key
            key += 1
        for a, b in BASE_EDGES:
            edges.append([names[a], names[b]])
        if byres:
            edges.append([byres[-1]['C'], names['N']])
        byres.append(names)
        resid += rng.choice([1, 1, 3])
    return nodes, edges, byres, key


def make_case(rng):
    nres = rng.randint(1, 4)
    collide = rng.choice(['chain', 'icode']) if nres >= 2 and rng.random() < 0.12 else ''
    nodes, edges, byres, key = _peptide(rng, nres, collide)
    info = {n['id']: n for n in nodes}
    used = ['same-number-other-' + collide] if collide else []
    junk = [0]

    def new_atom(res_of, el, bonded):
        nonlocal key
        junk[0] += 1
        src = info[res_of]
        n = {'id': key, 'resid': src['resid'], 'chain': src['chain'], 'icode': src['icode'], 'name': 'X%d' % junk[0], 'el': el, 'ptm': True}
        nodes.append(n)
        info[key] = n
        for b in bonded:
            edges.append([b, key])
        key += 1
        return key - 1
    # bridges first: an atom bonded to recognised atoms of two or three residues
    bridged = set()
    plan = rng.random()
    if len(byres) >= 2 and plan < 0.25:             # a sulfur bridging the CB atoms of two residues
        a, b = rng.sample(range(len(byres)), 2)
        new_atom(byres[a]['CB'], 'S', [byres[a]['CB'], byres[b]['CB']])
        used.append('bridge')
        bridged = {a, b}
        if rng.random() < 0.3:                       # and a second bridge between the same two residues (same group key)
            new_atom(byres[b]['CA'], 'Se', [byres[a]['CA'], byres[b]['CA']])
            used.append('bridge-same-pair')
    elif len(byres) >= 3 and plan < 0.45:           # one atom bonded to the CB atoms of three residues
        a, b, c = rng.sample(range(len(byres)), 3)
        new_atom(byres[rng.choice([a, b, c])]['CB'], 'B', [byres[a]['CB'], byres[b]['CB'], byres[c]['CB']])
        used.append('tri-bridge')
        bridged = {a, b, c}
    elif len(byres) >= 3 and plan < 0.65:           # two bridges sharing the middle residue, each atom listed with an OUTER residue
        a, b, c = rng.sample(range(len(byres)), 3)
        new_atom(byres[a]['CB'], 'S', [byres[a]['CB'], byres[b]['CB']])
        new_atom(byres[c]['CA'], 'Se', [byres[b]['CA'], byres[c]['CA']])
        used.append('bridges-sharing-a-residue')
        bridged = {a, b, c}
    clean = rng.random() < 0.5                       # no other decoration on a bridged residue
    for r, names in enumerate(byres):
        if clean and r in bridged:
            continue
        k = rng.choice([0, 1, 1, 2])
        anchors_used = set()
        for _ in range(k):
            d = rng.choice(sorted(DECOR))
            anchor, atoms = DECOR[d]
            if anchor in anchors_used:
                continue
            anchors_used.add(anchor)
            new = []
            for el, to in atoms:
                new.append(new_atom(names[anchor], el, [names[anchor] if x == 'anchor' else new[x] for x in (to if isinstance(to, list) else [to])]))
            used.append(d)
    if rng.random() < 0.25:                          # unexplained atoms bonded to nothing recognised (an ion, a hydroxide)
        r = rng.randrange(len(byres))
        a = new_atom(byres[r]['CA'], rng.choice(['O', 'Z']), [])
        if rng.random() < 0.5:
            new_atom(byres[r]['CA'], 'H', [a])
        used.append('floating')
    tsel = [t for t in TEMPLATES if rng.random() < 0.8]
    rng.shuffle(tsel)
    order = list(range(len(nodes)))
    if rng.random() < 0.5:
        rng.shuffle(order)
    return {'nodes': nodes, 'edges': edges, 'insertion': [nodes[i]['id'] for i in order]}, tsel, used


def make_requested_case(rng):
    """Residues with `modification` requests; the atoms of a requested modification are present under other names, partly
    present or absent; unrecognised atoms may sit next to a request; other residues carry unrequested decorations."""
    nres = rng.randint(1, 3)
    nodes, edges, byres, key = _peptide(rng, nres)
    info = {n['id']: n for n in nodes}
    used = []
    junk = [0]
    tdict = {t['name']: t for t in TEMPLATES}

    def new_atom(res_of, el, bonded):
        nonlocal key
        junk[0] += 1
        src = info[res_of]
        n = {'id': key, 'resid': src['resid'], 'chain': src['chain'], 'icode': src['icode'], 'name': 'X%d' % junk[0], 'el': el, 'ptm': False}
        nodes.append(n)
        info[key] = n
        for b in bonded:
            edges.append([b, key])
        key += 1
        return key - 1
    requests = {}
    for r, names in enumerate(byres):
        if rng.random() < 0.7:
            want = rng.sample(REQUESTABLE, rng.choice([1, 1, 1, 1, 1, 2]))
            anchors = [tdict[w]['nodes'][0][1] for w in want]
            if len(set(anchors)) != len(anchors):
                want = want[:1]                                     # two requests on one anchor are not generated (atom names would repeat)
            requests[r] = want
            for w in want:
                t = tdict[w]
                how = rng.choice(['present', 'present', 'absent', 'partial'])
                keyof = {t['nodes'][0][0]: names[t['nodes'][0][1]]}
                todo = [n for n in t['nodes'] if n[3]]
                if how == 'partial':
                    todo = todo[:max(0, len(todo) - 1)]
                if how != 'absent':
                    for k, _nm, el, _p, _nn in todo:
                        nb = [b if a == k else a for a, b in t['edges'] if k in (a, b)]
                        keyof[k] = new_atom(keyof[t['nodes'][0][0]], el, [keyof[x] for x in nb if x in keyof])
                used.append('request-%s-%s' % (w, how))
            if rng.random() < 0.3:                                 # an atom nothing accounts for, on a residue with a request
                new_atom(names['CA'], 'F', [names['CA']])
                used.append('unrecognised-next-to-request')
        elif rng.random() < 0.7:
            d = rng.choice(['phos', 'po', 'oh', 'oph', 'nme', 'cter', 'unknownF', 'po3', 'oh-oph', 'oh-twice', 'ring'])
            anchor, atoms = DECOR[d]
            new = []
            for el, to in atoms:
                new.append(new_atom(names[anchor], el, [names[anchor] if x == 'anchor' else new[x] for x in (to if isinstance(to, list) else [to])]))
            used.append(d)
    for n in nodes:
        r = next(i for i, names in enumerate(byres) if info[names['CA']]['resid'] == n['resid'])
        n['request'] = requests.get(r, [])
    tsel = list(TEMPLATES)
    rng.shuffle(tsel)
    order = list(range(len(nodes)))
    if rng.random() < 0.5:
        rng.shuffle(order)
    return {'nodes': nodes, 'edges': edges, 'insertion': [nodes[i]['id'] for i in order]}, tsel, used


# exhaustive small scope: the inputs are the states of spec/PTMSmall.tla
SMALL_POOL = [t for t in TEMPLATES if t['name'] in ('OH', 'PO', 'OPH', 'PHOS', 'DIOL')] + [
    {'name': 'OBRIDGE', 'nodes': [('a', 'CB', 'C', False, ''), ('b', 'CB', 'C', False, ''), ('o', 'OB', 'O', True, '')], 'edges': [('a', 'o'), ('o', 'b')]}]


def small_case(inp):
    """State of PTMSmall -> molecule description: atoms 1 / 2 of the model are CB of residue 1 / 2, the others are flagged."""
    nodes, edges, byres, key = _peptide(random.Random(0), 2)
    for n in nodes:
        n['resid'] = 1 if n['id'] < byres[1]['N'] else 2
    ids = {1: byres[0]['CB'], 2: byres[1]['CB']}
    flagged = sorted(inp['el'])
    for f in flagged:
        ids[f] = key
        key += 1
    nb = {f: set() for f in flagged}
    for a, b in inp['edges']:
        edges.append([ids[a], ids[b]])
        nb[b].add(a)
        if a in nb:
            nb[a].add(b)
    resid = {}
    for f in flagged:                                   # listed with the lowest residue its group is bonded to (1 when to none)
        comp, todo = {f}, [f]
        while todo:
            for y in nb[todo.pop()]:
                if y in nb and y not in comp:
                    comp.add(y)
                    todo.append(y)
        anchors = {y for x in comp for y in nb[x] if y in (1, 2)}
        resid[f] = min(anchors) if anchors else 1
    for i, f in enumerate(flagged, 1):
        nodes.append({'id': ids[f], 'resid': resid[f], 'chain': 'A', 'icode': '', 'name': 'X%d' % i, 'el': inp['el'][f], 'ptm': True})
    return {'nodes': nodes, 'edges': edges, 'insertion': [n['id'] for n in nodes]}, [SMALL_POOL[i - 1] for i in sorted(inp['ts'])]


def _small_chunk(states):
    out = []
    for inp in states:
        mol_d, templates = small_case(inp)
        e = run_real(mol_d, templates)
        e.update({'family': 'small', 'used': ['small scope'], 'tnames': [t['name'] for t in templates], 'scenario': {'gen': [mol_d, [t['name'] for t in templates]]}})
        out.append(e)
    return out


# ----------------------------------------------------------------------------------------------------------------------
def build(mol_d, templates, repair=False):
    """Real objects: a force field holding the templates as Modification (and the residue as Block), the molecule."""
    from vermouth.molecule import Molecule, Modification, Block
    from vermouth.forcefield import ForceField
    ff = ForceField(name='verif_c14')
    for t in templates:
        m = Modification(force_field=ff)
        m.name = t['name']
        for key, name, el, ptm, newname in t['nodes']:
            attrs = {'atomname': name, 'element': el, 'PTM_atom': ptm}
            if newname:
                attrs['replace'] = {'atomname': newname}
            m.add_node(key, **attrs)
        m.add_edges_from(t['edges'])
        ff.modifications[t['name']] = m
    if repair:
        blk = Block(force_field=ff)
        blk.name = 'RES'
        for name, el in BASE:
            blk.add_node(name, atomname=name, element=el, resname='RES')
        blk.add_edges_from(BASE_EDGES)
        ff.blocks['RES'] = blk
    mol = Molecule(force_field=ff)
    byid = {n['id']: n for n in mol_d['nodes']}
    for nid in mol_d['insertion']:
        n = byid[nid]
        attrs = dict(resid=n['resid'], resname='RES', atomname=n['name'], element=n['el'], chain=n.get('chain', 'A'), insertion_code=n.get('icode', ''), atomid=nid + 1)
        if n['ptm']:
            attrs['PTM_atom'] = True
        if n.get('request'):
            attrs['modification'] = list(n['request'])
        mol.add_node(nid, **attrs)
    mol.add_edges_from(mol_d['edges'])
    return mol


def run_real(mol_d, templates, repair=False):
    mol = build(mol_d, templates, repair)
    dropped = []
    if repair:
        import vermouth.processors.repair_graph as rg
        before = {k: dict(d) for k, d in mol.nodes(data=True)}
        mol = rg.RepairGraph(include_graph=False).run_molecule(mol)
        dropped = [{'key': k, 'resid': d['resid'], 'name': d['atomname'], 'el': d['element'], 'chain': d['chain'], 'req': list(d.get('modification', []))}
                   for k, d in before.items() if k not in mol.nodes]
    e = R.record_canonicalize(mol)
    e['dropped'] = dropped
    return e


def _run_chunk(args):
    n, seed, family = args
    rng = random.Random(seed)
    out = []
    for _ in range(n):
        mol_d, templates, used = (make_case if family == 'synthetic' else make_requested_case)(rng)
        try:
            e = run_real(mol_d, templates, repair=(family == 'requested'))
        except Exception as exc:      # noqa   (RepairGraph of the requested family)
            e = {'mol': {'nodes': [], 'adj': []}, 'templates': [], 'calls': [], 'final': [], 'warnings': 0, 'dropped': [],
                 'err': 'RepairGraph raised %r' % (exc,), 'keys': [], 'shared_label_lists': [], 'frontend_failed': True}
        e.update({'family': family, 'used': used, 'tnames': [t['name'] for t in templates], 'scenario': {'gen': [mol_d, [t['name'] for t in templates]]}})
        out.append(e)
    return out


SIGNATURES = {}      # D16a/b, D17, D27, D28 are fixed in /repo: their inputs are generated and judged like any other


# ----------------------------------------------------------------------------------------------------------------------
def _judge(shard):
    import shutil
    work = tlc.scratch('c14_')
    try:
        tf = tlc.write_json(work, 'trace.json', [R.slim(e) for e in shard])
        res = tlc.run('Trace_PTM', 'SPECIFICATION Spec\n', dump=True, env={'TRACE_FILE': tf}, workdir=work, workers=1, timeout=3400)
        return res.distinct, res.generated, {st['tid']: (st['verdict'], st['note']) for st in res.states() if st['verdict'] != 'pending'}
    finally:
        shutil.rmtree(work, ignore_errors=True)


def _new_stats():
    return {'runs': 0, 'groups_identified': 0, 'groups_removed': 0, 'requested_groups_identified': 0, 'runs_with_atoms_dropped_by_request': 0,
            'atoms_dropped_by_request': 0, 'unjudged': {}, 'decorations': {}, 'identified': {}, 'verdicts': {}}


def _summary(e, v, note):
    """What the statistics need from one judged run (the run itself travels on only when it was rejected)."""
    import hashlib
    import json
    ident, nid, nrm, nreq = {}, 0, 0, 0
    for c in e['calls']:
        if c['outcome'] == 'identified':
            nid += 1
        else:
            nrm += 1
        for s in c['cover']:
            nm = e['templates'][s['t'] - 1]['name'] if s['t'] else '?'
            req = any(s['t'] in e['mol']['nodes'][a - 1]['mods'] for a, _k in s['match'])
            nm += ' (requested)' if req else ''
            ident[nm] = ident.get(nm, 0) + 1
            nreq += bool(req)
    h = hashlib.sha1(json.dumps([e['mol'], e['templates']], sort_keys=True).encode()).hexdigest()[:16] if e['calls'] else None
    rejected = v != 'ok' and not v.startswith('unjudged:')
    sc = None
    if rejected:
        sc = {k: e[k] for k in e if k != 'final'}
        sc['final_absent'] = [i for i, f in enumerate(e['final'], 1) if not f['present']]
        sc['verdict'] = v
    return {'family': e['family'], 'used': e['used'], 'verdict': v, 'note': note, 'identified': ident, 'n_identified': nid, 'n_removed': nrm, 'n_requested': nreq,
            'hash': h, 'scenario': sc}


def _account(sm, allstats, ev, vd):
    stats = allstats.setdefault(sm['family'], _new_stats())
    stats['runs'] += 1
    ev.traces += 1
    ev.evaluations += 1
    v, note = sm['verdict'], sm['note']
    for u in sm['used']:
        stats['decorations'][u] = stats['decorations'].get(u, 0) + 1
    for nm, k in sm['identified'].items():
        stats['identified'][nm] = stats['identified'].get(nm, 0) + k
    stats['groups_identified'] += sm['n_identified']
    stats['groups_removed'] += sm['n_removed']
    stats['requested_groups_identified'] += sm['n_requested']
    if note.startswith('atoms-dropped-by-request'):
        stats['runs_with_atoms_dropped_by_request'] += 1
        stats['atoms_dropped_by_request'] += int(note.split(':')[1])
    if sm['hash']:
        ev.nontrivial.add(sm['hash'])
    key = v.split(' atom=')[0]
    stats['verdicts'][key] = stats['verdicts'].get(key, 0) + 1
    if v.startswith('unjudged:'):
        stats['unjudged'][v] = stats['unjudged'].get(v, 0) + 1
    elif v != 'ok':
        vd.violation('trace-rejected', sm['scenario'], '%s %s: %s' % (sm['family'], sm['used'], v))


def judge_events(events, ev, vd, nshards=None, allstats=None):
    """One round of TLC processes over events held by the caller (each gets its 'verdict'); statistics per family."""
    judged = [e for e in events if not e.get('frontend_failed')]
    big = [e for e in judged if len(e['mol']['nodes']) > 100]
    rest = [e for e in judged if len(e['mol']['nodes']) <= 100]
    bins = [[] for _ in range(min(len(big), max(1, (nshards or tlc.NCPU) // 2)))]          # large molecules: balanced over half of the processes
    for e in sorted(big, key=lambda e: -len(e['mol']['nodes'])):
        min(bins, key=lambda b: sum(len(x['mol']['nodes']) for x in b)).append(e)
    shards = bins + (common.chunks(rest, max(1, (nshards or tlc.NCPU) - len(bins))) if rest else [])
    outs = []
    if shards:
        with mp.Pool(min(tlc.NCPU, len(shards))) as pool:
            outs = pool.map(_judge, shards, chunksize=1)
    allstats = {} if allstats is None else allstats
    for shard, (d, g, verdicts) in zip(shards, outs):
        ev.states += d
        ev.transitions += g
        for i, e in enumerate(shard, 1):
            v, note = verdicts.get(i, ('no-verdict', ''))
            if e['err']:
                v = e['err']
            e['verdict'] = v
            _account(_summary(e, v, note), allstats, ev, vd)
    for e in events:
        if e.get('frontend_failed'):
            e['verdict'] = e['err']
            _account(_summary(e, e['err'], ''), allstats, ev, vd)
    return allstats


def _small_job(states):
    """Small-scope inputs: real runs and their judgement in one worker; only summaries travel back (90 000 runs in thorough)."""
    events = _small_chunk(states)
    d, g, verdicts = _judge(events)
    out = []
    for i, e in enumerate(events, 1):
        v, note = verdicts.get(i, ('no-verdict', ''))
        out.append(_summary(e, e['err'] or v, note))
    return d, g, out


# ----------------------------------------------------------------------------------------------------------------------
# real data
def _real_cases(tier):
    D, N = R.DEFAULT, R.NEUTRAL
    q = [
        # termini: requested (the command always requests them), neutral, not requested (library use), `none`
        dict(structure='dipro', edits=[], mods=D, label='dipro default termini (C-ter asked of a COOH terminus)'),
        dict(structure='dipro', edits=[], mods=N, label='dipro -nt'),
        dict(structure='dipro', edits=[], mods=[], label='dipro, termini not requested'),
        dict(structure='sheet', edits=[], mods=[], label='sheet, termini not requested (NH3+ / COO-)'),
        dict(structure='sheet', edits=[['cooh', 'A:29'], ['strip-h', 'A:1', 'N', 1]], mods=[], label='sheet NH2 / COOH termini by atoms, not requested'),
        dict(structure='sheet', edits=[['cooh', 'A:29'], ['strip-h', 'A:1', 'N', 1]], mods=N, label='sheet NH2 / COOH termini by atoms and -nt'),
        dict(structure='sheet', edits=[['cooh', 'A:29']], mods=[['nter', 'none'], ['cter', 'none']], label='sheet -nter none -cter none'),
        # protonation states by atoms, alone and several, and atoms nothing explains
        dict(structure='sheet', edits=[['protonate', 'A:4', 'OE1', 'HE1']], mods=D, label='sheet GLU4-HE1'),
        dict(structure='helix', edits=[['protonate', 'A:4', 'OE2', 'HE2'], ['protonate', 'A:8', 'OE1', 'HE1'], ['strip-h', 'A:2', 'NZ', 1], ['halogen', 'A:6', 'CB'],
                                       ['hydroxyl', 'A:6', 'CG1']], mods=D, label='helix GLU-HE2 GLU-HE1 LYS-LSN + fluorine and hydroxyl on ILE6 (two groups nothing explains in one residue)'),
        dict(structure='trpcage', edits=[['protonate', 'A:9', 'OD1', 'HD1'], ['strip-h', 'A:8', 'NZ', 2], ['halogen', 'A:2', 'CB']], mods=N,
             label='trpcage -nt ASP9-HD1, LYS8 with one hydrogen (no modification), fluorine'),
        dict(structure='hst5', edits=[['protonate', '3', 'ND1', 'HD1'], ['protonate', '16', 'OE2', 'HE2'], ['protonate', '1', 'OD2', 'HD2']], mods=D,
             label='hst5 HIS3-HD GLU16-HE2 and ASP1-HD2 on the requested N terminus'),
        dict(structure='lysmodf', edits=[], mods=D, label='prot_modf_charmm as shipped (GLU7 LYS33 ASP18 HIS15)'),
        # requests (-modify), alone, several, on a terminal residue
        dict(structure='sheet', edits=[], mods=[['GLU4', 'GLU-HE1'], ['LYS', 'LYS-LSN'], ['TYR3', 'TYRPHOS']] + D, label='sheet -modify GLU4:GLU-HE1 LYS:LYS-LSN TYR3:TYRPHOS'),
        dict(structure='sheet', edits=[['protonate', 'A:4', 'OE1', 'HE1']], mods=[['A-GLU4', 'GLU-HE1']] + D, label='sheet GLU4-HE1 by atoms and requested'),
        dict(structure='sheet', edits=[['protonate', 'A:29', 'OE2', 'HE2']], mods=D, label='sheet GLU29-HE2 on the requested C terminus'),
        dict(structure='sheet', edits=[['protonate', 'A:29', 'OE2', 'HE2']], mods=[['A-GLU29', 'GLU-HE2']] + D, label='sheet -modify GLU29:GLU-HE2 on the C terminus (two requests, one residue)'),
        dict(structure='sheet', edits=[['protonate', 'A:29', 'OE2', 'HE2']], mods=[], label='sheet GLU29-HE2 and C terminus, nothing requested'),
        dict(structure='hst5', edits=[], mods=[['HIS3', 'HIS-HP'], ['HIS7', 'HIS-HD'], ['GLU16', 'GLU-HE1']] + N, label='hst5 -modify HIS3:HIS-HP HIS7:HIS-HD GLU16:GLU-HE1 -nt'),
        # two chains in one molecule; the same modification on several residues
        dict(structure='3i40', edits=[], mods=D, label='3i40 as shipped (chains A and B joined by disulfides)'),
        dict(structure='helix', edits=[['protonate', 'A:4', 'OE1', 'HE1'], ['protonate', 'A:5', 'OE1', 'HE1'], ['protonate', 'A:5', 'OE2', 'HE2']], mods=D,
             label='helix GLU4-HE1, GLU5-HE1-HE2'),
    ]
    if tier == 'quick':
        return q
    t = [
        dict(structure='trpcage', edits=[['phospho', 'A:3', 'OH']], mods=D, label='trpcage phosphotyrosine 3'),
        dict(structure='trpcage', edits=[['phospho', 'A:3', 'OH'], ['strip-h', 'A:8', 'NZ', 1], ['protonate', 'A:9', 'OD2', 'HD2'], ['halogen', 'A:2', 'CB']], mods=[],
             label='trpcage phosphotyrosine LYS-LSN ASP-HD2 fluorine, termini not requested'),
        dict(structure='hst5', edits=[['phospho', '10', 'OH'], ['halogen', '4', 'CB'], ['hydroxyl', '9', 'CA'], ['protonate', '16', 'OE2', 'HE2'], ['strip-h', '5', 'NZ', 1],
                                      ['strip-h', '11', 'NZ', 2], ['protonate', '3', 'ND1', 'HD1']], mods=[], label='hst5 seven changes, termini not requested'),
        dict(structure='hst5', edits=[['phospho', '24', 'OH']], mods=D, label='hst5 phosphotyrosine on the requested C terminus'),
        dict(structure='hst5', edits=[['phospho', '24', 'OH']], mods=[], label='hst5 phosphotyrosine on the C terminus, nothing requested'),
        dict(structure='sheet', edits=[['phospho', 'A:5', 'OH'], ['phospho', 'A:10', 'OH']], mods=N, label='sheet two phosphotyrosines -nt'),
        dict(structure='villin', edits=[['protonate', 'A:44', 'OD1', 'HD1'], ['protonate', 'A:46', 'OD2', 'HD2'], ['protonate', 'A:45', 'OE1', 'HE1']], mods=D,
             label='villin (no hydrogens in the file) ASP-HD1 ASP-HD2 GLU-HE1'),
        dict(structure='villin', edits=[], mods=[['nter', 'NCAP-ter'], ['cter', 'CCAP-ter']], label='villin capped termini requested'),
        dict(structure='villin', edits=[], mods=[['LYS', 'LYS-HZ3'], ['GLU72', 'GLU-HE2'], ['ASP', 'ASP-HD2']] + N, label='villin -modify LYS:LYS-HZ3 GLU72:GLU-HE2 ASP:ASP-HD2 -nt'),
        dict(structure='helix', edits=[], mods=N, label='helix -nt'),
        dict(structure='helix', edits=[], mods=[['GLU', 'GLU-HE1'], ['LYS', 'LYS-LSN']] + D, label='helix every GLU and LYS requested'),
        dict(structure='trpcage', edits=[], mods=[['TYR3', 'TYRPHOS'], ['ASP9', 'ASP-HD2'], ['LYS8', 'LYS-LSN']] + D, label='trpcage three requests'),
        dict(structure='3i40', edits=[['protonate', 'A:4', 'OE2', 'HE2'], ['protonate', 'B:13', 'OE1', 'HE1']], mods=N, label='3i40 -nt with GLU A4-HE2 and B13-HE1'),
        dict(structure='lysmodf', edits=[], mods=N, label='prot_modf_charmm -nt'),
        dict(structure='lysmodf', edits=[], mods=[], label='prot_modf_charmm, termini not requested (LYS1: N-ter and LYS-HZ3 in one residue)'),
    ]
    return q + t


def _real_family(cases):
    R._load()                                       # once, in the parent: every case runs in a fresh fork of this state
    ctx = mp.get_context('fork')
    with ctx.Pool(min(tlc.NCPU, len(cases)), maxtasksperchild=1) as pool:
        outs = pool.map(R._case_child, cases, chunksize=1)
    events, problems = [], []
    for case, (kind, val) in zip(cases, outs):
        if kind == 'ok':
            if not val:
                problems.append('%s: no molecule reached CanonicalizeModifications' % case['label'])
            events.extend(val)
        else:
            problems.append(val)
    return events, problems


def _real_features(events):
    """Which features the real runs exercised (read off the records; nothing is decided here)."""
    f = {}

    def hit(k):
        f[k] = f.get(k, 0) + 1
    for e in events:
        ts = e['templates']
        if any(n['req'] for n in e['mol']['nodes']) or True:
            pass
        for c in e['calls']:
            if c['outcome'] == 'unknown':
                hit('unknown-input removal')
            for s in c['cover']:
                t = ts[s['t'] - 1]
                req = any(s['t'] in e['mol']['nodes'][a - 1]['mods'] for a, _k in s['match'])
                hit('%s %s' % (t['name'], 'requested' if req else 'by atoms'))
                for a, k in s['match']:
                    for key, val in t['nodes'][k - 1]['rep']:
                        hit('replace %s -> %s' % (key, 'None' if val == 'None' else 'value'))
            if len(c['cover']) >= 2:
                hit('several modifications in one group of residues')
            if len(c['ptms']) >= 2:
                hit('several groups of atoms in one call')
        if e['dropped']:
            hit('atoms dropped by RepairGraph on a residue with a request')
        if len({(n['resid']) for n in e['mol']['nodes']}) < len({n['res'] for n in e['mol']['nodes']}):
            hit('two residues sharing a number in one molecule')
    return f


REAL_MUST = ['N-ter requested', 'C-ter requested', 'NH2-ter requested', 'COOH-ter requested', 'N-ter by atoms', 'C-ter by atoms', 'NH2-ter by atoms',
             'COOH-ter by atoms', 'GLU-HE1 by atoms', 'GLU-HE2 by atoms', 'ASP-HD1 by atoms', 'ASP-HD2 by atoms', 'LYS-LSN by atoms', 'LYS-HZ3 by atoms',
             'HIS-HD by atoms', 'GLU-HE1 requested', 'LYS-LSN requested', 'TYRPHOS requested', 'HIS-HP requested', 'replace atomname -> None',
             'replace atomname -> value', 'unknown-input removal', 'several modifications in one group of residues',
             'atoms dropped by RepairGraph on a residue with a request', 'two residues sharing a number in one molecule']
REAL_MUST_THOROUGH = ['TYRPHOS by atoms', 'NCAP-ter requested', 'CCAP-ter requested', 'LYS-HZ3 requested']


def run(tier, seed, ev, vd):
    ev.rule = ('synthetic: peptide-like molecules of 1-4 residues with 0-2 decorations per residue from 15 kinds (explainable, sub-pattern, same '
               'elements / different connectivity, placement that must be undone, two on one residue, unexplainable), bridges over two / three residues, two '
               'bridges on one pair / sharing a residue, two chains, against a random subset and order of 12 modification templates; requested: residues with '
               '1-2 `modification` requests taken through the real RepairGraph; real: the martinize2 front end on shipped structures with the charmm '
               'modifications. Non-trivial = at least one group of extra atoms; distinct by (molecule entering CanonicalizeModifications, templates).')
    ev.assumptions = ['every template has at least one added (PTM) atom and unique atom names',
                      'an anchor is only renamed by a template that is the sole user of that anchor name (groups are processed one after the other; a renamed anchor no longer matches by name)',
                      'a group is removed as a whole when it has no exact cover (allowed by the statement), and must be identified when one exists',
                      'candidate placements lie within the residues (chain, resid, resname, insertion code) of the atoms the group is bonded to; an unrecognised atom listed with a residue it is not bonded to is not generated',
                      'a requested modification is judged when it has exactly one placement by atom name on the atoms RepairGraph labelled with it and these placements account for all labelled atoms of the group; otherwise the run is counted as unjudged (two requests naming the same new atom, a request on a residue that lacks the anchor)',
                      'an unrecognised atom bonded to an atom of a requested modification of ANOTHER residue is not generated',
                      'unrecognised atoms that RepairGraph removes from a residue carrying a request (a request states what the residue shall be: -nt on an NH3+ terminus, `none`) are reported per run by TLC (Note) and counted, not flagged: no log record accompanies the removal',
                      'the exact cover must be lexicographically largest in the numbers of added atoms ("(3, 2) > (3, 1, 1) > (2, 2, 1)", the documented preference); this clause is evaluated last',
                      'label multiplicity is not judged (labels are compared as sets)',
                      'real runs: each case in a fresh process forked after the force fields and the mapping directory were loaded (the state of a martinize2 run)']
    n_syn, n_req = (640, 240) if tier == 'quick' else (12000, 4000)
    jobs = [(n_syn // tlc.NCPU, seed * 4513 + i, 'synthetic') for i in range(tlc.NCPU)] + [(n_req // tlc.NCPU, seed * 7919 + 100 + i, 'requested') for i in range(tlc.NCPU)]
    cases = _real_cases(tier)
    real_events, problems = _real_family(cases)                      # before any other pool: forks of the loaded parent
    with mp.Pool(tlc.NCPU) as pool:
        parts = pool.map(_run_chunk, jobs)
    events = [e for p in parts for e in p]
    res = tlc.run('PTMSmall', 'SPECIFICATION Spec\nCONSTANTS K = %d\nNT = %d\n' % (2 if tier == 'quick' else 3, len(SMALL_POOL)), dump=True)
    ev.add_tlc('MC PTMSmall (input domain)', res)
    ev.exhaustive = True                             # the small-scope domain is enumerated completely; the other families are samples
    inputs = [st['inp'] for st in res.states()]
    if len(inputs) != res.distinct or not inputs:
        raise tlc.MachineryError('PTMSmall: %d states dumped, %d found' % (len(inputs), res.distinct))
    allstats = {}
    with mp.Pool(tlc.NCPU) as pool:
        for d, g, sms in pool.imap_unordered(_small_job, common.chunks(inputs, max(tlc.NCPU, len(inputs) // 1500))):
            ev.states += d
            ev.transitions += g
            for sm in sms:
                _account(sm, allstats, ev, vd)
    judge_events(events + real_events, ev, vd, allstats=allstats)
    for fam in ('small', 'synthetic', 'requested', 'real'):
        allstats.setdefault(fam, _new_stats())
        ev.extra[fam] = allstats[fam] if fam != 'small' else {k: v for k, v in allstats[fam].items() if k != 'decorations'}
    ev.extra['small']['inputs'] = len(inputs)
    ev.extra['real_features'] = feats = _real_features(real_events)
    ev.extra['real_cases_not_run'] = problems
    ev.tlc_runs.append({'run': 'TRACE Trace_PTM', 'events': len(events) + len(real_events)})
    # vacuity (only meaningful when nothing was rejected: a rejected run explains a family that is missing)
    if vd.violations:
        return
    syn, rq, sm = allstats['synthetic'], allstats['requested'], allstats['small']
    for fam in ('synthetic', 'requested', 'small', 'real'):
        if allstats[fam]['groups_identified'] == 0 or allstats[fam]['groups_removed'] == 0:
            raise tlc.MachineryError('vacuous: %s family: %s' % (fam, {k: allstats[fam][k] for k in ('groups_identified', 'groups_removed')}))
    for nm in [t['name'] for t in SMALL_POOL]:
        if not sm['identified'].get(nm):
            raise tlc.MachineryError('vacuous: small scope never had %s identified' % nm)
    for k in ('tri-bridge', 'bridge-same-pair', 'bridges-sharing-a-residue', 'po3', 'oh-oph', 'oh-twice', 'ring', 'thiol', 'same-number-other-chain', 'same-number-other-icode'):
        if not syn['decorations'].get(k):
            raise tlc.MachineryError('vacuous: family %r never generated' % k)
    for st_, fam, names in ((syn, 'synthetic', ['TRI', 'ABRIDGE', 'BRIDGE', 'PO3', 'DIOL', 'OPH', 'OH', 'CTER', 'THIOL']),
                            (rq, 'requested', ['PHOS (requested)', 'CTER (requested)', 'NME (requested)', 'OH (requested)', 'PO3 (requested)'])):
        for nm in names:
            if not st_['identified'].get(nm):
                raise tlc.MachineryError('vacuous: %s family never had %s identified' % (fam, nm))
    dec = rq['decorations']
    if not dec.get('unrecognised-next-to-request') or rq['runs_with_atoms_dropped_by_request'] == 0:
        raise tlc.MachineryError('vacuous: RepairGraph never dropped an atom next to a request')
    if not any(k.startswith('request-') and k.endswith('-absent') for k in dec) or not any(k.endswith('-partial') for k in dec):
        raise tlc.MachineryError('vacuous: no requested modification whose atoms had to be rebuilt')
    if sum(rq['unjudged'].values()) > 0.2 * n_req:
        raise tlc.MachineryError('too many requested runs outside the specification: %s' % rq['unjudged'])
    if len(problems) > (0 if tier == 'quick' else 2):
        raise tlc.MachineryError('real cases that did not run: %s' % problems)
    for k in REAL_MUST + (REAL_MUST_THOROUGH if tier != 'quick' else []):
        if not feats.get(k):
            raise tlc.MachineryError('vacuous: real family never exercised %r (%s)' % (k, sorted(feats)))
    e0 = next(e for e in events if len(e['calls']) >= 2 and not e['err'])
    ev.sample({'kind': 'recorded synthetic run judged by TLC', 'decorations': e0['used'], 'templates': e0['tnames'], 'calls': e0['calls'], 'warnings': e0['warnings'],
               'verdict': e0['verdict']})
    e1 = next(e for e in events if e['family'] == 'requested' and e['calls'] and not e['err'])
    ev.sample({'kind': 'recorded run with requests through RepairGraph', 'used': e1['used'], 'calls': e1['calls'], 'dropped': e1['dropped'], 'verdict': e1['verdict']})
    e2 = next(e for e in real_events if len(e['calls']) >= 3)
    ev.sample({'kind': 'recorded front-end run', 'case': e2['scenario']['case'], 'atoms': len(e2['mol']['nodes']), 'calls': e2['calls'], 'warnings': e2['warnings'],
               'dropped': e2['dropped'], 'verdict': e2['verdict']})


def replay(sc):
    scen = sc.get('scenario', {})
    if 'case' in scen:
        R._load()
        kind, val = R._case_child(scen['case'])
        events = val if kind == 'ok' else []
        print(kind, val if kind != 'ok' else '')
    elif 'gen' in scen:
        mol_d, tnames = scen['gen']
        tdict = {t['name']: t for t in TEMPLATES + SMALL_POOL}
        for n in mol_d['nodes']:
            n['id'] = int(n['id'])
        e = run_real(mol_d, [tdict[n] for n in tnames], repair=(sc.get('family') == 'requested'))
        e.update({'family': sc.get('family', 'synthetic'), 'used': sc.get('used', []), 'tnames': tnames, 'scenario': scen})
        events = [e]
    else:
        events = []
    ev = common.Evidence(PID, 'quick', 0)
    vd = common.Verdicts(PID, ev)
    if events:
        judge_events(events, ev, vd, nshards=1)
    import os
    for k, p, d in vd.violations:
        os.path.exists(p) and os.remove(p)
    for e in events:
        print('%s %s molecule %s: %s' % (e['family'], e['used'], e['scenario'].get('molecule', 0), e['verdict']))
        for c in e['calls']:
            print('   %s %s -> %s' % (c['outcome'], [(p['atoms'], p['anchors']) for p in c['ptms']], [(e['templates'][x['t'] - 1]['name'], x['match']) for x in c['cover']]))
        print('   warnings %d, dropped by request %s' % (e['warnings'], [(d['resid'], d['name']) for d in e['dropped']]))
    return 1 if any(e['verdict'] != 'ok' and not e['verdict'].startswith('unjudged') for e in events) else 0


def selftest(seed):
    import os
    events = [e for e in _run_chunk((60, seed, 'synthetic')) if any(c['outcome'] == 'identified' for c in e['calls']) and not e['err']]
    good = events[0]
    bad = []
    b = copy.deepcopy(events[1])                          # all labels wiped
    for f in b['final']:
        f['labels'] = []
    bad.append(('labels wiped', b))
    b = copy.deepcopy(events[2])                          # one placement reported twice
    c = next(c for c in b['calls'] if c['outcome'] == 'identified')
    c['cover'] = c['cover'] + c['cover'][:1]
    bad.append(('placement twice', b))
    b = copy.deepcopy(next(e for e in events if any(c['outcome'] == 'unknown' for c in e['calls'])))          # removal without warning
    b['warnings'] = 0
    bad.append(('warning dropped', b))
    b = copy.deepcopy(next(e for e in events if 'oh-twice' in e['used'] and 'DIOL' in e['tnames'] and 'OH' in e['tnames']
                           and any(e['templates'][s['t'] - 1]['name'] == 'DIOL' for c in e['calls'] for s in c['cover'])))       # smaller modifications preferred
    for c in b['calls']:
        for s in list(c['cover']):
            if b['templates'][s['t'] - 1]['name'] == 'DIOL':
                oh = 1 + [t['name'] for t in b['templates']].index('OH')
                atoms = {k: a for a, k in s['match']}
                c['cover'].remove(s)
                c['cover'] += [{'t': oh, 'match': [[atoms[1], 1], [atoms[2], 2]]}, {'t': oh, 'match': [[atoms[1], 1], [atoms[3], 2]]}]
                for f in b['final']:
                    f['labels'] = [oh if l == s['t'] else l for l in f['labels']]
                for a in (atoms[2], atoms[3]):
                    b['final'][a - 1]['attrs'] = [['atomname', 's:OGX']]
    bad.append(('OH twice instead of DIOL', b))
    b = copy.deepcopy(next(e for e in events if any(c['outcome'] == 'unknown' for c in e['calls'])))          # the atoms of an unknown group kept
    for c in b['calls']:
        if c['outcome'] == 'unknown':
            for p_ in c['ptms']:
                for a in p_['atoms']:
                    b['final'][a - 1] = {'present': True, 'labels': [], 'attrs': b['mol']['nodes'][a - 1]['attrs']}
    bad.append(('unknown atoms kept', b))
    b = copy.deepcopy(next(e for e in events if all(c['outcome'] == 'identified' for c in e['calls'])))           # a warning although nothing was removed
    b['warnings'] = 1
    bad.append(('warning without removal', b))
    more = [e for e in _run_chunk((400, seed + 7, 'synthetic')) if not e['err']]

    def tix(e, name):
        return 1 + e['tnames'].index(name)
    src = next(e for e in more if 'bridge' in e['used'] and 'THIOL' in e['tnames'] and any(s_['t'] == tix(e, 'BRIDGE') for c in e['calls'] for s_ in c['cover'])
               if 'BRIDGE' in e['tnames'])
    b = copy.deepcopy(src)                                # a bridge explained from one side only: the second anchor is not covered
    for c in b['calls']:
        for s_ in c['cover']:
            if s_['t'] == tix(b, 'BRIDGE'):
                atoms = {k: a for a, k in s_['match']}
                s_['t'], s_['match'] = tix(b, 'THIOL'), [[atoms[1], 1], [atoms[3], 2]]
    bad.append(('bridge covered from one side', b))
    src = next(e for e in more if 'ring' in e['used'] and {'OH', 'PO', 'OPH'} <= set(e['tnames'])
               and any(s_['t'] == tix(e, 'PO') for c in e['calls'] for s_ in c['cover']) and any(s_['t'] == tix(e, 'OH') for c in e['calls'] for s_ in c['cover']))
    b = copy.deepcopy(src)                                # OPH placed on the ring CB-O-P-CB: a subgraph, not an induced one
    for c in b['calls']:
        oh = [s_ for s_ in c['cover'] if s_['t'] == tix(b, 'OH')]
        po = [s_ for s_ in c['cover'] if s_['t'] == tix(b, 'PO')]
        adj = b['mol']['adj']
        for x in oh:
            for y in po:
                o = next(a for a, k in x['match'] if k == 2)
                ph = next(a for a, k in y['match'] if k == 2)
                cb = next(a for a, k in x['match'] if k == 1)
                if ph in adj[o - 1]:
                    c['cover'] = [s_ for s_ in c['cover'] if s_ is not x and s_ is not y] + [{'t': tix(b, 'OPH'), 'match': [[cb, 1], [o, 2], [ph, 3]]}]
    bad.append(('placement that is not induced', b))
    req = [e for e in _run_chunk((60, seed + 1, 'requested')) if not e['err'] and any(n['mods'] and n['ptm'] for n in e['mol']['nodes'])]
    good2 = req[0]
    b = copy.deepcopy(req[1])                             # an atom of a requested modification removed
    a = next(i for i, n in enumerate(b['mol']['nodes'], 1) if n['mods'] and n['ptm'])
    b['final'][a - 1] = {'present': False, 'labels': [], 'attrs': []}
    bad.append(('requested atom removed', b))
    b = copy.deepcopy(req[2])                             # the placement of a requested modification not reported
    for c in b['calls']:
        c['cover'] = [s for s in c['cover'] if not any(s['t'] in b['mol']['nodes'][x - 1]['mods'] for x, _k in s['match'])]
    bad.append(('requested placement missing', b))
    R._load()
    kind, real = R._case_child(dict(structure='sheet', edits=[['protonate', 'A:4', 'OE1', 'HE1']], mods=[['TYR3', 'TYRPHOS']] + R.DEFAULT, label='selftest'))
    assert kind == 'ok' and real, (kind, real)
    good3 = real[0]
    b = copy.deepcopy(good3)                              # `replace` not applied: the tyrosine hydrogen keeps its name
    hh = next(i for i, n in enumerate(b['mol']['nodes'], 1) if n['name'] == 'HH')
    b['final'][hh - 1]['attrs'] = [['atomname', 's:HH']]
    bad.append(('real: replace not applied', b))
    b = copy.deepcopy(good3)                              # the label written on the neighbouring residue as well
    he1 = next(i for i, n in enumerate(b['mol']['nodes'], 1) if n['name'] == 'HE1' and n['ptm'])
    t = next(s['t'] for c in b['calls'] for s in c['cover'] if any(a == he1 for a, _k in s['match']))
    other = next(i for i, n in enumerate(b['mol']['nodes'], 1) if n['res'] == b['mol']['nodes'][he1 - 1]['res'] + 1)
    b['final'][other - 1]['labels'] = b['final'][other - 1]['labels'] + [t]
    bad.append(('real: label on another residue', b))
    ev = common.Evidence(PID, 'quick', seed)
    vd = common.Verdicts(PID, ev)
    all_events = [good, good2, good3] + [b for _n, b in bad]
    for e in all_events:
        e.setdefault('scenario', {})
    judge_events(all_events, ev, vd, nshards=2)
    assert good['verdict'] == 'ok' and good2['verdict'] == 'ok' and good3['verdict'] == 'ok', (good['verdict'], good2['verdict'], good3['verdict'])
    for name, b in bad:
        assert b['verdict'] != 'ok' and not b['verdict'].startswith('unjudged'), (name, b['verdict'])
    print('selftest C14: untampered runs accepted; tampered runs rejected:')
    for name, b in bad:
        print('  %-32s -> %s' % (name, b['verdict']))
    for k, p, d in vd.violations:
        os.path.exists(p) and os.remove(p)
    return 0
