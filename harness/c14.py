"""C14 - every unrecognised atom is explained by a known modification or reported.

spec/PTM.tla        groups of unexplained atoms (Components / AnchorsOf), candidate placements (induced embeddings: anchors by
                    name on recognised atoms, added atoms by element on unexplained atoms), exact covers, JudgeCall / JudgeRun
spec/Trace_PTM.tla  TLC judges recorded runs of the real CanonicalizeModifications with identify_ptms interposed

Generated: peptide-like molecules of 1-4 residues carrying unexplained atoms, and a library of modifications that are
sub-patterns of one another, that share elements but differ in connectivity, that span two residues, two on one residue,
with renaming of anchors and of added atoms; atoms that match nothing."""
import logging
import multiprocessing as mp
import random

from . import common, tlc

PID = 'C14'

BASE = [('N', 'N'), ('CA', 'C'), ('C', 'C'), ('O', 'O'), ('CB', 'C')]
BASE_EDGES = [('N', 'CA'), ('CA', 'C'), ('C', 'O'), ('CA', 'CB')]

# templates: name, nodes (key, atomname, element, ptm, newname), edges
TEMPLATES = [
    {'name': 'PHOS', 'nodes': [('a', 'CB', 'C', False, ''), ('p', 'P', 'P', True, ''), ('o', 'OP1', 'O', True, '')], 'edges': [('a', 'p'), ('p', 'o')]},
    {'name': 'PO', 'nodes': [('a', 'CB', 'C', False, ''), ('p', 'PX', 'P', True, '')], 'edges': [('a', 'p')]},
    {'name': 'OH', 'nodes': [('a', 'CB', 'C', False, ''), ('o', 'OG', 'O', True, 'OGX')], 'edges': [('a', 'o')]},
    {'name': 'OPH', 'nodes': [('a', 'CB', 'C', False, ''), ('o', 'OB', 'O', True, ''), ('p', 'PB', 'P', True, 'PBX')], 'edges': [('a', 'o'), ('o', 'p')]},
    {'name': 'NME', 'nodes': [('a', 'N', 'N', False, ''), ('c', 'CN', 'C', True, '')], 'edges': [('a', 'c')]},
    {'name': 'BRIDGE', 'nodes': [('a', 'CB', 'C', False, ''), ('b', 'CB', 'C', False, ''), ('s', 'SB', 'S', True, '')], 'edges': [('a', 's'), ('s', 'b')]},
    {'name': 'CTER', 'nodes': [('a', 'C', 'C', False, 'CT'), ('o', 'OXT', 'O', True, '')], 'edges': [('a', 'o')]},     # the only template anchored on C: renaming the anchor cannot hide it from another template
]
# decorations: (anchor atom name, [(element, bonded to: 'anchor' | index of an earlier decoration atom)])
DECOR = {
    'phos': ('CB', [('P', 'anchor'), ('O', 0)]),
    'po': ('CB', [('P', 'anchor')]),
    'oh': ('CB', [('O', 'anchor')]),
    'oph': ('CB', [('O', 'anchor'), ('P', 0)]),
    'nme': ('N', [('C', 'anchor')]),
    'cter': ('C', [('O', 'anchor')]),
    'unknownF': ('CA', [('F', 'anchor')]),
    'unknown-chain': ('CB', [('O', 'anchor'), ('O', 0), ('O', 1)]),
    'phos-extra': ('CB', [('P', 'anchor'), ('O', 0), ('O', 0)]),
    'nme-twice': ('N', [('C', 'anchor'), ('C', 'anchor')]),          # the same modification placed twice on one anchor
    'oh-twice': ('CB', [('O', 'anchor'), ('O', 'anchor')]),
}


def make_case(rng):
    nres = rng.randint(1, 4)
    nodes, edges = [], []
    key = rng.choice([0, 7])
    byres = []
    resid = rng.choice([1, 10])
    for r in range(nres):
        names = {}
        for name, el in BASE:
            nodes.append({'id': key, 'resid': resid, 'name': name, 'el': el, 'ptm': False})
            names[name] = key
            key += 1
        for a, b in BASE_EDGES:
            edges.append([names[a], names[b]])
        if byres:
            edges.append([byres[-1]['C'], names['N']])
        byres.append(names)
        resid += rng.choice([1, 1, 3])
    used = []
    junk = 0
    for r, names in enumerate(byres):
        k = rng.choice([0, 1, 1, 2])
        anchors_used = set()
        for _ in range(k):
            d = rng.choice(sorted(DECOR))
            anchor, atoms = DECOR[d]
            if anchor in anchors_used:
                continue
            anchors_used.add(anchor)
            new = []
            for el, to in atoms:
                junk += 1
                nodes.append({'id': key, 'resid': nodes[[n['id'] for n in nodes].index(names[anchor])]['resid'], 'name': 'X%d' % junk, 'el': el, 'ptm': True})
                edges.append([names[anchor] if to == 'anchor' else new[to], key])
                new.append(key)
                key += 1
            used.append(d)
    if rng.random() < 0.25:                          # unexplained atoms bonded to nothing recognised (an ion, a hydroxide)
        r = rng.randrange(len(byres))
        rid = nodes[[n['id'] for n in nodes].index(byres[r]['CA'])]['resid']
        junk += 1
        nodes.append({'id': key, 'resid': rid, 'name': 'X%d' % junk, 'el': rng.choice(['O', 'Z']), 'ptm': True})
        key += 1
        if rng.random() < 0.5:
            junk += 1
            nodes.append({'id': key, 'resid': rid, 'name': 'X%d' % junk, 'el': 'H', 'ptm': True})
            edges.append([key - 1, key])
            key += 1
        used.append('floating')
    if len(byres) >= 2 and rng.random() < 0.3:      # a sulfur bridging the CB atoms of two residues
        a, b = rng.sample(range(len(byres)), 2)
        junk += 1
        nodes.append({'id': key, 'resid': nodes[[n['id'] for n in nodes].index(byres[a]['CB'])]['resid'], 'name': 'X%d' % junk, 'el': 'S', 'ptm': True})
        edges.append([byres[a]['CB'], key])
        edges.append([byres[b]['CB'], key])
        key += 1
        used.append('bridge')
    tsel = [t for t in TEMPLATES if rng.random() < 0.8]
    rng.shuffle(tsel)
    order = list(range(len(nodes)))
    if rng.random() < 0.5:
        rng.shuffle(order)
    return {'nodes': nodes, 'edges': edges, 'insertion': [nodes[i]['id'] for i in order]}, tsel, used


def _groups(mol):
    """Groups of unexplained atoms with the sorted residue numbers of their anchors (harness-side, for the signature only)."""
    import networkx as nx
    g = nx.Graph()
    g.add_nodes_from(n['id'] for n in mol['nodes'])
    g.add_edges_from(mol['edges'])
    info = {n['id']: n for n in mol['nodes']}
    flagged = {n['id'] for n in mol['nodes'] if n['ptm']}
    out = []
    for comp in nx.connected_components(g.subgraph(flagged)):
        anchors = {b for a in comp for b in g[a] if b not in flagged}
        out.append((comp, sorted(info[a]['resid'] for a in anchors)))
    return out


def _is_d17(kind, sc):
    """Known finding D17: AssertionError when two groups with different anchor-residue keys touch a common residue."""
    if 'AssertionError' not in str(sc.get('err', '')):
        return False
    groups = _groups(sc['mol'])
    return any(k1 != k2 and set(k1) & set(k2) for i, (_, k1) in enumerate(groups) for (_, k2) in groups[i + 1:])


SIGNATURES = {'D17': _is_d17}


class _Cap(logging.Handler):
    def __init__(self):
        super().__init__(level=logging.WARNING)
        self.n = 0

    def emit(self, record):
        if getattr(record, 'type', '') == 'unknown-input':
            self.n += 1


def run_real(mol_d, templates):
    import vermouth.processors.canonicalize_modifications as cm
    from vermouth.molecule import Molecule, Modification
    from vermouth.forcefield import ForceField
    ff = ForceField(name='verif_c14')
    tindex = {}
    for ti, t in enumerate(templates, 1):
        m = Modification(force_field=ff)
        m.name = t['name']
        for key, name, el, ptm, newname in t['nodes']:
            attrs = {'atomname': name, 'element': el, 'PTM_atom': ptm}
            if newname:
                attrs['replace'] = {'atomname': newname}
            m.add_node(key, **attrs)
        m.add_edges_from(t['edges'])
        ff.modifications[t['name']] = m
        tindex[id(m)] = ti
    mol = Molecule(force_field=ff)
    byid = {n['id']: n for n in mol_d['nodes']}
    for nid in mol_d['insertion']:
        n = byid[nid]
        attrs = dict(resid=n['resid'], resname='RES', atomname=n['name'], element=n['el'], chain='A', atomid=nid + 1)
        if n['ptm']:
            attrs['PTM_atom'] = True
        mol.add_node(nid, **attrs)
    mol.add_edges_from(mol_d['edges'])
    calls = []
    orig = cm.identify_ptms

    def spy(residue, residue_ptms, known_ptms):
        call = {'ptms': [{'atoms': sorted(a), 'anchors': sorted(b)} for a, b in residue_ptms], 'resnodes': sorted(residue.nodes),
                'outcome': 'unknown', 'cover': []}
        calls.append(call)
        result = orig(residue, residue_ptms, known_ptms)
        call['outcome'] = 'identified'
        call['cover'] = [{'t': tindex.get(id(ptm), 0), 'match': sorted([a, k] for a, k in match.items())} for ptm, match in result]
        return result
    cm.identify_ptms = spy
    cap = _Cap()
    logger = logging.getLogger('vermouth')
    logger.addHandler(cap)
    try:
        cm.CanonicalizeModifications().run_molecule(mol)
    finally:
        cm.identify_ptms = orig
        logger.removeHandler(cap)
    final = [{'id': k, 'name': d.get('atomname'), 'labels': [m.name for m in d.get('modifications', [])]} for k, d in mol.nodes(data=True)]
    return calls, final, cap.n


def _run_chunk(args):
    n, seed = args
    rng = random.Random(seed)
    out = []
    for _ in range(n):
        mol_d, templates, used = make_case(rng)
        e = {'mol': {'nodes': mol_d['nodes'], 'edges': mol_d['edges']}, 'insertion': mol_d['insertion'],
             'templates': [{'name': t['name'], 'nodes': [{'key': k, 'name': nm, 'el': el, 'ptm': p, 'newname': nn} for k, nm, el, p, nn in t['nodes']],
                            'edges': [list(x) for x in t['edges']]} for t in templates], 'used': used, 'err': ''}
        try:
            calls, final, nwarn = run_real(mol_d, templates)
        except Exception as exc:      # noqa
            calls, final, nwarn = [], [], 0
            e['err'] = 'CanonicalizeModifications raised %r' % (exc,)
        e.update({'calls': calls, 'final': final, 'warnings': nwarn})
        out.append(e)
    return out


def _judge(shard):
    work = tlc.scratch('c14_')
    tf = tlc.write_json(work, 'trace.json', [{k: e[k] for k in ('mol', 'templates', 'calls', 'final', 'warnings')} for e in shard])
    res = tlc.run('Trace_PTM', 'SPECIFICATION Spec\n', dump=True, env={'TRACE_FILE': tf}, workdir=work, workers=1, timeout=3400)
    return res.distinct, res.generated, {st['tid']: st['verdict'] for st in res.states() if st['verdict'] != 'pending'}


def judge_events(events, ev, vd):
    shards = common.chunks(events, tlc.NCPU)
    with mp.Pool(len(shards)) as pool:
        outs = pool.map(_judge, shards)
    fam = {}
    stats = {'groups_identified': 0, 'groups_removed': 0}
    for shard, (d, g, verdicts) in zip(shards, outs):
        ev.states += d
        ev.transitions += g
        for i, e in enumerate(shard, 1):
            ev.traces += 1
            ev.evaluations += 1
            v = verdicts.get(i, 'no-verdict')
            if e['err']:
                v = e['err']
            for u in e['used']:
                fam[u] = fam.get(u, 0) + 1
            for c in e['calls']:
                stats['groups_identified' if c['outcome'] == 'identified' else 'groups_removed'] += 1
            if e['calls']:
                ev.nontrivial_case([e['mol'], [t['name'] for t in e['templates']]])
            if v != 'ok':
                vd.violation('trace-rejected', e, '%s with %s: %s' % (e['used'], [t['name'] for t in e['templates']], v))
    return fam, stats


def run(tier, seed, ev, vd):
    ev.rule = ('peptide-like molecules of 1-4 residues with 0-2 decorations per residue from 9 kinds (explainable, sub-pattern, same '
               'elements / different connectivity, two on one residue, unexplainable) and optional two-residue bridges, against a random '
               'subset and order of 7 modification templates. Non-trivial = at least one group of unexplained atoms; distinct by input.')
    ev.assumptions = ['every template has at least one added (PTM) atom', 'an anchor is only renamed by a template that is the sole user of that anchor name (groups are processed one after the other; a renamed anchor no longer matches by name)', 'residues carry no pre-set modifications (the -modify route)',
                      'a group is removed as a whole when it has no exact cover (allowed by the statement), and must be identified when one exists']
    n = 640 if tier == 'quick' else 16000
    with mp.Pool(tlc.NCPU) as pool:
        parts = pool.map(_run_chunk, [(n // tlc.NCPU, seed * 4513 + i) for i in range(tlc.NCPU)])
    events = [e for p in parts for e in p]
    fam, stats = judge_events(events, ev, vd)
    ev.extra['decorations_generated'] = fam
    ev.extra.update(stats)
    if stats['groups_identified'] == 0 or stats['groups_removed'] == 0:
        raise tlc.MachineryError('vacuous: %s' % stats)
    ev.tlc_runs.append({'run': 'TRACE Trace_PTM', 'events': len(events)})
    e0 = next(e for e in events if len(e['calls']) >= 2)
    ev.sample({'kind': 'recorded run judged by TLC', 'decorations': e0['used'], 'templates': [t['name'] for t in e0['templates']],
               'calls': e0['calls'], 'warnings': e0['warnings']})


def replay(sc):
    print({k: sc[k] for k in ('used', 'calls', 'warnings')})
    return 0


def selftest(seed):
    import copy
    events = [e for e in _run_chunk((40, seed)) if any(c['outcome'] == 'identified' for c in e['calls']) and not e['err']]
    good = events[0]
    b1 = copy.deepcopy(events[1])
    for f in b1['final']:
        f['labels'] = []
    b2 = copy.deepcopy(events[2])
    c = next(c for c in b2['calls'] if c['outcome'] == 'identified')
    c['cover'] = c['cover'] + c['cover'][:1]
    ev = common.Evidence(PID, 'quick', seed)
    vd = common.Verdicts(PID, ev)
    judge_events([good, b1, b2], ev, vd)
    assert len(vd.violations) == 2, vd.violations
    print('selftest C14: tampered runs rejected:', [d.split(': ')[-1] for k, p, d in vd.violations])
    import os
    for k, p, d in vd.violations:
        os.path.exists(p) and os.remove(p)
    return 0
