"""C19 end to end: real bin/martinize2 runs with -mutate / -modify / -nter / -cter / -nt requests.

Every run executes the real `entry()` of bin/martinize2 in a freshly forked child (its own argument parsing, force-field loading,
pipeline, writers) in a scratch directory.  Harness-side interposition only:
  * `AnnotateMutMod.run_system`  - the system is projected right after it returns (or the exception it raises is recorded);
  * `RepairGraph.run_system / run_molecule` - harness/c04_real.Recorder: molecule in, molecule out, per residue;
  * a log handler on the `vermouth` logger - the "Residue specified by ... not found" warnings.
TLC judges three things per run:
  spec/MutMod.tla  JudgeCli   which requests the command line amounts to (defaults for the termini, -nt), which residues each
                              marks (all atoms, in request order), which requests are reported as unmatched, when the run must fail
                              (unknown target on a matching request; two different mutations on one residue);
  spec/Repair.tla  JudgeRepairX  after RepairGraph every residue has exactly the atoms of its reference - the requested block
                              patched with the requested modifications - named and bonded as there, surplus atoms removed;
  spec/MutMod.tla  JudgeItp   the written molecule types: the mutated residue carries the target's NAME and BEAD SET at its position,
                              every other residue the beads of its own block.
Python builds PDB text (chains that share residue numbers, custom chain labels, insertion codes, water molecules, damaged
residues), projects objects and files (harness/indep_readers.py reads the ITP) and attributes warnings to requests by their
logged arguments."""
import contextlib
import importlib.machinery
import importlib.util
import io
import logging
import os
import shutil
import sys
import tempfile

from . import c04_real, common

PROTEIN = {'ALA', 'ARG', 'ASN', 'ASP', 'CYS', 'GLN', 'GLU', 'GLY', 'HIS', 'ILE', 'LEU', 'LYS', 'MET', 'PHE', 'PRO', 'SER', 'THR', 'TRP',
           'TYR', 'VAL', 'HSD', 'HSE', 'HSP', 'HID', 'HIE', 'HIP', 'ASH', 'GLH', 'LYN', 'CYX', 'CYM'}
CG_FF = 'martini3001'


# ----------------------------------------------------------------------------------------------------------------------
# inputs
def build_pdb(recipe):
    """recipe = {'base': structure name of c04_real.load_structure, 'icodes': [[chain, resid, new resid, icode], ...],
                 'waters': n, 'damage': [family, ...], 'seed': int, 'relabel': {old chain: new chain}}"""
    import random
    pdb = c04_real.load_structure(recipe['base'])
    for chain, resid, new, icode in recipe.get('icodes', []):
        for a in pdb.atoms:
            if a['resid'] == resid and a['chain'].strip() == chain and a['icode'] == ' ':
                a['resid'], a['icode'] = new, icode
    rng = random.Random(recipe.get('seed', 0))
    for fam in recipe.get('damage', []):
        c04_real.DAMAGE[fam](pdb, rng)
    n = recipe.get('waters', 0)
    if n:
        x0 = max(a['xyz'][0] for a in pdb.atoms) + 20.0
        uid = max(a['uid'] for a in pdb.atoms)
        for i in range(n):
            uid += 1
            pdb.atoms.append({'rec': 'HETATM', 'name': 'OW', 'resname': 'HOH', 'chain': 'W', 'resid': i + 1, 'icode': ' ',
                              'xyz': [x0 + 6.0 * i, 0.0, 0.0], 'el': 'O', 'uid': uid, 'true': 'OW', 'damage': ''})
    return pdb.text()


def argv_of(case):
    """The command line of a case: requests in the given order.  req = [option, text] with option in -mutate -modify -nter -cter."""
    argv = ['-f', 'in.pdb', '-x', 'cg.pdb', '-o', 'topol.top', '-ff', CG_FF, '-sep', '-maxwarn', '100000']
    for opt, text in case['requests']:
        argv += [opt, text]
    if case.get('nt'):
        argv.append('-nt')
    return argv + list(case.get('extra', []))


def abstract_requests(case):
    """What the harness wrote on the command line, as <<specification, target>> pairs of character sequences (no parsing here:
    the text of -mutate / -modify is cut at its single ':'; -nter / -cter stand for the specifications 'nter' / 'cter')."""
    mods, muts = [], []
    for opt, text in case['requests']:
        if opt == '-nter':
            mods.append([list('nter'), list(text)])
        elif opt == '-cter':
            mods.append([list('cter'), list(text)])
        else:
            spec, target = text.split(':')
            (muts if opt == '-mutate' else mods).append([list(spec), list(target)])
    return mods, muts


# ----------------------------------------------------------------------------------------------------------------------
# projection of the system right after AnnotateMutMod
def project_system(system):
    out = {'system': [], 'marksMod': [], 'marksMut': [], 'uniform': True}
    for mol in system.molecules:
        groups, order = {}, []
        for k, d in mol.nodes(data=True):
            rk = (str(d.get('chain')), d.get('resid'), str(d.get('resname')), str(d.get('insertion_code') or ''))
            if rk not in groups:
                groups[rk] = []
                order.append(rk)
            groups[rk].append(k)
        index = {}
        for i, rk in enumerate(order, 1):
            for k in groups[rk]:
                index[k] = i
        edges = sorted({tuple(sorted((index[a], index[b]))) for a, b in mol.edges if index[a] != index[b]})
        res, mm, mu = [], [], []
        for rk in order:
            res.append({'chain': list(rk[0]), 'resname': list(rk[2]), 'resid': int(rk[1]) if isinstance(rk[1], int) else -999, 'icode': rk[3].strip(),
                        'protein': rk[2] in PROTEIN})
            vm = {tuple(mol.nodes[k].get('modification', [])) for k in groups[rk]}
            vu = {tuple(mol.nodes[k].get('mutation', [])) for k in groups[rk]}
            mm.append([list(x) for x in vm.pop()] if len(vm) == 1 else [['!']])
            mu.append([list(x) for x in vu.pop()] if len(vu) == 1 else [['!']])
        out['system'].append({'res': res, 'edges': [list(e) for e in edges]})
        out['marksMod'].append(mm)
        out['marksMut'].append(mu)
    return out


class _Warnings(logging.Handler):
    def __init__(self):
        super().__init__(level=logging.WARNING)
        self.reports = []

    def emit(self, record):
        fmt = str(getattr(record.msg, 'fmt', record.msg))
        if fmt.startswith('Residue specified by'):
            self.reports.append([str(x) for x in getattr(record.msg, 'args', ())])


def _load_cli():
    path = os.path.join(common.REPO, 'bin', 'martinize2')
    loader = importlib.machinery.SourceFileLoader('martinize2_cli_verif_c19', path)
    spec = importlib.util.spec_from_loader(loader.name, loader)
    mod = importlib.util.module_from_spec(spec)
    loader.exec_module(mod)
    return mod


def read_itp_residues(text):
    """[(resname, [bead names])] by residue number in order of appearance, from the [ atoms ] section (independent reader)."""
    from . import indep_readers
    doc = indep_readers.read_itp(text)
    section, out, index = None, [], {}
    for r in doc['records']:
        if r['k'] == 'section':
            section = r['s']
        elif r['k'] == 'atom' and section == 'atoms' and len(r['p']) >= 4:
            key = (r['p'][1], r['p'][2])
            if key not in index:
                index[key] = len(out)
                out.append({'resname': r['p'][2], 'beads': []})
            out[index[key]]['beads'].append(r['p'][3])
    return out


def run_case(case):
    """One real run.  Returns a list of events: one 'cli', the 'repairx' / 'molecule' / 'unknown' events of the RepairGraph run,
    one 'itp' (when files were written).  Meant for a freshly forked child."""
    import vermouth.processors.annotate_mut_mod as amm
    root = tempfile.mkdtemp(prefix='c19cli_')
    cwd, argv0 = os.getcwd(), list(sys.argv)
    log = io.StringIO()
    state = {'annotated': None, 'before': None, 'annotate_exc': '', 'kept_marks': None}
    warn = _Warnings()
    vlog = logging.getLogger('vermouth')
    orig_annotate = amm.AnnotateMutMod.run_system
    info = {'family': 'cli:' + case.get('label', ''), 'case': {k: case[k] for k in case if k != 'pdb_text'}}
    rec = c04_real.Recorder(None, cert_of=lambda a: a['name'], info=info, stop=False)
    try:
        os.chdir(root)
        with open('in.pdb', 'w') as fh:
            fh.write(case.get('pdb_text') or build_pdb(case['pdb']))
        with contextlib.redirect_stderr(log), contextlib.redirect_stdout(log):
            cli = _load_cli()

        def annotate(self, system):
            state['before'] = project_system(system)          # the residues as AnnotateMutMod finds them (no marks yet)
            try:
                result = orig_annotate(self, system)
            except Exception as exc:
                state['annotate_exc'] = type(exc).__name__
                raise
            state['annotated'] = project_system(system)
            return result
        amm.AnnotateMutMod.run_system = annotate
        vlog.addHandler(warn)
        sys.argv = ['martinize2'] + argv_of(case)
        rc, exc_name = 0, ''
        with rec, contextlib.redirect_stderr(log), contextlib.redirect_stdout(log):
            try:
                cli.entry()
            except SystemExit as exc:
                rc = exc.code if isinstance(exc.code, int) else (0 if exc.code is None else 1)
            except BaseException as exc:      # noqa
                rc, exc_name = -1, '%s: %s' % (type(exc).__name__, str(exc)[:200])
        files = {}
        for name in sorted(os.listdir(root)):
            if name.endswith('.itp') or name == 'topol.top':
                with open(name, errors='replace') as fh:
                    files[name] = fh.read()
    finally:
        amm.AnnotateMutMod.run_system = orig_annotate
        vlog.removeHandler(warn)
        sys.argv = argv0
        os.chdir(cwd)
        shutil.rmtree(root, ignore_errors=True)
    mods, muts = abstract_requests(case)
    ffs = c04_real._load()['ffs']
    ff = ffs['charmm']
    targets_mod = {''.join(t) for s, t in mods} | {'C-ter', 'N-ter', 'COOH-ter', 'NH2-ter'}
    targets_mut = {''.join(t) for s, t in muts}
    if state['annotate_exc']:
        outcome = 'annotate-error' if state['annotate_exc'] == 'NameError' else 'other-error'
    elif state['annotated'] is None:
        outcome = 'other-error'
    elif rec.raised:
        outcome = 'repair-error' if rec.raised == 'ValueError' else 'other-error'
    elif rc != 0 or exc_name:
        outcome = 'other-error'
    else:
        outcome = 'done'
    ann = state['annotated'] or state['before'] or {'system': [], 'marksMod': [], 'marksMut': []}
    e = {'kind': 'cli', 'mods': mods, 'muts': muts, 'nt': bool(case.get('nt')),
         'knownBlocks': [list(t) for t in sorted(targets_mut) if t in ff.blocks], 'knownMods': [list(t) for t in sorted(targets_mod) if t in ff.modifications],
         'system': ann['system'], 'marksMod': ann['marksMod'], 'marksMut': ann['marksMut'], 'outcome': outcome,
         'reported': [[list(a[0]), a[1], list(a[2])] for a in warn.reports if len(a) >= 3] + [[[], '?', []] for a in warn.reports if len(a) < 3],
         # information
         'reports': warn.reports, 'rc': rc, 'exc': exc_name or state['annotate_exc'] or rec.raised, 'argv': ' '.join(argv_of(case)), 'info': info,
         'log': log.getvalue()[-1200:] if outcome == 'other-error' else ''}
    events = [e]
    if outcome in ('done', 'repair-error'):
        # every residue that carries a request, every fourth of the others, the molecules and the system
        n = 0
        for u in rec.events:
            if u['kind'] == 'repairx' and not (u['muts'] or u['mods']):
                n += 1
                if n % 4:
                    continue
            events.append(u)
    if outcome == 'done' and any(n.endswith('.itp') for n in files):
        # kept molecules, in order, with the marks they carried when they entered RepairGraph
        mols = []
        for run in rec.runs:
            if run['out'] is None:
                continue
            seen, res = set(), []
            for a in run['before'].values():
                rk = a['ikey'] + (a['resname'],)
                if rk not in seen:
                    seen.add(rk)
                    res.append({'resname': a['resname'], 'muts': a['muts']})
            mols.append(res)
        kept = [u for u in rec.events if u['kind'] == 'unknown']
        if kept and len(kept[0]['kept']) != len(mols):
            mols = [m for i, m in enumerate(mols, 1) if i in kept[0]['kept']]
        itps = []
        i = 0
        while 'molecule_%d.itp' % i in files:
            itps.append(read_itp_residues(files['molecule_%d.itp' % i]))
            i += 1
        names = sorted({r['resname'] for m in mols for r in m} | {x for m in mols for r in m for x in r['muts']})
        cg = ffs[CG_FF]
        e2 = {'kind': 'itp', 'mols': mols, 'itps': itps,
              'cg': [{'name': n, 'beads': [str(cg.blocks[n].nodes[k].get('atomname')) for k in cg.blocks[n].nodes]} for n in names if n in cg.blocks],
              'argv': e['argv'], 'info': info, 'files': sorted(files)}
        events.append(e2)
    return events
