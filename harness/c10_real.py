"""C10, real structures: the reading front end of bin/martinize2 (read_system -> PDBInput / GROInput) and the real MakeBonds
on the structures shipped with the test-suite, with every option that shapes the result; TLC judges the COMPLETE result
of every run (spec/Trace_Bonds.tla JudgeReal = BondsRead!JudgeRead for the reader + Bonds!FastOutC for the bonds).

Python here (nothing decides a bond, a molecule or what the reader must keep):
  * cuts the lines of the source structure into records with its OWN column slicing, applies text-level operations
    (lattice snap, unknown residues / elements, alternate locations, insertion codes, restarted numbering, MODEL blocks, TER,
    copies of chains, ligands, CONECT records, deleted atoms, shuffled atoms), WRITES the file the real reader gets and cuts
    THAT text again into the abstract records TLC is given;
  * runs read_system (loaded from bin/martinize2 in-process) and MakeBonds with the shipped force field, optionally after
    removing atoms / a first MakeBonds run (history);
  * projects: atoms in the order MakeBonds receives them (input molecules one after the other, node order), coordinates as
    integer pm (tolerance 1e-6 pm relative to the lattice value), the blocks of the force field for the residue names
    present (atom names, bonds by name), input bonds with the 'distance' attribute they carry, and afterwards molecules in
    node order, bonds, warnings per type.
Coordinates are snapped to the 10 pm lattice of the small families, so that every distance is an exact integer for TLC; a
pair whose squared distance equals a squared threshold exactly ("numerically on the threshold") is moved off it by one
lattice step (aimed with the radius table exported from the SPEC; TLC re-checks and refuses to judge such inputs)."""
import logging
import math
import os
import random
import shutil
from decimal import Decimal

from . import common, tlc

DATA = 'vermouth/tests/data'
T0 = DATA + '/integration_tests/tier-0/'
T1 = DATA + '/integration_tests/tier-1/'
SOURCES = {
    'dipro': T0 + 'dipro-termini/aa.pdb',              # 30 atoms, hydrogens, CONECT for every bond, blank chain
    'sheet': T0 + 'mini-protein1_betasheet/aa.pdb',    # 456 atoms with hydrogens
    'helix': T0 + 'mini-protein2_helix/aa.pdb',        # 725 atoms with hydrogens
    'trpcage': T0 + 'mini-protein3_trp-cage/aa.pdb',   # 304 atoms with hydrogens
    '1ubq': T1 + '1UBQ/aa.pdb',                        # 602 + 58 waters, no hydrogens
    '3i40': T1 + '3i40/3i40.pdb',                      # insulin: chains A, B, TER, inter-chain CONECT, waters
    'lysozyme': T1 + 'lysozyme/aa.pdb',                # 1001 + 185 waters, CONECT (disulfides)
    '6lfo': T1 + '6LFO_gap/6LFO_gap.pdb',              # 1966 atoms, chain break
    'hst5': T1 + 'hst5/aa.pdb',                        # MODEL 1, blank element column, blank chain
    'villin': T1 + 'villin/aa.pdb',                    # 295 atoms without hydrogens
    'bpti': T1 + 'bpti/aa.pdb',                        # waters, CONECT
    'heme': DATA + '/heme.pdb',                        # ligand: FE and an atom whose element column reads NA
    '2qwo': DATA + '/2QWO.pdb',                        # two chains, ADP, PO4, GOL, ions NA / MG, 348 waters, 64 CONECT
    'dna': DATA + '/dna-short.pdb',                    # two strands without TER
    '1mj5': T1 + '1mj5/aa.pdb',                        # 4593 atoms with hydrogens, MODEL 1, blank element column
}
FUDGE_OPTS = [(1, 1), (6, 5), (9, 10), (4, 5), (13, 10), (3, 2)]


class Unsupported(Exception):
    """A run the abstract form cannot express (stated in ev.assumptions); never a violation."""


# ------------------------------------------------------------------------------------------------ text level
def _pm(txt, scale):
    v = Decimal(txt.strip()) * scale
    if v != v.to_integral_value():
        raise Unsupported('coordinate %r is not a whole number of pm' % txt)
    return int(v)


def slice_pdb(text):
    """own column slicing of PDB text -> records (coordinates integer pm)"""
    recs = []
    for ln in text.splitlines():
        tag = ln[:6].strip().upper()
        if tag in ('ATOM', 'HETATM'):
            name = ln[12:16].strip()
            recs.append({'k': 'atom', 'het': tag == 'HETATM', 'id': int(ln[6:11]), 'name': name, 'rawname': ln[12:16],
                         'chars': list(name), 'altloc': ln[16:17].strip(), 'resname': ln[17:21].strip(),
                         'chain': ln[21:22].strip(), 'resid': int(ln[22:26]), 'icode': ln[26:27].strip(),
                         'x': _pm(ln[30:38], 100), 'y': _pm(ln[38:46], 100), 'z': _pm(ln[46:54], 100),
                         'el': ln[76:78].strip()})
        elif tag == 'TER':
            recs.append({'k': 'ter'})
        elif tag == 'ENDMDL':
            recs.append({'k': 'endmdl'})
        elif tag == 'END':
            recs.append({'k': 'end'})
        elif tag == 'MODEL':
            recs.append({'k': 'model', 'nr': int(ln[10:14])})
        elif tag == 'CONECT':
            body = ln.rstrip()
            recs.append({'k': 'conect', 'ids': [int(body[i:i + 5]) for i in range(6, len(body), 5)]})
    return recs


def slice_source(path):
    """source structure: coordinates are NOT yet on the lattice"""
    recs = []
    for ln in open(path).read().splitlines():
        tag = ln[:6].strip().upper()
        if tag in ('ATOM', 'HETATM'):
            name = ln[12:16].strip()
            recs.append({'k': 'atom', 'het': tag == 'HETATM', 'id': int(ln[6:11]), 'name': name, 'rawname': ln[12:16],
                         'altloc': ln[16:17].strip(), 'resname': ln[17:21].strip(), 'chain': ln[21:22].strip(),
                         'resid': int(ln[22:26]), 'icode': ln[26:27].strip(),
                         'x': float(ln[30:38]) * 100.0, 'y': float(ln[38:46]) * 100.0, 'z': float(ln[46:54]) * 100.0,
                         'el': ln[76:78].strip()})
        elif tag in ('TER', 'ENDMDL', 'END'):
            recs.append({'k': tag.lower()})
        elif tag == 'MODEL':
            recs.append({'k': 'model', 'nr': int(ln[10:14])})
        elif tag == 'CONECT':
            body = ln.rstrip()
            recs.append({'k': 'conect', 'ids': [int(body[i:i + 5]) for i in range(6, len(body), 5)]})
    return recs


def write_pdb(recs):
    out = []
    for r in recs:
        k = r['k']
        if k == 'atom':
            out.append('%-6s%5d %-4s%1s%-4s%1s%4d%1s   %8.3f%8.3f%8.3f%6.2f%6.2f          %2s' % (
                'HETATM' if r.get('het') else 'ATOM', r['id'], r['rawname'], r['altloc'], r['resname'], r['chain'], r['resid'],
                r['icode'], r['x'] / 100.0, r['y'] / 100.0, r['z'] / 100.0, 1.0, 0.0, r['el']))
        elif k == 'ter':
            out.append('TER')
        elif k == 'endmdl':
            out.append('ENDMDL')
        elif k == 'end':
            out.append('END')
        elif k == 'model':
            out.append('MODEL     %4d' % r['nr'])
        elif k == 'conect':
            out.append('CONECT' + ''.join('%5d' % i for i in r['ids']))
    return '\n'.join(out) + '\n'


def write_gro(recs):
    atoms = [r for r in recs if r['k'] == 'atom']
    out = ['verif C10', '%d' % len(atoms)]
    for r in atoms:
        out.append('%5d%-5s%5s%5d%8.3f%8.3f%8.3f' % (r['resid'], r['resname'], r['name'], r['id'],
                                                   r['x'] / 1000.0, r['y'] / 1000.0, r['z'] / 1000.0))
    out.append('  20.00000  20.00000  20.00000')
    return '\n'.join(out) + '\n'


def slice_gro(text):
    lines = text.splitlines()
    n = int(lines[1])
    recs = []
    for ln in lines[2:2 + n]:
        name = ln[10:15].strip()
        recs.append({'k': 'atom', 'id': int(ln[15:20]), 'name': name, 'chars': list(name), 'altloc': '', 'resname': ln[5:10].strip(),
                     'chain': '', 'resid': int(ln[0:5]), 'icode': '', 'x': _pm(ln[20:28], 1000), 'y': _pm(ln[28:36], 1000),
                     'z': _pm(ln[36:44], 1000), 'el': ''})
    return recs


# ---- operations on the record list (each takes and returns a list; rng = random.Random of the case)
def _atoms(recs):
    return [r for r in recs if r['k'] == 'atom']


def _residues(recs):
    """runs of consecutive atom records with the same (chain, resid, icode, resname), as lists of records"""
    runs, key = [], None
    for r in recs:
        if r['k'] != 'atom':
            key = None
            continue
        k = (r['chain'], r['resid'], r['icode'], r['resname'])
        if k != key:
            runs.append([])
            key = k
        runs[-1].append(r)
    return runs


def op_snap(recs, rng, arg=None):
    """centre (by a lattice vector) and snap to the 10 pm lattice"""
    at = _atoms(recs)
    c = [sum(r[a] for r in at) / len(at) for a in 'xyz']
    shift = [round(v / 10.0) * 10 for v in c]
    for r in at:
        for a, s in zip('xyz', shift):
            r[a] = int(round((r[a] - s) / 10.0)) * 10
    return recs


def op_first_model(recs, rng, arg=None):
    return recs


def op_unkres(recs, rng, arg=2):
    """rename `arg` residues to a name no force field has"""
    runs = [x for x in _residues(recs) if not x[0].get('het')]
    for run in rng.sample(runs, min(int(arg), len(runs))):
        for r in run:
            r['resname'] = 'XYZ'
    return recs


def op_unkel(recs, rng, arg=3):
    """elements without a radius: unknown symbol / metal / upper-case two-letter symbol as PDB files spell them"""
    heavy = [r for r in _atoms(recs) if r['el'] not in ('H', '')]
    for r in rng.sample(heavy, min(int(arg), len(heavy))):
        r['el'] = rng.choice(['X', 'ZN', 'Fe', 'Q'])
    return recs


def op_blankel(recs, rng, arg=None):
    """blank element column: the reader takes the first letter of the atom name"""
    for r in _atoms(recs):
        r['el'] = ''
    return recs


def op_twoletter(recs, rng, arg=None):
    """two-letter elements with a radius: a sulfur becomes selenium (Se), a carbon-bound hydrogen chlorine (Cl)"""
    at = _atoms(recs)
    for r in at:
        if r['el'] == 'S':
            r['el'] = 'Se'
    hs = [r for r in at if r['el'] == 'H']
    for r in rng.sample(hs, min(4, len(hs))):
        r['el'] = rng.choice(['Cl', 'Br', 'F', 'Si'])
    return recs


def op_altloc(recs, rng, arg=3):
    """alternate locations: the original becomes 'A' (or stays blank), a displaced copy 'B' follows it"""
    heavy = [r for r in _atoms(recs) if r['el'] != 'H' and not r['name'].startswith('H')]
    picked = {id(r) for r in rng.sample(heavy, min(int(arg), len(heavy)))}
    out = []
    for r in recs:
        out.append(r)
        if id(r) in picked:
            r['altloc'] = rng.choice(['A', 'A', ''])
            cp = dict(r)
            cp['altloc'] = rng.choice(['B', 'B', 'C'])
            cp['x'], cp['y'], cp['z'] = r['x'] + 30, r['y'] + 20, r['z'] + 10
            out.append(cp)
    return _renumber(out)


def _renumber(recs):
    """serial numbers 1.. in file order, per MODEL block; CONECT records are rewritten"""
    new = {}
    n = 0
    for r in recs:
        if r['k'] == 'model':
            n = 0
        if r['k'] == 'atom':
            n += 1
            if r.get('altloc', '') in ('', 'A'):
                new.setdefault(r['id'], n)
            r['id'] = n
    for r in recs:
        if r['k'] == 'conect':     # atoms that are gone: serial numbers nobody has (the first atom and its partners differ)
            r['ids'] = [new.get(i, 99991 if k == 0 else 99990) for k, i in enumerate(r['ids'])]
    return recs


def op_icode(recs, rng, arg=None):
    """a residue gets the number of its predecessor plus an insertion code; neighbours of the SAME name are preferred (only
    then the insertion code is what tells the two residues apart)"""
    runs = _residues(recs)
    cands = [k for k in range(1, len(runs)) if runs[k][0]['chain'] == runs[k - 1][0]['chain'] and not runs[k][0].get('het')]
    same = [k for k in cands if runs[k][0]['resname'] == runs[k - 1][0]['resname']]
    rng.shuffle(same)
    rng.shuffle(cands)
    done = set()
    for k in (same + cands):
        if len(done) >= 2:
            break
        if k in done or k - 1 in done or k + 1 in done:
            continue
        done.add(k)
        for r in runs[k]:
            r['resid'] = runs[k - 1][0]['resid']
            r['icode'] = 'A' if runs[k - 1][0]['icode'] == '' else 'B'
    return recs


def op_restart(recs, rng, arg=None):
    """the residue numbers start again in the middle of a chain (no TER) such that a residue coincides in chain, number
    and NAME with an earlier one: the two are then one residue for bond guessing"""
    runs = [x for x in _residues(recs) if not x[0].get('het')]
    if len(runs) < 2:
        return recs
    pairs = [(i, j) for j in range(len(runs) // 3, len(runs)) for i in range(j - 1) if runs[i][0]['resname'] == runs[j][0]['resname']
             and runs[i][0]['chain'] == runs[j][0]['chain']]
    if pairs:
        i, j = rng.choice(pairs)
    else:
        i, j = 0, len(runs) // 2
    shift = runs[j][0]['resid'] - runs[i][0]['resid']
    for run in runs[j:]:
        if run[0]['chain'] != runs[j][0]['chain']:
            break
        for r in run:
            r['resid'] -= shift
    return recs


def op_ter_mid(recs, rng, arg=None):
    """TER in the middle of a chain: two input molecules that a peptide bond joins again"""
    runs = [x for x in _residues(recs) if not x[0].get('het')]
    if len(runs) < 2:
        return recs
    cut = runs[len(runs) // 2][0]
    out = []
    for r in recs:
        if r is cut:
            out.append({'k': 'ter'})
        out.append(r)
    return out


def op_restart_ter(recs, rng, arg=None):
    """numbers start again after a TER: residues of two input molecules with coinciding chain / number / name"""
    before = {id(r): r['resid'] for r in _atoms(recs)}
    recs = op_restart(recs, rng)
    cut = next((r for r in _atoms(recs) if before[id(r)] != r['resid']), None)
    out = []
    for r in recs:
        if r is cut:
            out.append({'k': 'ter'})
        out.append(r)
    return out


def op_models(recs, rng, arg=3):
    """several MODEL blocks: displaced copies of the atoms; CONECT records stay at the end"""
    body = [r for r in recs if r['k'] in ('atom', 'ter')]
    tail = [r for r in recs if r['k'] == 'conect']
    out = []
    for m in range(1, int(arg) + 1):
        out.append({'k': 'model', 'nr': m})
        for r in body:
            cp = dict(r)
            if r['k'] == 'atom' and m > 1:
                cp['x'] = r['x'] + 10 * rng.randint(-2, 2)
                cp['y'] = r['y'] + 10 * rng.randint(-2, 2) + 4000 * (m - 1)
                cp['z'] = r['z'] + 10 * rng.randint(-2, 2)
            out.append(cp)
        out.append({'k': 'endmdl'})
    return out + tail


def op_models_tail(recs, rng, arg=2):
    """MODEL blocks followed by atoms outside any model (a ligand after the last ENDMDL); the case selects the LAST model,
    for which "the model the line belongs to" has only one reading"""
    out = op_models(recs, rng, arg)
    tail = [r for r in out if r['k'] == 'conect']
    out = [r for r in out if r['k'] != 'conect']
    at = _atoms(out)
    n = max(r['id'] for r in at)
    a = max(at, key=lambda r: r['x'])
    for k, (nm, el) in enumerate([('C1', 'C'), ('O1', 'O'), ('C2', 'C')]):
        out.append({'k': 'atom', 'het': True, 'id': n + 1 + k, 'name': nm, 'rawname': ' %-3s' % nm, 'altloc': '', 'resname': 'LIG',
                    'chain': a['chain'], 'resid': 950, 'icode': '', 'x': a['x'] + 600 + 130 * k, 'y': a['y'] + 4000 * (int(arg) - 1),
                    'z': a['z'], 'el': el})
    return out + tail


def _copy_chain(recs, rng, touch):
    """a second copy of all atoms after a TER with the SAME chain identifiers and residue numbers, far away or touching"""
    at = _atoms(recs)
    body = [r for r in recs if r['k'] != 'conect' and r['k'] != 'end']
    tail = [r for r in recs if r['k'] == 'conect']
    heavy = [r for r in at if r['el'] not in ('H',) and not (r['el'] == '' and r['name'].startswith('H'))]
    a = max(heavy, key=lambda r: r['x'])
    b = min(heavy, key=lambda r: r['x'])
    if touch:
        d = (a['x'] + 140 - b['x'], a['y'] - b['y'], a['z'] - b['z'])
    else:
        d = (a['x'] - b['x'] + 3000, 0, 0)
    n = max(r['id'] for r in at)
    out = list(body)
    if out[-1]['k'] != 'ter':
        out.append({'k': 'ter'})
    for r in body:
        cp = dict(r)
        if r['k'] == 'atom':
            cp['id'] = r['id'] + n
            cp['x'], cp['y'], cp['z'] = r['x'] + d[0], r['y'] + d[1], r['z'] + d[2]
        out.append(cp)
    more = [{'k': 'conect', 'ids': [i + n for i in c['ids']]} for c in tail]
    return out + tail + more


def op_twin_far(recs, rng, arg=None):
    return _copy_chain(recs, rng, False)


def op_twin_touch(recs, rng, arg=None):
    return _copy_chain(recs, rng, True)


def op_relabel_second(recs, rng, arg=None):
    """the atoms after the first TER get another chain label (a twin copy becomes chain Z)"""
    out, seen = [], False
    for r in recs:
        if r.get('k') == 'ter':
            seen = True
        if seen and r.get('k') == 'atom':
            r = dict(r, chain='Z')
        out.append(r)
    return out


def op_no_ter(recs, rng, arg=None):
    """no TER record at all: the file is one input molecule, whatever it holds"""
    return [r for r in recs if r.get('k') != 'ter']


def op_ligand(recs, rng, arg=None):
    """the heme group of the test data as a HETATM molecule after a TER, an ion and two waters"""
    at = _atoms(recs)
    body = [r for r in recs if r['k'] != 'conect' and r['k'] != 'end']
    tail = [r for r in recs if r['k'] == 'conect']
    lig = op_snap(slice_source(os.path.join(common.REPO, SOURCES['heme'])), rng)
    n = max(r['id'] for r in at)
    xmax = max(r['x'] for r in at)
    lx = min(r['x'] for r in _atoms(lig))
    out = list(body)
    if out[-1]['k'] != 'ter':
        out.append({'k': 'ter'})
    for r in _atoms(lig):
        n += 1
        r.update(id=n, het=True, chain='L', resid=900, x=r['x'] - lx + xmax + 600)
        out.append(r)
    out.append({'k': 'ter'})
    cx, cy, cz = xmax + 600, 2500, 0
    for k, (rn, nm, el) in enumerate([('ZN', 'ZN', 'ZN'), ('HOH', 'O', 'O'), ('HOH', 'O', 'O'), ('CL', 'CL', 'Cl')]):
        n += 1
        out.append({'k': 'atom', 'het': True, 'id': n, 'name': nm, 'rawname': '%-4s' % nm if len(nm) > 1 else ' %-3s' % nm,
                    'altloc': '', 'resname': rn, 'chain': 'W', 'resid': 901 + k, 'icode': '', 'x': cx + 280 * k, 'y': cy, 'z': cz,
                    'el': el})
    return out + tail


def op_conect_cross(recs, rng, arg=None):
    """CONECT records between atoms of different TER-separated molecules (and inside one), the partner also listed first"""
    segs, cur = [], []
    for r in recs:
        if r['k'] == 'atom' and r.get('altloc', '') in ('', 'A'):
            cur.append(r)
        elif r['k'] in ('ter', 'endmdl', 'end') and cur:
            segs.append(cur)
            cur = []
    if cur:
        segs.append(cur)
    extra = []
    if len(segs) >= 2:
        for _ in range(2):
            s1, s2 = rng.sample(range(len(segs)), 2)
            a = rng.choice(segs[s1])
            near = sorted(segs[s2], key=lambda r: (r['x'] - a['x']) ** 2 + (r['y'] - a['y']) ** 2 + (r['z'] - a['z']) ** 2)
            b = near[0]
            if max(abs(a[c] - b[c]) for c in 'xyz') <= 15000:
                extra.append({'k': 'conect', 'ids': [a['id'], b['id']]})
                if rng.random() < 0.5:
                    extra.append({'k': 'conect', 'ids': [b['id'], a['id']]})
    s = rng.choice(segs)
    if len(s) >= 3:
        a, b, c = rng.sample(s, 3)
        if all(max(abs(a[q] - o[q]) for q in 'xyz') <= 15000 for o in (b, c)):
            extra.append({'k': 'conect', 'ids': [a['id'], b['id'], c['id'], 99999]})   # 99999: no such atom
    return recs + extra


def _is_h(r):
    return r['el'] == 'H' or (r['el'] == '' and r['name'].lstrip('0123456789')[:1] == 'H')


def op_hclash(recs, rng, arg=2):
    """two hydrogens of one residue brought to 100 pm of each other (closer than any H-H threshold)"""
    runs = [[r for r in run if _is_h(r)] for run in _residues(recs)]
    runs = [x for x in runs if len(x) >= 2]
    for run in rng.sample(runs, min(int(arg), len(runs))):
        a, b = run[0], run[1]
        b['x'], b['y'], b['z'] = a['x'] + 100, a['y'], a['z']
    return recs


def op_hbridge(recs, rng, arg=2):
    """a hydrogen placed 110 pm from a heavy atom of the NEXT residue (well within the threshold of any H-X pair)"""
    runs = _residues(recs)
    ks = [k for k in range(len(runs) - 1) if any(_is_h(r) for r in runs[k]) and any(not _is_h(r) for r in runs[k + 1])]
    for k in rng.sample(ks, min(int(arg), len(ks))):
        h = [r for r in runs[k] if _is_h(r)][-1]
        x = [r for r in runs[k + 1] if not _is_h(r)][-1]
        h['x'], h['y'], h['z'] = x['x'], x['y'] + 110, x['z']
    return recs


def op_drop(recs, rng, arg=5):
    """atoms missing from the file"""
    at = _atoms(recs)
    gone = {id(r) for r in rng.sample(at, min(int(arg), len(at) - 2))}
    return [r for r in recs if id(r) not in gone]


def op_shuffle(recs, rng, arg=None):
    """the atoms of every residue in another order"""
    out, run, key = [], [], None

    def flush():
        rng.shuffle(run)
        out.extend(run)
        del run[:]
    for r in recs:
        k = (r['chain'], r['resid'], r['icode'], r['resname']) if r['k'] == 'atom' else None
        if k != key:
            flush()
            key = k
        if k is None:
            out.append(r)
        else:
            run.append(r)
    flush()
    return _renumber(out)


def op_nohyd(recs, rng, arg=None):
    """the structure without its hydrogens (removed from the file)"""
    return _renumber([r for r in recs if not (r['k'] == 'atom' and (r['el'] == 'H' or (r['el'] == '' and r['name'][:1] == 'H')))])


def op_head(recs, rng, arg=60):
    """only the first `arg` residues (to keep very large structures affordable)"""
    keep = {id(r) for run in _residues(recs)[:int(arg)] for r in run}
    return [r for r in recs if r['k'] != 'atom' or id(r) in keep]


OPS = {n[3:]: f for n, f in list(globals().items()) if n.startswith('op_')}


# ------------------------------------------------------------------------------------------------ real code
_STATE = {}


def _load():
    if 'm2' in _STATE:
        return _STATE
    import importlib.machinery
    import importlib.util
    path = os.path.join(common.REPO, 'bin', 'martinize2')
    loader = importlib.machinery.SourceFileLoader('verif_martinize2_c10', path)
    spec = importlib.util.spec_from_loader('verif_martinize2_c10', loader)
    mod = importlib.util.module_from_spec(spec)
    vlog = logging.getLogger('vermouth')
    handlers = list(vlog.handlers)
    loader.exec_module(mod)
    for h in list(vlog.handlers):
        if h not in handlers:
            vlog.removeHandler(h)
    _STATE['m2'] = mod
    _STATE['ffs'] = {}
    return _STATE


def force_field(name):
    st = _load()
    if name not in st['ffs']:
        import vermouth
        import vermouth.forcefield
        from pathlib import Path
        st['ffs'][name] = vermouth.forcefield.ForceField(Path(vermouth.DATA_PATH) / 'force_fields' / name)
    return st['ffs'][name]


class _Warnings(logging.Handler):
    def __init__(self):
        super().__init__(level=logging.WARNING)
        self.types = {}

    def emit(self, record):
        t = getattr(record, 'type', 'general')
        self.types[t] = self.types.get(t, 0) + 1


class capture:
    """warnings of the vermouth logger by type, nothing printed"""
    def __enter__(self):
        self.h = _Warnings()
        self.log = logging.getLogger('vermouth')
        self.saved = (logging.root.manager.disable, self.log.level, self.log.propagate)
        logging.disable(logging.NOTSET)
        self.log.setLevel(logging.WARNING)
        self.log.propagate = False
        self.log.addHandler(self.h)
        return self.h

    def __exit__(self, *exc):
        self.log.removeHandler(self.h)
        logging.disable(self.saved[0])
        self.log.setLevel(self.saved[1])
        self.log.propagate = self.saved[2]


def _pm_of(v):
    x = float(v) * 1000.0
    n = round(x)
    if not math.isfinite(x) or abs(x - n) > 1e-6:
        raise Unsupported('coordinate %r nm is not a whole number of pm' % (v,))
    return int(n)


def conv_d2(dist):
    try:
        x = float(dist) * 1000.0
    except Exception:
        return -1
    d2 = x * x
    if not math.isfinite(d2):
        return -1
    n = round(d2)
    if abs(d2 - n) > 1e-6 * max(1.0, n) or n > 2000000000:
        return -1
    return int(n)


def _s(v, absent='-'):
    return absent if v is None else str(v)


def project_read(system, frecs, fmt, opts, nalt):
    """what the reader returned, atoms tied to the records of the file by serial number"""
    byid = {}
    for k, r in enumerate(frecs, 1):
        if r['k'] == 'atom':
            byid.setdefault(r['id'], []).append(k)
    # candidates with that serial: the harness does not decide which atoms are read; when several records carry the serial
    # the one whose coordinates agree is named (TLC checks every attribute and that exactly the atoms to read are present)
    mols, edges = [], []
    for mol in system.molecules:
        atoms, rec_of = [], {}
        for key, d in mol.nodes(data=True):
            pos = d.get('position')
            x, y, z = (_pm_of(pos[0]), _pm_of(pos[1]), _pm_of(pos[2]))
            cands = byid.get(d.get('atomid'), [])
            rec = next((k for k in cands if (frecs[k - 1]['x'], frecs[k - 1]['y'], frecs[k - 1]['z']) == (x, y, z)
                        and frecs[k - 1].get('altloc', '') == _s(d.get('altloc'), '')), cands[0] if cands else 0)
            if rec == 0:
                raise Unsupported('reader returned an atom whose serial number is not in the file')
            rec_of[key] = rec
            atoms.append({'rec': rec, 'id': int(d.get('atomid')), 'name': _s(d.get('atomname')), 'altloc': _s(d.get('altloc'), ''),
                          'resname': _s(d.get('resname')), 'chain': _s(d.get('chain')), 'resid': int(d.get('resid', -1)),
                          'icode': _s(d.get('insertion_code')), 'el': _s(d.get('element')), 'x': x, 'y': y, 'z': z})
        mols.append(atoms)
        for u, v, ed in mol.edges(data=True):
            edges.append({'a': rec_of[u], 'b': rec_of[v], 'd2': conv_d2(ed['distance']) if 'distance' in ed else -1})
    return {'mols': mols, 'edges': edges, 'nalt': nalt, 'err': False}


def tla_file(frecs, fmt, opts):
    recs = []
    for r in frecs:
        if r['k'] == 'atom':
            recs.append({'k': 'atom', 'id': r['id'], 'name': r['name'], 'chars': r['chars'], 'altloc': r['altloc'],
                         'resname': r['resname'], 'chain': r['chain'], 'resid': r['resid'], 'icode': r['icode'],
                         'x': r['x'], 'y': r['y'], 'z': r['z'], 'el': r['el']})
        else:
            recs.append({k: v for k, v in r.items()})
    return {'fmt': fmt, 'recs': recs, 'model': opts['model'], 'ignh': opts['ignh'], 'exclude': list(opts['exclude'])}


def project_blocks(ff, resnames):
    blocks = []
    for rn in sorted(resnames):
        blk = ff.blocks.get(rn)
        if not blk:                       # what MakeBonds itself tests: absent or empty block = unknown residue
            continue
        names = [d.get('atomname') for _, d in blk.nodes(data=True)]
        if any(not isinstance(n, str) for n in names) or len(set(names)) != len(names):
            raise Unsupported('block %s has unnamed / repeated atom names' % rn)
        edges = [[blk.nodes[a]['atomname'], blk.nodes[b]['atomname']] for a, b in blk.edges if a != b]
        blocks.append({'resname': rn, 'names': names, 'edges': edges})
    return blocks


def project_system(system, ff, name, dist, fudge):
    """the system MakeBonds is about to receive; tags every node with its input index and every bond with a marker"""
    atoms, old, oldd = [], [], []
    i = 0
    resnames = set()
    for mi, mol in enumerate(system.molecules):
        for key, d in mol.nodes(data=True):
            i += 1
            d['verif_tag'] = i
            pos = d['position']
            rn = d.get('resname')
            if isinstance(rn, str):
                resnames.add(rn)
            atoms.append({'mol': mi, 'chain': _s(d.get('chain')), 'resid': int(d['resid']) if d.get('resid') is not None else -1,
                          'icode': _s(d.get('insertion_code')), 'resname': _s(rn), 'name': _s(d.get('atomname')),
                          'el': _s(d.get('element')), 'x': _pm_of(pos[0]), 'y': _pm_of(pos[1]), 'z': _pm_of(pos[2])})
        for u, v, ed in mol.edges(data=True):
            ed['verif_old'] = True
            old.append([mol.nodes[u]['verif_tag'], mol.nodes[v]['verif_tag']])
            oldd.append({'hasd': 'distance' in ed, 'd2': conv_d2(ed['distance']) if 'distance' in ed else 0})
    return {'atoms': atoms, 'old': old, 'oldd': oldd, 'blocks': project_blocks(ff, resnames), 'name': bool(name), 'dist': bool(dist),
            'fn': fudge[0], 'fd': fudge[1]}


class _Stop(Exception):
    pass


def _through_the_command_line_glue(glue, system, name, dist, fudge):
    """The bond step as bin/martinize2 wires it (pdb_to_universal with the -bonds-from / -bonds-fudge values), stopped at the
    stage that follows it; returns the system that stage would have received."""
    import vermouth
    captured = {}
    orig = vermouth.MergeNucleicStrands.run_system

    def stop(self, sys_):
        captured['system'] = sys_
        raise _Stop()
    vermouth.MergeNucleicStrands.run_system = stop
    try:
        glue.pdb_to_universal(system, delete_unknown=False, force_field=system.force_field, bonds_from_name=name,
                              bonds_from_dist=dist, bonds_fudge=fudge[0] / fudge[1])
    except _Stop:
        pass
    finally:
        vermouth.MergeNucleicStrands.run_system = orig
    if 'system' not in captured:
        raise RuntimeError('pdb_to_universal never reached the stage after the bond step')
    return captured['system']


def run_makebonds(system, name, dist, fudge, glue=None):
    from vermouth.processors import MakeBonds
    got = {'err': False, 'mols': [], 'molof': [], 'edges': [], 'wunk': 0, 'wdup': 0}
    n = sum(len(m) for m in system.molecules)
    try:
        with capture() as warn:
            if glue is not None:
                system = _through_the_command_line_glue(glue, system, name, dist, fudge)
            else:
                MakeBonds(allow_name=name, allow_dist=dist, fudge=fudge[0] / fudge[1]).run_system(system)
        got['wunk'] = warn.types.get('unknown-residue', 0)
        got['wdup'] = warn.types.get('inconsistent-data', 0)
        molof = [0] * n
        for mi, m in enumerate(system.molecules, 1):
            tags = [d.get('verif_tag', 0) for _, d in m.nodes(data=True)]
            got['mols'].append(tags)
            for t in tags:
                if 1 <= t <= n:
                    molof[t - 1] = mi
            for u, v, d in m.edges(data=True):
                got['edges'].append({'a': m.nodes[u].get('verif_tag', 0), 'b': m.nodes[v].get('verif_tag', 0),
                                     'hasd': 'distance' in d, 'd2': conv_d2(d['distance']) if 'distance' in d else 0,
                                     'old': d.get('verif_old') is True})
        got['molof'] = molof
    except Exception as exc:       # noqa: the real code must not fail on a well-specified input
        got = {'err': True, 'mols': [], 'molof': [], 'edges': [], 'wunk': 0, 'wdup': 0, 'exc': repr(exc)[:300]}
    return got


# ------------------------------------------------------------------------------------------------ cases
def near_pairs(atoms, R, fu):
    """pairs of atoms (indices) whose squared distance is within 1e-6 of a squared threshold; aimed with the SPEC's table"""
    import numpy as np
    from scipy.spatial import cKDTree
    idx = [i for i, a in enumerate(atoms) if a['el'] in R]
    if len(idx) < 2:
        return []
    pts = np.array([[atoms[i]['x'], atoms[i]['y'], atoms[i]['z']] for i in idx], dtype=float)
    rmax = max(R.values()) * fu[0] / fu[1] + 11
    out = []
    for a, b in cKDTree(pts).query_pairs(rmax):
        i, j = idx[a], idx[b]
        p, q = atoms[i], atoms[j]
        d2 = (p['x'] - q['x']) ** 2 + (p['y'] - q['y']) ** 2 + (p['z'] - q['z']) ** 2
        t = fu[0] * fu[0] * (R[p['el']] + R[q['el']]) ** 2
        if abs(4 * d2 * fu[1] * fu[1] - t) * 1000000 <= 2 * t:
            out.append((i, j))
    return out


def element_guess(r, fmt):
    if fmt == 'pdb' and r['el']:
        return r['el']
    return next((c for c in r['name'] if c.isascii() and c.isalpha()), '')


def build_file(case, R):
    """source + operations -> (records as written, text, format).  Deterministic in case['seed']."""
    rng = random.Random(case['seed'])
    recs = slice_source(os.path.join(common.REPO, SOURCES[case['src']]))
    recs = op_snap(recs, rng)
    for op in case['ops']:
        nm, _, arg = op.partition(':')
        recs = OPS[nm](recs, rng, arg) if arg else OPS[nm](recs, rng)
    fmt = case.get('fmt', 'pdb')
    fus = {tuple(case['fudge'])}           # every fudge factor of the case's history
    for step in case.get('history', []):
        parts = step.split(':')
        if parts[0] == 'run' and len(parts) > 2:
            fus.add(tuple(int(x) for x in parts[2].split('/')))
    for _ in range(40):            # move pairs off the exact threshold
        at = _atoms(recs)
        view = [{'el': element_guess(r, fmt), 'x': r['x'], 'y': r['y'], 'z': r['z']} for r in at]
        bad = [p for fu in sorted(fus) for p in near_pairs(view, R, fu)]
        if not bad:
            break
        for _, j in bad:
            at[j]['x'] += 10
    else:
        raise tlc.MachineryError('cannot move the structure of %r off the thresholds' % (case,))
    if fmt == 'gro':
        recs = _renumber([r for r in recs if r['k'] == 'atom'])
        text = write_gro(recs)
        frecs = slice_gro(text)
    else:
        text = write_pdb(recs)
        frecs = slice_pdb(text)
    return frecs, text, fmt


def run_case(case, R):
    """-> list of events (one per MakeBonds run of the case's history)"""
    from pathlib import Path
    st = _load()
    frecs, text, fmt = build_file(case, R)
    opts = {'model': case.get('model', 1), 'ignh': bool(case.get('ignh', False)), 'exclude': list(case.get('exclude', []))}
    work = tlc.scratch('c10real_')
    try:
        path = os.path.join(work, 'input.' + fmt)
        with open(path, 'w') as fh:
            fh.write(text)
        system, exc = None, ''
        with capture() as warn:
            try:
                system = st['m2'].read_system(Path(path), ignore_resnames=set(opts['exclude']), ignh=opts['ignh'],
                                              modelidx=opts['model'] if fmt == 'pdb' else None)
            except Exception as err:        # noqa: the reader must not fail on a file the specification covers (TLC checks that)
                exc = repr(err)[:300]
        nalt = warn.types.get('pdb-alternate', 0)
    finally:
        shutil.rmtree(work, ignore_errors=True)
    if system is None:
        ev = {'kind': 'real', 'hasfile': True, 'file': tla_file(frecs, fmt, opts), 'read': {'mols': [], 'edges': [], 'nalt': 0, 'err': True},
              'sys': [], 'got': []}
        return [{'event': ev, 'case': case, 'step': 0, 'exc': exc}]
    read = project_read(system, frecs, fmt, opts, nalt)
    ff = force_field(case['ff'])
    system.force_field = ff
    rng = random.Random(case['seed'] + 1)
    events = []
    first = True
    for step in case.get('history', ['run']):
        if step.startswith('remove'):            # atoms removed between reading and bond guessing
            k = int(step.partition(':')[2] or 4)
            for _ in range(k):
                mols = [m for m in system.molecules if len(m) > 1]
                if not mols:
                    break
                m = rng.choice(mols)
                m.remove_node(rng.choice(list(m.nodes)))
            continue
        if step == 'remove_residue':
            m = max(system.molecules, key=len)
            keys = sorted({(d.get('chain'), d.get('resid'), d.get('insertion_code')) for _, d in m.nodes(data=True)}, key=repr)
            if len(keys) > 2:
                gone = keys[len(keys) // 2]
                for n_ in [n_ for n_, d in m.nodes(data=True) if (d.get('chain'), d.get('resid'), d.get('insertion_code')) == gone]:
                    m.remove_node(n_)
            continue
        if step == 'run':
            name, dist, fudge = case['name'], case['dist'], tuple(case['fudge'])
        else:                                     # 'run:name|dist|both|none[:fn/fd]'
            parts = step.split(':')
            name, dist = parts[1] in ('name', 'both'), parts[1] in ('distance', 'both')
            fudge = tuple(int(x) for x in parts[2].split('/')) if len(parts) > 2 else tuple(case['fudge'])
        s = project_system(system, ff, name, dist, fudge)
        # a single-run case marked glue=True goes through the glue of the command line (pdb_to_universal of bin/martinize2)
        single = [x for x in case.get('history', ['run']) if x.startswith('run')] == [step] and len(case.get('history', ['run'])) == 1
        got = run_makebonds(system, name, dist, fudge, st['m2'] if single and case.get('glue') else None)
        ev = {'kind': 'real', 'hasfile': first, 'file': tla_file(frecs, fmt, opts) if first else [], 'read': read if first else [],
              'sys': s, 'got': {k: v for k, v in got.items() if k != 'exc'}}
        events.append({'event': ev, 'case': case, 'step': len(events), 'exc': got.get('exc', '')})
        first = False
    return events


def _case(src, ops=(), ff='charmm', mode='both', fudge=(6, 5), seed=0, **kw):
    c = {'src': src, 'ops': list(ops), 'ff': ff, 'name': mode in ('name', 'both'), 'dist': mode in ('distance', 'both'),
         'fudge': list(fudge), 'seed': seed}
    c.update(kw)
    return c


def plan(tier, seed):
    """the runs of the real-structure family.  Every case names its source, the operations and every option."""
    q = []
    # --- quick: small structures, every option once
    q.append(_case('dipro', seed=seed))                                                    # CONECT for every bond
    q.append(_case('dipro', mode='none', seed=seed))                                       # -bonds-from none: CONECT only
    # the same through pdb_to_universal of bin/martinize2, on a file without TER that holds two unconnected chains: the bond
    # step must still split it into the connected groups, whatever -bonds-from says
    q.append(_case('dipro', ['twin_far', 'relabel_second', 'no_ter'], mode='none', seed=seed + 12, glue=True))
    q.append(_case('trpcage', ['twin_far', 'relabel_second', 'no_ter'], mode='name', seed=seed + 13, glue=True))
    q.append(_case('dipro', ['twin_far'], fudge=(1, 1), seed=seed + 14, glue=True))
    q.append(_case('dipro', ['drop:4', 'shuffle'], mode='distance', fudge=(1, 1), seed=seed))
    q.append(_case('trpcage', seed=seed))
    q.append(_case('trpcage', ['unkres:2', 'unkel:3', 'icode'], seed=seed + 1))
    q.append(_case('trpcage', ['altloc:4', 'restart'], mode='name', seed=seed + 2))
    q.append(_case('trpcage', ['ter_mid', 'conect_cross'], mode='distance', fudge=(9, 10), seed=seed + 3))
    q.append(_case('trpcage', ['hclash', 'hbridge', 'models:3'], model=2, fudge=(13, 10), seed=seed + 4))
    q.append(_case('villin', ['head:12', 'models_tail:2'], model=2, seed=seed + 11))   # no TER in front of ENDMDL
    q.append(_case('trpcage', ['twin_touch'], seed=seed + 5, history=['run', 'run']))
    q.append(_case('trpcage', ['restart_ter', 'twoletter'], ff='amber', seed=seed + 6))
    q.append(_case('trpcage', ['nohyd'], fmt='gro', fudge=(3, 2), seed=seed + 7))      # 1-3 pairs within the threshold: block non-bonds decide
    q.append(_case('3i40', seed=seed))                                                     # two chains, inter-chain CONECT
    q.append(_case('3i40', ['ligand'], mode='distance', fudge=(1, 1), exclude=['HOH'], seed=seed + 8))
    q.append(_case('villin', ['blankel', 'twin_far'], seed=seed + 9, history=['remove:6', 'run']))
    q.append(_case('dipro', ['twin_far', 'conect_cross'], ignh=True, seed=seed + 10, history=['run:name', 'remove_residue', 'run:both']))
    if tier == 'quick':
        return q
    t = list(q)
    rng = random.Random(seed)
    srcs = ['dipro', 'sheet', 'helix', 'trpcage', '1ubq', '3i40', 'lysozyme', 'hst5', 'villin', 'bpti', 'heme', 'dna']
    # every structure x every mode x fudge below / at / above 1, charmm
    for src in srcs + ['6lfo', '2qwo']:
        for mode in ('both', 'name', 'distance', 'none'):
            for fu in ([(6, 5)] if src in ('6lfo', '2qwo') else [(1, 1), (6, 5), (9, 10)]):
                if mode in ('name', 'none') and fu != (6, 5):
                    continue
                t.append(_case(src, mode=mode, fudge=fu, seed=rng.randrange(10 ** 6)))
    t.append(_case('1mj5', ['head:150'], seed=seed))
    t.append(_case('1mj5', mode='both', seed=seed + 1))
    # other force fields for the name-based bonds
    for src in ('trpcage', 'villin', '3i40', 'sheet'):
        for ff in ('amber', 'gromos', 'martini22'):
            t.append(_case(src, ff=ff, seed=rng.randrange(10 ** 6)))
            t.append(_case(src, ['unkres:3'], ff=ff, mode='name', seed=rng.randrange(10 ** 6)))
    # every text-level operation on several structures, random option vectors
    single = [['unkres:3'], ['unkel:5'], ['blankel'], ['twoletter'], ['altloc:6'], ['icode'], ['restart'], ['ter_mid'],
              ['restart_ter'], ['models:3'], ['twin_far'], ['twin_touch'], ['ligand'], ['conect_cross'], ['drop:10'], ['shuffle'],
              ['nohyd'], ['models_tail:2'], ['hclash:4', 'hbridge:4'], ['ter_mid', 'conect_cross'], ['twin_touch', 'conect_cross'], ['altloc:5', 'icode', 'unkres:2'],
              ['restart_ter', 'shuffle'], ['ligand', 'conect_cross', 'unkel:4'], ['twin_far', 'models:2']]
    for ops in single:
        for src in rng.sample(['dipro', 'sheet', 'trpcage', '3i40', 'villin', 'hst5', 'bpti', '1ubq', 'dna'], 4):
            kw = {}
            if 'models' in ''.join(ops):
                kw['model'] = 2 if 'models_tail:2' in ops else rng.choice([1, 2])
            if rng.random() < 0.2:
                kw['ignh'] = True
            if rng.random() < 0.25:
                kw['exclude'] = ['HOH']
            if rng.random() < 0.3 and not any(o.startswith(('models', 'conect', 'altloc')) for o in ops):
                kw['fmt'] = 'gro'
            hist = rng.choice([['run'], ['run'], ['run', 'run'], ['remove:8', 'run'], ['run:name', 'run:distance'],
                               ['run', 'remove_residue', 'run'], ['run:distance:1/1', 'run:both:3/2']])
            t.append(_case(src, ops, ff=rng.choice(['charmm', 'charmm', 'amber']), mode=rng.choice(['both', 'both', 'distance', 'name']),
                           fudge=rng.choice(FUDGE_OPTS), seed=rng.randrange(10 ** 6), history=hist, **kw))
    return t


# ------------------------------------------------------------------------------------------------ worker
TRACE_CFG = 'SPECIFICATION Spec\n'


def judge_events(events, timeout=1500):
    """one TLC process judges a list of events; -> [(verdict, info)]"""
    work = tlc.scratch('c10realj_')
    try:
        tf = tlc.write_json(work, 'trace.json', [e['event'] for e in events])
        env = {'TRACE_FILE': tf}
        natoms = sum(len(e['event']['sys']['atoms']) if e['event']['sys'] else 0 for e in events)
        if natoms < 2500:     # short runs: client compiler, two collector threads (less than half the CPU; slower on long runs)
            env['JAVA_TOOL_OPTIONS'] = '-XX:TieredStopAtLevel=1 -XX:ParallelGCThreads=2'
        res = tlc.run('Trace_Bonds', TRACE_CFG, dump=True, env=env, workdir=work, workers=1, timeout=timeout)
        if res.violated:
            raise tlc.MachineryError('Trace_Bonds violated %s' % res.violated)
        verdicts = {st['tid']: (st['verdict'], st['info']) for st in res.states() if st['verdict'] != 'pending'}
        if sorted(verdicts) != list(range(1, len(events) + 1)):
            raise tlc.MachineryError('real-structure judge returned verdicts %s for %d events' % (sorted(verdicts), len(events)))
        return [verdicts[i] for i in range(1, len(events) + 1)], res.distinct, res.generated, res.wall
    finally:
        shutil.rmtree(work, ignore_errors=True)


def worker(args):
    """runs AND judges its share; returns summaries only (no event leaves the worker except rejected ones)"""
    cases, R = args
    logging.disable(logging.CRITICAL)
    out = {'runs': [], 'unsupported': [], 'states': 0, 'transitions': 0, 'wall': 0.0, 'sample': None}
    events = []
    for case in cases:
        try:
            events.extend(run_case(case, R))
        except Unsupported as exc:
            out['unsupported'].append('%s %s: %s' % (case['src'], case['ops'], exc))
    if not events:
        return out
    verdicts, d, g, w = judge_events(events)
    out['states'], out['transitions'], out['wall'] = d, g, w
    for e, (v, info) in zip(events, verdicts):
        ok = v == 'ok'
        run = {'case': e['case'], 'step': e['step'], 'verdict': v, 'info': common.jsonable(info), 'exc': e['exc'],
               'nrec': len(e['event']['file']['recs']) if e['event']['hasfile'] else 0,
               'nconect_links': len(e['event']['read']['edges']) if e['event']['hasfile'] else 0,
               'nread_mols': len(e['event']['read']['mols']) if e['event']['hasfile'] else 0}
        if not ok and e['event']['got']:
            g_ = e['event']['got']
            run['got_summary'] = {'molecules': len(g_['mols']), 'bonds': len(g_['edges']), 'err': g_['err']}
        out['runs'].append(run)
        if out['sample'] is None and ok and len(e['event']['sys']['atoms']) <= 40:
            out['sample'] = {'kind': 'real structure judged by TLC', 'case': e['case'], 'sys': e['event']['sys'], 'got': e['event']['got']}
    return out
