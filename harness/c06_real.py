"""C06, the matcher as the library uses it: real force-field blocks as pattern and as graph, certificates checked by TLC.

vermouth calls ISMAGS in two places:
  * repair_graph.make_reference: ISMAGS(reference block, residue, node_match=categorical_node_match('element', None),
    cache=<one dict per molecule>).largest_common_subgraph() (symmetry on), FIRST result taken; nodes of both graphs renumbered
    0..n-1 by (name not common to both, name) first  -> prepare() below does exactly that renumbering;
  * repair_graph._patch_modification: ISMAGS(block, anchor, node_match=<atom names equal>).subgraph_isomorphisms_iter()
    -> the 'name' equality of this family.
canonicalize_modifications, do_links and map_parser use networkx GraphMatcher (VF2), not ISMAGS: not in this check.

A case is (graph G = reference, pattern H = residue, equality); every matcher call happens in a killable child process (the
matcher can spend minutes in C calls); the child also computes the CERTIFICATE with networkx VF2 (all isomorphisms H -> G, all
automorphisms of H, all common subgraphs of size |G| when |G| < |H|); spec/SubIsoCert.tla verifies it and judges the answer.
Cases with at most SMALL nodes are judged by the declarative enumeration of SubIso as well and both verdicts must agree."""
import json
import multiprocessing as mp
import os
import random
import time

from . import tlc

FFS = ('charmm', 'amber', 'gromos')
MAXATOMS = 25
SMALL = (6, 7)            # pattern / graph size up to which the declarative enumeration is evaluated as well
CAP_E, CAP_A = 1200, 400  # largest certificate lists passed to TLC (cases beyond are not generated; counted)
CHK_A = 60                # closure of the symmetry list under composition is verified up to this many symmetries
JOPTS = {'_JAVA_OPTIONS': '-XX:TieredStopAtLevel=1 -XX:ParallelGCThreads=2 -XX:CICompilerCount=1'}

_LIB = None


def lib():
    """{ff: {block: graph dict}}; graph dict = {'nodes': [[key, atomname, element]], 'edges': [[a, b]]}, keys 0..n-1 in block order"""
    global _LIB
    if _LIB is None:
        import vermouth.forcefield
        from vermouth.graph_utils import add_element_attr
        from . import common
        repo = common.REPO
        ffs = vermouth.forcefield.find_force_fields(os.path.join(repo, 'vermouth', 'data', 'force_fields'))
        out = {}
        for ff in FFS:
            out[ff] = {}
            for name, block in sorted(ffs[ff].blocks.items()):
                if not 2 <= len(block) <= MAXATOMS:
                    continue
                g = block
                try:
                    import networkx as nx
                    h = nx.Graph()
                    h.add_nodes_from((n, dict(g.nodes[n])) for n in g.nodes)
                    h.add_edges_from(g.edges)
                    add_element_attr(h)
                    if any(not h.nodes[n].get('atomname') for n in h):
                        continue
                except ValueError:
                    continue
                if h.number_of_edges() == 0 or any(a == b for a, b in h.edges):
                    continue
                idx = {n: i for i, n in enumerate(h.nodes)}
                out[ff][name] = {'nodes': [[idx[n], h.nodes[n]['atomname'], h.nodes[n]['element']] for n in h.nodes],
                                 'edges': [[idx[a], idx[b]] for a, b in h.edges]}
        _LIB = out
    return _LIB


# ---------------------------------------------------------------------------------------------------------------- graph dicts
def heavy(gd):
    keep = [n for n in gd['nodes'] if n[2] != 'H']
    ks = {n[0] for n in keep}
    return renum({'nodes': keep, 'edges': [e for e in gd['edges'] if e[0] in ks and e[1] in ks]})


def renum(gd):
    m = {n[0]: i for i, n in enumerate(gd['nodes'])}
    return {'nodes': [[m[k], a, e] for k, a, e in gd['nodes']], 'edges': [[m[a], m[b]] for a, b in gd['edges']]}


def without(gd, keys):
    keys = set(keys)
    return renum({'nodes': [n for n in gd['nodes'] if n[0] not in keys],
                  'edges': [e for e in gd['edges'] if e[0] not in keys and e[1] not in keys]})


def attach(gd, other, rng, k):
    """gd plus a connected fragment of k atoms of `other`, bound to one atom of gd (the next residue's first atoms, a ligand...)"""
    adj = {}
    for a, b in other['edges']:
        adj.setdefault(a, []).append(b)
        adj.setdefault(b, []).append(a)
    root = rng.choice(sorted(adj))
    frag, todo = [root], [root]
    while todo and len(frag) < k:
        x = todo.pop(0)
        for y in sorted(adj[x]):
            if y not in frag and len(frag) < k:
                frag.append(y)
                todo.append(y)
    base = len(gd['nodes'])
    m = {x: base + i for i, x in enumerate(frag)}
    info = {n[0]: n for n in other['nodes']}
    nodes = gd['nodes'] + [[m[x], info[x][1], info[x][2]] for x in frag]
    edges = gd['edges'] + [[m[a], m[b]] for a, b in other['edges'] if a in m and b in m]
    anchor = rng.choice([n[0] for n in gd['nodes'] if n[2] != 'H'] or [gd['nodes'][0][0]])
    edges.append([anchor, m[root]])
    return {'nodes': nodes, 'edges': edges}


def twin_presentation(a, b):
    """Present block b with the node order, junk names and edge order of block a (same skeleton, other elements): returns the two
    residues (or None when the skeletons differ).  After the renumbering of make_reference both patterns have identical node
    and edge tuples and differ in the element partition only - what a symmetry cache keyed without the colours would confuse."""
    import networkx as nx
    ga, gb = to_nx(a), to_nx(b)
    gm = nx.isomorphism.GraphMatcher(ga, gb)
    phi = next(gm.isomorphisms_iter(), None)          # a -> b, skeleton only
    if phi is None:
        return None
    junk = {n[0]: 'X%02d' % i for i, n in enumerate(a['nodes'])}
    eb = {n[0]: n[2] for n in b['nodes']}
    ra = {'nodes': [[k, junk[k], e] for k, _, e in a['nodes']], 'edges': [list(e) for e in a['edges']]}
    rb = {'nodes': [[k, junk[k], eb[phi[k]]] for k, _, _ in a['nodes']], 'edges': [list(e) for e in a['edges']]}
    return ra, rb


def to_nx(gd):
    import networkx as nx
    g = nx.Graph()
    for k, name, el in gd['nodes']:
        g.add_node(k, atomname=name, element=el)
    g.add_edges_from(map(tuple, gd['edges']))
    return g


def prepare(ref, res):
    """The renumbering of repair_graph.make_reference: nodes sorted by (name not common to both graphs, name) get 0..n-1."""
    import networkx as nx
    reference, residue = to_nx(ref), to_nx(res)
    res_names = {idx: residue.nodes[idx]['atomname'] for idx in residue}
    ref_names = {idx: reference.nodes[idx]['atomname'] for idx in reference}
    new_res = {old: new for new, old in enumerate(sorted(residue, key=lambda j: (res_names[j] not in ref_names.values(), res_names[j])))}
    new_ref = {old: new for new, old in enumerate(sorted(reference, key=lambda j: (ref_names[j] not in res_names.values(), ref_names[j])))}
    return nx.relabel_nodes(reference, new_ref, copy=True), nx.relabel_nodes(residue, new_res, copy=True)


def to_json(g, h, eq):
    attr = 'element' if eq == 'element' else 'atomname'
    labels = sorted({g.nodes[n][attr] for n in g} | {h.nodes[n][attr] for n in h})
    col = {x: i for i, x in enumerate(labels)}

    def one(x):
        return {'nodes': [[n, col[x.nodes[n][attr]]] for n in x.nodes], 'edges': [[a, b, 0] for a, b in x.edges]}
    return one(g), one(h)


# ------------------------------------------------------------------------------------------------------------------ children
def _vf2(big, small, attr, cap):
    """all induced isomorphisms small -> big as sorted [[big node, small node]] lists; None when more than cap"""
    import networkx as nx
    gm = nx.isomorphism.GraphMatcher(big, small, node_match=nx.isomorphism.categorical_node_match(attr, None))
    out = []
    for m in gm.subgraph_isomorphisms_iter():
        out.append(sorted([b, s] for b, s in m.items()))
        if len(out) > cap:
            return None
    return out


def _matcher(g, h, attr, cache):
    import networkx as nx
    from vermouth.ismags import ISMAGS
    if attr == 'element':
        nm = nx.isomorphism.categorical_node_match('element', None)          # make_reference
    else:
        nm = lambda n1, n2: n1.get('atomname') == n2.get('atomname')          # noqa: E731  _patch_modification._node_equal
    return ISMAGS(g, h, node_match=nm, cache=cache)


def _ylist(it):
    return [sorted([gn, hn] for gn, hn in m.items()) for m in it]


def _certificates(g, h, attr):
    """(E, A, C, why): E all isomorphisms h -> g, A automorphisms of h, C all common subgraphs of size min(|g|, |h|) or None when
    that size is not reached / not known; why = reason for not generating the case"""
    A = _vf2(h, h, attr, CAP_A)
    if A is None:
        return None, None, None, 'more than %d symmetries' % CAP_A
    E = _vf2(g, h, attr, CAP_E) if len(h) <= len(g) else []
    if E is None:
        return None, None, None, 'more than %d isomorphisms' % CAP_E
    if len(h) <= len(g):
        C = E or None
    else:
        C = _vf2(h, g, attr, CAP_E)                 # [[h node, g node]]: induced copies of g inside h
        if C is None:
            return None, None, None, 'more than %d common subgraphs' % CAP_E
        C = [sorted([gn, hn] for hn, gn in m) for m in C] or None
    return E, A, C, ''


def _events_of(case, cache, send, hist=False):
    g, h = prepare(case['ref'], case['res'])
    attr = 'element' if case['eq'] == 'element' else 'atomname'
    G, H = to_json(g, h, case['eq'])
    E, A, C, why = _certificates(g, h, attr)
    base = {'G': G, 'H': H, 'fam': case['fam'], 'what': case['what'], 'eq': case['eq'], 'err': ''}
    if why:
        send(dict(base, mode='skipped', why=why))
        return
    small = len(h) <= SMALL[0] and len(g) <= SMALL[1]
    base.update(A=A, chk=len(A) <= CHK_A, nA=len(A), nE=len(E))

    def query(mode, sym, first=False):
        ism = _matcher(g, h, attr, cache)
        try:
            if mode == 'iso':
                Y = _ylist(ism.find_isomorphisms(symmetry=sym))
            elif first:
                it = ism.largest_common_subgraph() if sym else ism.largest_common_subgraph(symmetry=False)
                Y = _ylist([next(it)])
            else:
                Y = _ylist(ism.largest_common_subgraph() if sym else ism.largest_common_subgraph(symmetry=False))
            err = ''
        except Exception as exc:      # noqa
            import traceback
            Y, err = [], repr(exc)[:150] + ' @ ' + traceback.format_exc().strip().splitlines()[-3].strip()[:120]
        return Y, err

    todo = []
    if hist:
        # as make_reference: largest common subgraph, symmetry on; the first result is what the library consumes
        if C is not None:
            todo += [('lcs', True, True), ('lcs', True, False)]
        if len(h) <= len(g):
            todo.append(('iso', True, False))
    else:
        if len(h) <= len(g):
            todo.append(('iso', True, False))
            if len(E) <= 300:
                todo.append(('iso', False, False))
        if C is not None:
            todo.append(('lcs', True, False))
            if len(C) <= 60:
                todo.append(('lcs', False, False))
        elif small:
            todo += [('lcs', True, False), ('lcs', False, False)]
    for mode, sym, first in todo:
        Y, err = query(mode, sym, first)
        ev = dict(base, sym=sym, Y=Y, err=err)
        if mode == 'iso':
            ev.update(mode='iso-both' if small else 'iso-cert', E=E)
        elif first:
            ev.update(mode='first-cert', E=C)
        elif C is None:
            ev.update(mode='lcs', E=[])
        else:
            ev.update(mode='lcs-both' if small else 'lcs-cert', E=C)
        if cache is not None:
            ev['cache_size'] = len(cache)
        send(ev)
    if not hist and C is not None and len(h) <= len(g):
        # query sequences on ONE matcher object: the earlier query must not change the later answer
        for pre, mode in (('iso', 'lcs'), ('lcs', 'iso')):
            ism = _matcher(g, h, attr, cache)
            try:
                if pre == 'iso':
                    list(ism.find_isomorphisms(symmetry=True))
                    Y = _ylist(ism.largest_common_subgraph())
                else:
                    list(ism.largest_common_subgraph())
                    Y = _ylist(ism.find_isomorphisms(symmetry=True))
                err = ''
            except Exception as exc:      # noqa
                Y, err = [], repr(exc)[:150]
            send(dict(base, sym=True, Y=Y, err=err, E=E, fam=base['fam'] + '/after-' + pre, mode=mode + ('-both' if small else '-cert')))


def _case_child(conn, case):
    try:
        _events_of(case, {} if case.get('cache') else None, conn.send)
        conn.send('done')
    except Exception:      # noqa
        import traceback
        conn.send({'mode': 'harness-error', 'why': traceback.format_exc()[-1500:], 'fam': case['fam'], 'what': case['what']})
    conn.close()


def _hist_child(conn, hist):
    """One symmetry cache over the residues of a chain in sequence, as make_reference walks a molecule."""
    try:
        cache = {}
        for i, case in enumerate(hist['steps']):
            _events_of(dict(case, fam=hist['fam'], what='%s #%d %s' % (hist['what'], i, case['what'])), cache, conn.send, hist=True)
        conn.send('done')
    except Exception:      # noqa
        import traceback
        conn.send({'mode': 'harness-error', 'why': traceback.format_exc()[-1500:], 'fam': hist['fam'], 'what': hist['what']})
    conn.close()


def run_killable(target, arg, limit):
    """target(conn, arg) in a forked child; events are received one by one, so a child killed at the time limit loses only the
    query it was in.  Returns (events, finished)."""
    ctx = mp.get_context('fork')
    parent, child = ctx.Pipe(duplex=False)
    proc = ctx.Process(target=target, args=(child, arg))
    proc.start()
    child.close()
    t0, out, done = time.time(), [], False
    try:
        while True:
            if parent.poll(0.02):
                try:
                    x = parent.recv()
                except EOFError:
                    break
                if isinstance(x, str):
                    done = True
                    break
                out.append(x)
                continue
            if not proc.is_alive() and not parent.poll(0.05):
                break
            if time.time() - t0 > limit:
                break
    finally:
        if proc.is_alive():
            proc.kill()
        proc.join()
        parent.close()
    return out, done


# --------------------------------------------------------------------------------------------------------------------- judge
TLC_FIELDS = ('G', 'H', 'mode', 'sym', 'Y', 'E', 'A', 'chk')


def tlc_event(e):
    d = {k: e.get(k, [] if k in ('E', 'A') else False) for k in TLC_FIELDS}
    return d


def judge(events, timeout=3400):
    """TLC verdict for every event: returns (distinct, generated, [verdict])"""
    import shutil
    work = tlc.scratch('c06r_')
    try:
        tf = tlc.write_json(work, 'trace.json', [tlc_event(e) for e in events])
        res = tlc.run('Trace_SubIso', 'SPECIFICATION Spec\n', dump=True, env=dict(JOPTS, TRACE_FILE=tf), workdir=work, workers=1, timeout=timeout)
        verdicts = {st['tid']: st['verdict'] for st in res.states() if st['verdict'] != 'pending'}
    finally:
        shutil.rmtree(work, ignore_errors=True)
    return res.distinct, res.generated, [verdicts.get(i, 'no-verdict') for i in range(1, len(events) + 1)]


# --------------------------------------------------------------------------------------------------------------------- cases
CORE = ['GLY', 'ALA', 'SER', 'CYS', 'VAL', 'THR', 'ASP', 'ASN', 'GLU', 'GLN', 'LEU', 'ILE', 'MET', 'PRO', 'PHE', 'TYR', 'HIS', 'HSE',
        'LYS', 'ARG', 'TRP', 'BENZ', 'ACET', 'MEOH', 'ETHA', 'UREA', 'GUAN', 'NC2', 'CO3', 'NH4']
CORE_H = ['GLY', 'ALA', 'SER', 'VAL', 'ASP', 'BENZ', 'ACET', 'MEOH', 'ETHA', 'GUAN', 'NH4', 'CO3', 'UREA']     # with hydrogens, quick tier
KNOWN_BAD = ('CPEN',)     # cyclopentane with hydrogens: known finding C06-ring5-two-leaves; always in the thorough tier, never in the quick one
TWINS = [('VAL', 'THR'), ('ASP', 'ASN'), ('GLU', 'GLN'), ('CYS', 'SER'), ('LEU', 'ASP'), ('PHE', 'TYR')]


def _case(fam, what, ref, res, eq, cache=False):
    return {'fam': fam, 'what': what, 'ref': ref, 'res': res, 'eq': eq, 'cache': cache}


def block_cases(ff, name, gd, hv, others, rng, eqs=('element', 'name'), maxattach=17):
    """the families of one block: itself, atoms removed, a neighbour's atoms attached (both directions), another block"""
    tag = '%s/%s/%s' % (ff, name, hv)
    n = len(gd['nodes'])
    for eq in eqs:
        yield _case('real:self:' + eq, tag, gd, gd, eq)
        for k in (1, 2, 3):
            if n - k >= 2:
                drop = rng.sample(range(n), k)
                yield _case('real:removed:' + eq, '%s -%s' % (tag, [gd['nodes'][i][1] for i in drop]), gd, without(gd, drop), eq)
        if others:
            oname, ogd = rng.choice(others)
            k = rng.randint(1, 3)
            big = attach(gd, ogd, rng, k)
            if n <= maxattach or eq == 'name':      # shrinking a pattern of 20+ atoms with hydrogens (element equality) takes the matcher minutes
                yield _case('real:attached:' + eq, '%s +%d of %s' % (tag, k, oname), gd, big, eq)
            yield _case('real:inside:' + eq, '%s in itself +%d of %s' % (tag, k, oname), big, gd, eq)
    if others:
        near = sorted(others, key=lambda o: (abs(len(o[1]['nodes']) - n), o[0]))[:4]
        oname, ogd = rng.choice(near)
        yield _case('real:other:element', '%s vs %s' % (tag, oname), gd, ogd, 'element')


def real_cases(tier, seed):
    """(cases, histories).  The CORE part does not depend on the seed (amino acids, small molecules, twins)."""
    L = lib()
    rng = random.Random(seed * 7919 + 17)
    cases, hists = [], []
    fixed = random.Random(4)
    variants = {}
    for ff in FFS:
        for name, gd in L[ff].items():
            variants[ff, name, 'H'] = gd
            hgd = heavy(gd)
            if len(hgd['nodes']) >= 2 and len(hgd['nodes']) < len(gd['nodes']) and hgd['edges']:
                variants[ff, name, 'noH'] = hgd
    by_ff = {ff: [(n, variants[ff, n, 'noH']) for n in L[ff] if (ff, n, 'noH') in variants] for ff in FFS}
    by_ff_h = {ff: [(n, variants[ff, n, 'H']) for n in L[ff]] for ff in FFS}
    if tier == 'quick':
        chosen = [('charmm', n, 'noH') for n in CORE] + [('charmm', n, 'H') for n in CORE_H] + \
                 [('amber', n, 'noH') for n in ('ARG', 'TRP', 'HIP', 'LYS')] + [('gromos', n, 'H') for n in ('ARG', 'PHE', 'TYR', 'LYSH')]
        pool = sorted(k for k in variants if len(variants[k]['nodes']) <= 16 and k[1] not in KNOWN_BAD)
        chosen_seeded = rng.sample(pool, 10)
    else:
        # every amber / gromos block, the charmm core, and a seeded half of the other charmm blocks
        chosen = sorted(k for k in variants if k[0] != 'charmm' or k[1] in CORE or k[1] in KNOWN_BAD)
        rest = sorted(k for k in variants if k[0] == 'charmm' and k[1] not in CORE and k[1] not in KNOWN_BAD)
        chosen_seeded = rng.sample(rest, len(rest) // 6)
    seen = set()
    for which, r in ((chosen, fixed), (chosen_seeded, rng)):
        for key in which:
            if key not in variants or key in seen:
                continue
            seen.add(key)
            ff, name, hv = key
            others = [o for o in (by_ff_h if hv == 'H' else by_ff)[ff] if o[0] != name]
            eqs = ('element', 'name') if (tier != 'quick' or (hv == 'noH' and name in CORE[::2])) else ('element',)
            cases.extend(block_cases(ff, name, variants[key], hv, others, r, eqs, 12 if tier == 'quick' else 17))
    if tier == 'quick':
        for name in KNOWN_BAD:       # one instance of the known finding in every run (the KNOWN-FINDING line is printed; anything else stays a violation)
            if ('charmm', name, 'H') in variants:
                cases.append(_case('real:self:element', 'charmm/%s/H' % name, variants['charmm', name, 'H'], variants['charmm', name, 'H'], 'element'))
    # --- histories: one cache over the residues of a chain -------------------------------------------------------------------
    ch = {n: variants['charmm', n, 'noH'] for n in L['charmm'] if ('charmm', n, 'noH') in variants}
    chH = L['charmm']

    def step(blocks, name, drop=(), junk=False):
        gd = blocks[name]
        res = gd
        if drop:
            res = without(gd, [n[0] for n in gd['nodes'] if n[1] in drop])
        if junk:
            res = {'nodes': [[k, 'X%02d' % i, e] for i, (k, _, e) in enumerate(res['nodes'])], 'edges': res['edges']}
        return _case('', '%s%s%s' % (name, '-' + '-'.join(drop) if drop else '', ' junk names' if junk else ''), gd, res, 'element')

    chains = [
        ('heavy chain', [step(ch, n) for n in ('CYS', 'SER', 'GLU', 'GLN', 'PHE', 'TYR', 'VAL', 'THR', 'ASP', 'ASN', 'LEU', 'ILE', 'ARG', 'LYS')]),
        ('heavy chain, later residues truncated', [step(ch, 'LEU'), step(ch, 'LEU', ('CD2',)), step(ch, 'PHE'), step(ch, 'PHE', ('CZ',)),
                                                   step(ch, 'ARG'), step(ch, 'ARG', ('NH1',)), step(ch, 'ARG', ('NH1', 'NH2')), step(ch, 'VAL', ('CG1',)),
                                                   step(ch, 'VAL'), step(ch, 'ASP', ('OD1',)), step(ch, 'ASP'), step(ch, 'GLU', ('OE2',)), step(ch, 'GLU')]),
        ('heavy chain, junk names', [step(ch, n, (), True) for n in ('VAL', 'THR', 'ASP', 'ASN', 'GLU', 'GLN', 'CYS', 'SER', 'LEU', 'ILE', 'PHE', 'TYR')]),
        ('chain with hydrogens', [step(chH, n) for n in ('GLY', 'ALA', 'SER', 'CYS', 'ALA', 'GLY', 'SER')] + [step(chH, 'ALA', ('HB3',)), step(chH, 'SER', ('HG1',))]),
    ]
    if tier != 'quick':
        chains.append(('chain with hydrogens 2', [step(chH, n) for n in ('VAL', 'THR', 'ASP', 'ASN', 'VAL', 'ASP')] + [step(chH, 'VAL', ('HG11',)), step(chH, 'THR', ('HG1',))]))
        chains.append(('trp-cage heavy', [step(ch, n) for n in ('ASN', 'LEU', 'TYR', 'ILE', 'GLN', 'TRP', 'LEU', 'LYS', 'ASP', 'GLY', 'GLY', 'PRO', 'SER', 'SER', 'GLY', 'ARG', 'PRO', 'PRO', 'PRO', 'SER')]))
        for k in range(6):
            names = [rng.choice(sorted(ch)) for _ in range(10)]
            chains.append(('random heavy chain %d' % k, [step(ch, n, (), rng.random() < 0.3) for n in names]))
    for what, steps in chains:
        hists.append({'fam': 'history:chain', 'what': what, 'steps': steps})
    # twins: same skeleton, same numbering, different elements, one cache (both orders)
    for a, b in TWINS:
        if a in ch and b in ch:
            tw = twin_presentation(ch[a], ch[b])
            if tw is None:
                continue
            ra, rb = tw
            sa = _case('', '%s as twin' % a, ch[a], ra, 'element')
            sb = _case('', '%s as twin of %s' % (b, a), ch[b], rb, 'element')
            hists.append({'fam': 'history:twins', 'what': '%s then %s' % (a, b), 'steps': [sa, sb, sa]})
            hists.append({'fam': 'history:twins', 'what': '%s then %s' % (b, a), 'steps': [sb, sa, sb]})
    return cases, hists


# ------------------------------------------------------------------------------------------------------------------- workers
def new_summary():
    return {'d': 0, 'g': 0, 'n': 0, 'fam': {}, 'nontrivial': set(), 'bad': [], 'sample': None, 'inconclusive': {}, 'skipped': {},
            'feat': {}, 'machinery': []}


def merge(a, b):
    for k in ('d', 'g', 'n'):
        a[k] += b[k]
    for k in ('fam', 'inconclusive', 'skipped', 'feat'):
        for x, n in b.get(k, {}).items():
            a[k][x] = a[k].get(x, 0) + n
    a['nontrivial'] |= b['nontrivial']
    a['bad'] += b['bad']
    a['machinery'] = a.get('machinery', []) + b.get('machinery', [])
    if a.get('sample') is None:
        a['sample'] = b.get('sample')
    a.setdefault('samples_real', [])
    a['samples_real'] += b.get('samples_real', [])
    del a['samples_real'][2:]


def scenario_of(e, verdict=''):
    return dict({k: e[k] for k in ('G', 'H', 'mode', 'sym', 'Y', 'E', 'A', 'chk', 'fam', 'what', 'eq') if k in e}, verdict=verdict)


def ring5_two_leaves(H):
    """does the pattern contain a 5-ring whose five atoms each carry exactly two degree-1 neighbours (cyclopentane C5H10)?"""
    adj = {n: set() for n, _ in H['nodes']}
    for a, b, _ in H['edges']:
        adj[a].add(b)
        adj[b].add(a)
    leaf = {n for n in adj if len(adj[n]) == 1}
    core = {n for n in adj if len(adj[n] & leaf) == 2 and len(adj[n] - leaf) == 2}
    for n in core:
        ring, prev, cur = [n], None, n
        while True:
            nxt = [x for x in adj[cur] - leaf if x in core and x != prev]
            if not nxt:
                break
            prev, cur = cur, nxt[0]
            if cur == n:
                if len(ring) == 5:
                    return True
                break
            if cur in ring or len(ring) > 5:
                break
            ring.append(cur)
    return False


SIGNATURES = {
    # ISMAGS finds no ring rotation for cyclopentane-like patterns (coset of the first ring atom is itself only): several
    # representatives of one class with symmetry on
    'C06-ring5-two-leaves': lambda kind, sc: sc.get('verdict') == 'two-representatives-of-one-class' and sc.get('sym') and ring5_two_leaves(sc['H']),
}


def judge_into(events, sm):
    """events recorded by the children -> verdicts -> summary (features for the vacuity rules)"""
    import hashlib
    judged = []
    for e in events:
        if e['mode'] == 'skipped':
            sm['skipped'][e['fam'] + ': ' + e['why']] = sm['skipped'].get(e['fam'] + ': ' + e['why'], 0) + 1
        elif e['mode'] == 'harness-error':
            sm['machinery'].append('%s %s: %s' % (e['fam'], e['what'], e['why']))
        else:
            judged.append(e)
    if not judged:
        return
    d, g, verdicts = judge(judged)
    sm['d'] += d
    sm['g'] += g
    feat = sm['feat']

    def bump(k):
        feat[k] = feat.get(k, 0) + 1
    for e, v in zip(judged, verdicts):
        sm['n'] += 1
        sm['fam'][e['fam']] = sm['fam'].get(e['fam'], 0) + 1
        if e['err']:
            v = 'matcher-raised ' + e['err']
        fam = e['fam'].split(':')[0] + ':' + e['fam'].split(':')[1]
        if v.startswith('certificate:') or v.startswith('judges-disagree') or v == 'no-verdict':
            if v.startswith('judges-disagree'):
                sm['bad'].append((scenario_of(e, v), '%s symmetry=%s on %s (%s): %s' % (e['mode'], e['sym'], e['fam'], e['what'], v)))
            else:
                sm['machinery'].append('%s %s: %s' % (e['fam'], e['what'], v))
            continue
        bump(fam + ' judged')
        if e.get('nA', 0) > 1:
            bump(fam + ' symmetric pattern')
            if e['sym'] and e['mode'].startswith('iso') and e.get('nE', 0) > 0:
                bump(fam + ' symmetric pattern, symmetry on, isomorphisms exist')
        if e.get('nA', 0) >= 12:
            bump(fam + ' |Aut| >= 12')
        if e['mode'].endswith('-both'):
            bump('judged by enumeration AND certificate')
        if e['mode'].startswith('lcs') and len(e['H']['nodes']) > len(e['G']['nodes']):
            bump(fam + ' lcs, pattern larger than graph')
        if e.get('cache_size') is not None and e['fam'].startswith('history'):
            bump(fam + ' queries with a shared cache')
        if len(e['H']['nodes']) >= 2 and len(e['G']['nodes']) >= 2:
            case = [e['G'], e['H'], e['mode'].split('-')[0], e['sym']]
            sm['nontrivial'].add(hashlib.sha1(json.dumps(case, sort_keys=True).encode()).hexdigest()[:16])
        if v != 'ok':
            sm['bad'].append((scenario_of(e, v), '%s symmetry=%s on %s (%s): %s' % (e['mode'], e['sym'], e['fam'], e['what'], v)))
        elif len(sm.setdefault('samples_real', [])) < 1 and e.get('nA', 0) > 1 and len(e['Y']) >= 1 and len(e.get('E', [])) <= 12:
            sm['samples_real'].append({k: e[k] for k in ('fam', 'what', 'eq', 'G', 'H', 'mode', 'sym', 'Y', 'E', 'A')})


def _worker(queues, rq, limits, wid, syn_handler):
    import queue
    sm = new_summary()
    buf = []
    queues = list(queues)
    try:
        while queues:
            try:
                task = queues[0].get(timeout=0.3)
            except queue.Empty:
                queues.pop(0)
                continue
            if task[0] == 'syn':
                merge(sm, dict(new_summary(), **syn_handler(task[1])))
                continue
            target = _case_child if task[0] == 'case' else _hist_child
            evs, done = run_killable(target, task[1], limits[0] if task[0] == 'case' else limits[1])
            buf += evs
            if not done:
                key = task[1]['fam']
                sm['inconclusive'][key] = sm['inconclusive'].get(key, 0) + 1
            if len(buf) >= 800:
                judge_into(buf, sm)
                buf = []
        if buf:
            judge_into(buf, sm)
        rq.put(('ok', wid, sm))
    except tlc.MachineryError as exc:
        rq.put(('machinery', wid, str(exc)[-3000:]))
    except Exception:      # noqa
        import traceback
        rq.put(('machinery', wid, traceback.format_exc()[-3000:]))


def run_tasks(tasks, limits, syn_handler, nproc=None, nreal=None):
    """tasks: ('syn', args) | ('case', case) | ('hist', history).  Non-daemonic workers (they fork killable children) pull from a
    queue, run, judge their own events, return one summary each."""
    import queue
    lib()                                   # loaded once, inherited by the forks
    ctx = mp.get_context('fork')
    # the first `nreal` workers take the real-pattern tasks (then help with the rest); few workers = few judge JVMs
    realq, synq, rq = ctx.Queue(), ctx.Queue(), ctx.Queue()
    for t in tasks:
        (synq if t[0] == 'syn' else realq).put(t)
    n = min(nproc or tlc.NCPU, max(1, len(tasks)))
    nreal = n if nreal is None else min(nreal, n)
    procs = [ctx.Process(target=_worker, args=((realq, synq) if i < nreal else (synq,), rq, limits, i, syn_handler)) for i in range(n)]
    for p in procs:
        p.start()
    total, got, dead_since = new_summary(), 0, None
    while got < n:
        try:
            kind, wid, payload = rq.get(timeout=0.5)
        except queue.Empty:
            if all(not p.is_alive() for p in procs):
                dead_since = dead_since or time.time()
                if time.time() - dead_since > 5:
                    raise tlc.MachineryError('%d of %d C06 workers ended without a result' % (n - got, n))
            continue
        got += 1
        if kind != 'ok':
            for p in procs:
                p.is_alive() and p.kill()
            raise tlc.MachineryError('C06 worker %s failed: %s' % (wid, payload))
        merge(total, payload)
    for p in procs:
        p.join()
    return total
