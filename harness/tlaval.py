"""Parser for TLA+ values as printed by TLC (state dumps, -simulate files, PrintT).

Mapping to Python:
  integers -> int, strings -> str, TRUE/FALSE -> bool, model values/identifiers -> Sym(name)
  <<a, b>> -> tuple, {a, b} -> frozenset, [f |-> v, ...] -> dict (str keys)
  (k :> v @@ ...) -> dict (any hashable keys), a..b -> frozenset(range)
Functions whose domain is 1..n are printed by TLC as sequences already.
"""
import re

_TOKEN = re.compile(r'''
    \s*(?:
      (?P<str>"(?:[^"\\]|\\.)*")
    | (?P<int>-?\d+)
    | (?P<op><<|>>|\|->|:>|@@|\.\.|[\[\]{}(),])
    | (?P<id>[A-Za-z_][A-Za-z0-9_!]*)
    )''', re.X)


class Sym(str):
    """A model value / bare identifier."""
    def __repr__(self):
        return 'Sym(%s)' % str.__repr__(self)


def tokenize(text):
    pos, n, out = 0, len(text), []
    while pos < n:
        m = _TOKEN.match(text, pos)
        if not m:
            if text[pos:].strip() == '':
                break
            raise ValueError('cannot tokenize TLA+ value at %r' % text[pos:pos + 40])
        pos = m.end()
        kind = m.lastgroup
        out.append((kind, m.group(kind)))
    return out


def _unescape(s):
    return s[1:-1].replace('\\"', '"').replace('\\\\', '\\').replace('\\n', '\n').replace('\\t', '\t')


class _P:
    def __init__(self, toks):
        self.t = toks
        self.i = 0

    def peek(self):
        return self.t[self.i] if self.i < len(self.t) else (None, None)

    def eat(self, val=None):
        k, v = self.t[self.i]
        if val is not None and v != val:
            raise ValueError('expected %r got %r at token %d' % (val, v, self.i))
        self.i += 1
        return k, v

    def value(self):
        v = self.atom()
        k, nv = self.peek()
        if nv == '..':
            self.eat()
            hi = self.atom()
            return frozenset(range(v, hi + 1))
        return v

    def atom(self):
        k, v = self.eat()
        if k == 'int':
            return int(v)
        if k == 'str':
            return _unescape(v)
        if k == 'id':
            if v == 'TRUE':
                return True
            if v == 'FALSE':
                return False
            return Sym(v)
        if v == '<<':
            items = []
            if self.peek()[1] == '>>':
                self.eat()
                return ()
            while True:
                items.append(self.value())
                k2, v2 = self.eat()
                if v2 == '>>':
                    return tuple(items)
                if v2 != ',':
                    raise ValueError('bad tuple')
        if v == '{':
            items = []
            if self.peek()[1] == '}':
                self.eat()
                return frozenset()
            while True:
                items.append(_freeze(self.value()))
                k2, v2 = self.eat()
                if v2 == '}':
                    return frozenset(items)
                if v2 != ',':
                    raise ValueError('bad set')
        if v == '[':
            d = {}
            while True:
                k2, name = self.eat()
                self.eat('|->')
                d[str(name)] = self.value()
                k3, v3 = self.eat()
                if v3 == ']':
                    return d
                if v3 != ',':
                    raise ValueError('bad record')
        if v == '(':
            d = {}
            while True:
                key = _freeze(self.value())
                self.eat(':>')
                d[key] = self.value()
                k3, v3 = self.eat()
                if v3 == ')':
                    return d
                if v3 != '@@':
                    raise ValueError('bad function')
        raise ValueError('unexpected token %r' % (v,))


class FrozenDict(dict):
    def __hash__(self):
        return hash(frozenset(self.items()))


def _freeze(v):
    if isinstance(v, dict):
        return FrozenDict((k, _freeze(x)) for k, x in v.items())
    if isinstance(v, tuple):
        return tuple(_freeze(x) for x in v)
    return v


def parse(text):
    p = _P(tokenize(text))
    v = p.value()
    if p.i != len(p.t):
        raise ValueError('trailing tokens in TLA+ value: %r' % (p.t[p.i:p.i + 5],))
    return v


_STATE_HDR = re.compile(r'^State (\d+):', re.M)


def parse_state_body(body):
    """'/\\ a = 1\n/\\ b = 2' (or single 'a = 1') -> dict"""
    body = body.strip()
    if not body:
        return {}
    parts = re.split(r'(?:^|\n)/\\ ', body)
    out = {}
    for part in parts:
        part = part.strip()
        if not part:
            continue
        name, _, val = part.partition(' = ')
        # value may begin on the next line
        if not _:
            name, _, val = part.partition('=')
        out[name.strip()] = parse(val)
    return out


def parse_dump(path):
    """Parse a file written by `tlc -dump <file>`; yields state dicts."""
    with open(path) as fh:
        text = fh.read()
    chunks = _STATE_HDR.split(text)
    # chunks: [pre, num, body, num, body...]
    for j in range(2, len(chunks), 2):
        yield parse_state_body(chunks[j])


_SIM_ACTION = re.compile(r'^\\\* <(\w+)(?:\((.*?)\))? line', re.M)


def parse_simulate_file(path):
    """Parse one behaviour file written by `tlc -simulate file=...`.
    Returns list of (action_name|None, args_text|None, state_dict)."""
    with open(path) as fh:
        text = fh.read()
    out = []
    # pieces: '\* <Action line ...>\nSTATE_n == \n/\ ...\n\n'
    for m in re.finditer(r'(?:\\\* <(.*?) line \d+, col \d+ to line \d+, col \d+ of module \w+>\s*\n)?'
                         r'STATE_(\d+) ==\s*\n(.*?)(?=\n\s*\n|\Z)', text, re.S):
        label, num, body = m.group(1), m.group(2), m.group(3)
        act = args = None
        if label:
            mm = re.match(r'(\w+)(?:\((.*)\))?\s*$', label, re.S)
            if mm:
                act, args = mm.group(1), mm.group(2)
        out.append((act, args, parse_state_body(body)))
    return out


def to_tla(v):
    """Python value -> TLA+ expression text (for generated constants)."""
    if isinstance(v, bool):
        return 'TRUE' if v else 'FALSE'
    if isinstance(v, Sym):
        return str(v)
    if isinstance(v, int):
        return str(v)
    if isinstance(v, str):
        return '"' + v.replace('\\', '\\\\').replace('"', '\\"') + '"'
    if isinstance(v, (tuple, list)):
        return '<<' + ', '.join(to_tla(x) for x in v) + '>>'
    if isinstance(v, (set, frozenset)):
        return '{' + ', '.join(to_tla(x) for x in sorted(v, key=repr)) + '}'
    if isinstance(v, dict):
        if not v:
            return '<<>>'
        if all(isinstance(k, str) and not isinstance(k, Sym) and re.match(r'^[A-Za-z_]\w*$', k) for k in v):
            return '[' + ', '.join('%s |-> %s' % (k, to_tla(x)) for k, x in v.items()) + ']'
        return '(' + ' @@ '.join('%s :> %s' % (to_tla(k), to_tla(x)) for k, x in v.items()) + ')'
    raise TypeError(type(v))
