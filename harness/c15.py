"""C15 - elastic-network bonds are exactly the pairs meeting every stated criterion.

spec/PairGraph.tla         residue graph, graph distance with cut-off (BFS = walk form), pm^2 geometry, 2-limb products
spec/ElasticNet.tla        the five criteria, ExpectedDecl (statement) / ExpectedOp (matrix-and-slice shape of the
                           implementation), TAB model: beads on a line x selections x residue partitions x chains x
                           domain kinds x separations x cut-offs x minimum forces x cross-link            (TAB)
spec/Trace_ElasticNet.tla  TLC judges recorded runs of the real ApplyRubberBand.run_molecule              (TRACE)

spec -> code: every (input, expected bond set) row of the TAB dump is rebuilt as a real Molecule (exactly
representable coordinates, so distances ON the cut-off are decided exactly), run through the real processor and
compared with TLC's set.
code -> spec: seeded random molecules (1-3 chains, 1-3 beads per residue, gaps, cross-links, shuffled node keys,
irregular selections, domain criteria molecule/chain/regions, decay sets) are run through the real processor
together with a rotated + translated + re-ordered twin; the recorded bonds are judged by TLC.  One generator family
per criterion in which that criterion is the ONLY one excluding any pair; TLC classifies every pair and the harness
requires the sole-excluder class of every family to be inhabited (vacuity -> exit 2).

History / system families (extension): `hist` builds a System of 2-4 molecules (each with its OWN force field object: variables
elastic_network_res_min_dist / elastic_network_bond_type present or not; one molecule with NaN coordinates in the selection, one whose
UNSELECTED atoms have no position, one without any selected atom) and runs ONE ApplyRubberBand object over it with run_system -
twice in half of the cases (`hist-twice`: the second call must ADD the same network again and leave everything that was there alone;
what is judged is the set of bonds each call adds).  Every molecule of every call is one record judged by the same TLC operators.
`lowdecay` (even / odd power with distances below the lower bound), `cyc` (ring-closing and branching cross-links: separation along
the residue graph differs from the difference of residue numbers), `dupname` (selection by names that occur twice in a residue,
through the selector the command line builds for -eb) and region lists with a shared hinge residue / nested / overlapping / reversed
widen the sole-criterion families.  The real command line is harness/c15_real.py + spec/ElasticFiles.tla.

Float boundary (stated tolerances): coordinates are integer picometres handed to vermouth as pm/1000 nm; a bond length
must be a 5-decimal number (|len*1e5 - round| <= 1e-6) and is then compared exactly by TLC (nearest integer to
100*sqrt(d2)); force constants are compared in units of 1e-6 with +-1 unit; exp() of the decay is evaluated here with
math.exp (DESIGN.md: the only rule not evaluated by TLC).  Never generated: pairs with d == cut-off unless exactly
representable (TAB rows only), 100*sqrt(d2) within 1e-4 of a half integer, decayed constants within 1e-5 of the
minimum force, non-integer decay power with a distance below the lower bound, negative minimum force, a non-zero decay
factor with power 0 (the documentation contradicts its own formula there)."""
import logging
import math
import multiprocessing as mp
import os
import random

from . import common, tlc, tlaval

PID = 'C15'
MICRO = 1000000
SAT = 2000000000
CRITERIA = ['sel', 'dom', 'sep', 'cut', 'force']
SOLE = {'sel': 'sel', 'dom': 'dom', 'sep': 'sep', 'cut': 'cut', 'force': 'force', 'lowdecay': 'force', 'cyc': 'sep'}   # family -> its sole excluder
FAMILIES = CRITERIA + ['mixed', 'nan', 'lowdecay', 'cyc', 'dupname']

TAB_CFG = ("SPECIFICATION Spec\nINVARIANT OpIsDecl\nINVARIANT BallIsWalk\nINVARIANT WellFormed\nINVARIANT SubSelection\n"
           "INVARIANT MonoSeparation\nINVARIANT MonoCutoff\nINVARIANT OrderInvariant\n")
TAB_CONSTS = {
    'quick': {'NB': '4', 'Spacing': '250', 'Ups': '{300, 500, 800}', 'Rmds': '0..3', 'Minfs': '{0, 500000000}',
              'Base': '500000000',
              'Partitions': '{<<1,2,3,4>>, <<1,1,2,3>>, <<1,2,1,2>>}',
              'ChainSplits': '{<<"A","A","A","A">>, <<"A","A","B","B">>}',
              'DomKinds': '{"molecule", "chain", "regions"}',
              'TabRegions': '{<<<<1, 2>>, <<4, 3>>>>, <<<<3, 2>>, <<1, 2>>>>}'},
    'thorough': {'NB': '5', 'Spacing': '250', 'Ups': '{300, 500, 800, 1000}', 'Rmds': '0..3', 'Minfs': '{0, 500000000}',
                 'Base': '500000000',
                 'Partitions': '{<<1,2,3,4,5>>, <<1,1,2,3,3>>, <<1,2,2,3,4>>, <<1,2,1,2,3>>, <<1,1,1,2,2>>}',
                 'ChainSplits': '{<<"A","A","A","A","A">>, <<"A","A","B","B","B">>, <<"A","B","B","C","C">>}',
                 'DomKinds': '{"molecule", "chain", "regions"}',
                 'TabRegions': '{<<<<1, 2>>, <<4, 3>>>>, <<<<1, 2>>, <<2, 4>>>>, <<<<4, 2>>, <<1, 5>>>>, <<<<1, 3>>, <<2, 5>>>>}'},
}
RESNAMES = ['ALA', 'GLY', 'LYS', 'CYS']
BEADNAMES = ['BB', 'SC1', 'SC2']


# ------------------------------------------------------------------------------------------------- real code
class _Capture(logging.Handler):
    def __init__(self):
        super().__init__(level=1)
        self.records = []

    def emit(self, record):
        self.records.append(record)


def _selector(spec):
    from vermouth import selectors
    kind = spec['kind']
    if kind == 'backbone':
        return selectors.select_backbone
    if kind == 'all':
        return selectors.select_all
    if kind == 'names':          # exactly what bin/martinize2 builds for -eb
        import functools
        return functools.partial(selectors.proto_select_attribute_in, attribute='atomname', values=list(spec['names']))
    return lambda atom: bool(atom.get('verif_sel'))


def _rotation(q):
    import numpy as np
    w, x, y, z = q
    n = math.sqrt(w * w + x * x + y * y + z * z)
    w, x, y, z = w / n, x / n, y / n, z / n
    return np.array([[1 - 2 * (y * y + z * z), 2 * (x * y - z * w), 2 * (x * z + y * w)],
                     [2 * (x * y + z * w), 1 - 2 * (x * x + z * z), 2 * (y * z - x * w)],
                     [2 * (x * z - y * w), 2 * (y * z + x * w), 1 - 2 * (x * x + y * y)]])


def _spec_of(sc, key, effective):
    """How the separation / the bond function type reaches the processor: {'given', 'val', 'ffhas', 'ffval'} (older scenarios and
    TAB rows only say via_ff)."""
    if key in sc:
        return sc[key]
    if sc.get('via_ff'):
        return {'given': False, 'val': 0, 'ffhas': True, 'ffval': effective}
    return {'given': True, 'val': effective, 'ffhas': False, 'ffval': 0}


def make_force_field(sc, name):
    from vermouth.forcefield import ForceField
    ff = ForceField(name='verif_c15_' + name)
    rs, bs = _spec_of(sc, 'rmdspec', sc['rmd']), _spec_of(sc, 'btspec', 6)
    if rs['ffhas']:
        ff.variables['elastic_network_res_min_dist'] = rs['ffval']
    if bs['ffhas']:
        ff.variables['elastic_network_bond_type'] = bs['ffval']
    return ff


def build_molecule(sc, twin=False, moltype='verif_mol', ff=None):
    """Real Molecule of the scenario (with a force field object of its own unless one is given); returns (molecule, key -> particle index)."""
    import numpy as np
    from vermouth.molecule import Molecule
    ff = ff or make_force_field(sc, moltype)
    mol = Molecule(force_field=ff, nrexcl=1, meta={'moltype': moltype})
    lay = sc['twin'] if twin else sc['layout']
    keys, order = lay['keys'], lay['order']          # keys[i] = node key of particle i+1; order = insertion order
    rot = _rotation(lay['quat']) if lay.get('quat') else None
    shift = np.array(lay.get('shift', [0.0, 0.0, 0.0]), dtype=float)
    for idx in order:
        a = sc['atoms'][idx]
        attrs = {'atomname': a['name'], 'resid': a['resid'], 'resname': a['resname'], 'verif_sel': a['sel']}
        if a['chain'] != '-':
            attrs['chain'] = a['chain']
        if a['hasold']:
            attrs['_old_resid'] = a['old']
        if a.get('nopos'):                            # an UNSELECTED atom without coordinates: key absent or None
            if a['nopos'] == 'none':
                attrs['position'] = None
        elif a['nan']:
            attrs['position'] = np.array([float('nan') if f else 0.25 for f in a['nanmask']])
        else:
            pos = np.array(a['pos'], dtype=float) / 1000.0
            if rot is not None:
                pos = rot @ pos
            attrs['position'] = pos + shift
        mol.add_node(keys[idx], **attrs)
    for i, j in sc['edges']:
        mol.add_edge(keys[i - 1], keys[j - 1])
    for i, j in sc['edges'][: sc.get('prebonds', 0)]:
        mol.add_interaction('bonds', (keys[i - 1], keys[j - 1]), [1, 0.35, 1250], meta={'group': 'verif backbone'})
    return mol, {k: i + 1 for i, k in enumerate(keys)}


def make_processor(sc):
    from vermouth.processors import apply_rubber_band as arb
    dom = sc['dom']
    kwargs = {}
    if dom['kind'] == 'chain':
        kwargs['domain_criterion'] = arb.same_chain
    elif dom['kind'] == 'regions':
        kwargs['domain_criterion'] = arb.make_same_region_criterion([tuple(r) for r in dom['regions']])
    elif sc.get('explicit_domain'):
        kwargs['domain_criterion'] = arb.always_true
    if sc['selector']['kind'] != 'backbone' or sc.get('explicit_selector'):
        kwargs['selector'] = _selector(sc['selector'])
    rs, bs = _spec_of(sc, 'rmdspec', sc['rmd']), _spec_of(sc, 'btspec', 6)
    if rs['given']:
        kwargs['res_min_dist'] = rs['val']
    if bs['given']:
        kwargs['bond_type'] = bs['val']
    return arb.ApplyRubberBand(lower_bound=sc['lo'] / 1000.0, upper_bound=sc['up'] / 1000.0,
                               decay_factor=sc['a'], decay_power=sc['p'],
                               base_constant=sc['base'] / MICRO, minimum_force=sc['minf'] / MICRO, **kwargs)


def _snapshot(mol):
    return [(tuple(b.atoms), [repr(x) for x in b.parameters], sorted((str(k), repr(v)) for k, v in b.meta.items()))
            for b in mol.interactions.get('bonds', [])]


def _project(mol, index, before):
    """Bonds of group "Rubber band" ADDED since `before`; others = everything that was there is still what and where it was and
    nothing else was added."""
    after = _snapshot(mol)
    others = after[:len(before)] == before
    bonds = []
    for b in mol.interactions.get('bonds', [])[len(before):]:
        if b.meta.get('group') != 'Rubber band':
            others = False
            continue
        length, k = float(b.parameters[1]), float(b.parameters[2])
        l5 = round(length * 1e5) if math.isfinite(length) else -1
        if l5 >= 0 and abs(length * 1e5 - l5) > 1e-6:
            l5 = -1                                   # not a 5-decimal number: TLC rejects the length
        ki = round(k * MICRO) if math.isfinite(k) and abs(k) < 2000 else -1
        try:
            ft = int(b.parameters[0])
        except (TypeError, ValueError):
            ft = -1
        bonds.append({'a': index[b.atoms[0]], 'b': index[b.atoms[1]], 'len': l5, 'k': ki, 'ft': ft})
    return bonds, bool(others)


class _Listen:
    """Records what vermouth's apply_rubber_band logger emits while active."""
    def __enter__(self):
        from vermouth.processors import apply_rubber_band as arb
        self.logger = logging.getLogger(arb.__name__)
        self.cap = _Capture()
        self.old_level = self.logger.level
        self.logger.addHandler(self.cap)
        self.logger.setLevel(1)
        return self

    def __exit__(self, *exc):
        self.logger.removeHandler(self.cap)
        self.logger.setLevel(self.old_level)

    def warnings(self, needle=None):
        n = 0
        for r in self.cap.records:
            if r.levelno < logging.WARNING:
                continue
            try:
                text = r.getMessage()
            except Exception:       # noqa
                text = str(r.msg) + ' ' + ' '.join(str(a) for a in (r.args or ()))
            if needle is None or needle in text:
                n += 1
        return n


def run_real(sc, twin=False):
    """Run the real processor on one molecule; project the result to integers."""
    mol, index = build_molecule(sc, twin)
    proc = make_processor(sc)
    before = _snapshot(mol)
    exc = ''
    with _Listen() as ear:
        try:
            proc.run_molecule(mol)
        except Exception as err:      # the statement promises a warning, not a failure
            exc = repr(err)
    bonds, others = _project(mol, index, before)
    return {'exc': bool(exc), 'excmsg': exc, 'warn': ear.warnings(), 'bonds': bonds, 'others': others}


def run_system_real(ssc):
    """ONE processor object over one or two Systems (a System has one force field; the molecules of a group share it) of several
    molecules, run_system on each, the whole round `calls` times.  Returns per round and molecule the record of what that round did
    to that molecule."""
    from vermouth.system import System
    systems, ffs, built = {}, {}, []
    for k, sc in enumerate(ssc['mols']):
        g = sc.get('group', 0)
        if g not in systems:
            ffs[g] = make_force_field(sc, 'group_%d' % g)
            systems[g] = System(force_field=ffs[g])
        mol, index = build_molecule(sc, moltype='verif_mol_%d' % k, ff=ffs[g])
        built.append((mol, index))
        systems[g].add_molecule(mol)
    proc = make_processor(ssc['mols'][0])
    out = []
    for call in range(ssc['calls']):
        before = [_snapshot(m) for m, _ in built]
        exc = ''
        with _Listen() as ear:
            try:
                for g in sorted(systems):
                    proc.run_system(systems[g])
            except Exception as err:       # noqa
                exc = repr(err)
        now = [m for g in sorted(systems) for m in systems[g].molecules]
        then = [b[0] for g in sorted(systems) for b, sc in zip(built, ssc['mols']) if sc.get('group', 0) == g]
        same_objects = len(now) == len(then) and all(a is b for a, b in zip(now, then))
        recs = []
        for k, (mol, index) in enumerate(built):
            bonds, others = _project(mol, index, before[k])
            recs.append({'exc': bool(exc) or not same_objects, 'excmsg': exc, 'warn': ear.warnings('verif_mol_%d' % k), 'bonds': bonds,
                         'others': others})
        out.append(recs)
    return out


# ------------------------------------------------------------------------------------------------ model input
def raw_k(sc, i, j):
    """Documented decay base*exp(-a (d - lower)^p) in 1e-6 units, saturated (the one rule evaluated in Python)."""
    pa, pb = sc['atoms'][i]['pos'], sc['atoms'][j]['pos']
    d = math.sqrt(sum((x - y) ** 2 for x, y in zip(pa, pb))) / 1000.0
    try:
        v = sc['base'] * math.exp(-sc['a'] * (d - sc['lo'] / 1000.0) ** sc['p'])
    except OverflowError:
        return SAT
    return int(min(round(v), SAT))


def _undefined(a):
    return bool(a['nan'] or a.get('nopos'))


def model_input(sc):
    n = len(sc['atoms'])
    decay = bool(sc['a'])
    rawk = []
    if decay:
        for i in range(n):
            row = []
            for j in range(n):
                bad = i == j or _undefined(sc['atoms'][i]) or _undefined(sc['atoms'][j])
                row.append(0 if bad else raw_k(sc, i, j))
            rawk.append(row)
    atoms = [{'chain': a['chain'], 'resid': a['resid'], 'resname': a['resname'], 'hasold': a['hasold'], 'old': a['old'],
              'sel': a['sel'], 'nan': _undefined(a), 'pos': list(a['pos']), 'name': a['name']} for a in sc['atoms']]
    return {'atoms': atoms, 'edges': [list(e) for e in sc['edges']],
            'dom': {'kind': sc['dom']['kind'], 'regions': [list(r) for r in sc['dom']['regions']]},
            'rmd': 0, 'rmdspec': _spec_of(sc, 'rmdspec', sc['rmd']), 'btspec': _spec_of(sc, 'btspec', 6),
            'up': sc['up'], 'lo': sc['lo'], 'base': sc['base'], 'minf': sc['minf'], 'decay': decay, 'rawk': rawk}


def numerics_ok(sc):
    """Reject inputs on which a criterion lies numerically on its threshold (left unspecified by the statement)."""
    atoms = sc['atoms']
    decay = bool(sc['a'])
    integer_power = float(sc['p']).is_integer()
    for i in range(len(atoms)):
        for j in range(i + 1, len(atoms)):
            if _undefined(atoms[i]) or _undefined(atoms[j]):
                continue
            d2 = sum((x - y) ** 2 for x, y in zip(atoms[i]['pos'], atoms[j]['pos']))
            if d2 < 10000 or d2 >= 90000000 or d2 == sc['up'] ** 2:
                return False
            frac = (100.0 * math.sqrt(d2)) % 1.0
            if abs(frac - 0.5) < 1e-4:
                return False
            if not integer_power and d2 <= (sc['lo'] + 1) ** 2:
                return False
            if decay and abs(min(raw_k(sc, i, j), sc['base']) - sc['minf']) < 10:
                return False
            if decay and abs(raw_k(sc, i, j) - sc['base']) < 10 and d2 != sc['lo'] ** 2:
                return False
    return True


# --------------------------------------------------------------------------------------------------- generator
def _unit(rng):
    while True:
        v = [rng.gauss(0, 1) for _ in range(3)]
        n = math.sqrt(sum(x * x for x in v))
        if n > 1e-3:
            return [x / n for x in v]


def _layout(rng, n, motion):
    keys = rng.sample(range(0, 5 * n + 10), n)
    if rng.random() < 0.3:
        keys = sorted(keys)
    order = list(range(n))
    if rng.random() < 0.7:
        rng.shuffle(order)
    lay = {'keys': keys, 'order': order}
    if motion:
        lay['quat'] = [rng.gauss(0, 1) for _ in range(4)]
        lay['shift'] = [round(rng.uniform(-4, 4), 3) for _ in range(3)]
    return lay


def _pick_specs(rng, sc):
    """How separation and bond type reach the processor: as argument (the force field may hold ANOTHER value: the argument wins),
    through the force field variable, or not at all (documented defaults 2 and 6)."""
    r = rng.random()
    if sc['rmd'] == 2 and r < 0.25:
        sc['rmdspec'] = {'given': False, 'val': 0, 'ffhas': False, 'ffval': 0}
    elif r < 0.55:
        sc['rmdspec'] = {'given': False, 'val': 0, 'ffhas': True, 'ffval': sc['rmd']}
    else:
        other = rng.random() < 0.5
        sc['rmdspec'] = {'given': True, 'val': sc['rmd'], 'ffhas': other, 'ffval': sc['rmd'] + 1 if other else 0}
    bt = rng.choice([1, 6, 6])
    r = rng.random()
    if bt == 6 and r < 0.3:
        sc['btspec'] = {'given': False, 'val': 0, 'ffhas': False, 'ffval': 0}
    elif r < 0.6:
        sc['btspec'] = {'given': False, 'val': 0, 'ffhas': True, 'ffval': bt}
    else:
        other = rng.random() < 0.5
        sc['btspec'] = {'given': True, 'val': bt, 'ffhas': other, 'ffval': 7 - bt if other else 0}


def gen_regions(rng, vals, mode):
    """Region list over the residue numbers `vals` (sorted).  hinge: two regions share exactly one residue number; nested; overlap;
    reversed: a region listed high:low; the list itself in either order."""
    if len(vals) < 4:
        mode = 'plain'
    if mode == 'plain':
        regions = []
        for _ in range(rng.randint(1, 3)):
            lo_, hi_ = sorted(rng.sample(vals, 2)) if len(vals) > 1 else (vals[0], vals[0])
            regions.append([hi_, lo_] if rng.random() < 0.3 else [lo_, hi_])
        return regions
    a, b, c, d = sorted(rng.sample(range(len(vals)), 4))
    if mode == 'hinge':
        regions = [[vals[a], vals[b]], [vals[b], vals[d]]]
    elif mode == 'nested':
        regions = [[vals[a], vals[d]], [vals[b], vals[c]]]
    elif mode == 'overlap':
        regions = [[vals[a], vals[c]], [vals[b], vals[d]]]
    else:
        regions = [[vals[b], vals[a]], [vals[d], vals[c]]]
    if rng.random() < 0.3:
        regions[rng.randrange(2)].reverse()
    if rng.random() < 0.5:
        regions.reverse()
    return regions


def gen_scenario(rng, fam):
    """One scenario of family `fam`; in the sole-criterion families every other criterion holds for every pair."""
    single = fam in ('sel', 'dom', 'cut', 'force', 'lowdecay')       # single-bead residues: no pair shares a residue
    nres_total = rng.randint(4, 10) if single else rng.randint(3, 7)
    if fam == 'cyc':
        nres_total = rng.randint(6, 9)
    nchains = rng.choice([1, 2, 2, 3]) if fam != 'cyc' else rng.choice([1, 1, 2])
    nochain = rng.random() < 0.1 and fam not in ('dom',)         # no particle carries a chain identifier
    lonely = rng.randrange(3) if rng.random() < 0.15 else -1      # or only the particles of one chain lack it
    atoms, edges, res_members = [], [], []
    pos_bb = [0, 0, 0]
    chain_of_res = []
    cuts = sorted(rng.sample(range(1, nres_total), min(nchains - 1, nres_total - 1)))
    bounds = [0] + cuts + [nres_total]
    resid = 0
    prev_bb = None
    dup = fam == 'dupname' or (fam == 'mixed' and rng.random() < 0.25)
    for c in range(len(bounds) - 1):
        chain = '-' if (nochain or c == lonely) else 'ABC'[c]
        if c == 0:
            resid = rng.randint(1, 20)
        elif not (single and nochain):      # input numbering may overlap between chains (kept apart when no chain id
            resid = rng.choice([0, resid, rng.randint(1, 30)])   # exists and the family needs one bead per residue)
        old_shift = rng.choice([0, 0, 100, -3])
        prev_bb = None
        for r in range(bounds[c], bounds[c + 1]):
            gap = prev_bb is not None and rng.random() < 0.2
            resid += rng.choice([2, 3]) if gap else 1
            step = _unit(rng)
            pos_bb = [pos_bb[k] + int(round(step[k] * rng.uniform(330, 420) * (2 if gap else 1))) for k in range(3)]
            nbeads = 1 if single else rng.choice([1, 2, 2, 3])
            if dup:
                nbeads = rng.choice([2, 3, 3])
            resname = rng.choice(RESNAMES)
            members = []
            for b in range(nbeads):
                if b == 0:
                    pos = list(pos_bb)
                else:
                    u = _unit(rng)
                    pos = [pos_bb[k] + int(round(u[k] * rng.uniform(220, 340) * b)) for k in range(3)]
                name = BEADNAMES[b] if not single else rng.choice(BEADNAMES + ['CA'])
                if dup and b and rng.random() < 0.5:
                    name = BEADNAMES[rng.randrange(b)]            # a name that the residue has already
                atoms.append({'chain': chain, 'resid': resid, 'resname': resname, 'hasold': False, 'old': resid + old_shift,
                              'sel': True, 'nan': False, 'pos': pos, 'name': name})
                members.append(len(atoms))
                if b:
                    edges.append([members[b - 1] if rng.random() < 0.7 else members[0], members[b]])
            if prev_bb is not None and not (gap and rng.random() < 0.7):
                edges.append([prev_bb, members[0]])
            prev_bb = members[0]
            res_members.append(members)
            chain_of_res.append(chain)
    # a residue sharing chain and resid with its predecessor but not the residue name is still its own residue
    if not single and rng.random() < 0.08 and len(res_members) > 1:
        r = rng.randrange(1, len(res_members))
        if chain_of_res[r] == chain_of_res[r - 1]:
            donor = atoms[res_members[r - 1][0] - 1]
            for idx in res_members[r]:
                atoms[idx - 1]['resid'], atoms[idx - 1]['old'] = donor['resid'], donor['old']
                atoms[idx - 1]['resname'] = 'XYZ'
    nres = len(res_members)
    ncross = rng.choice([0, 0, 1, 2]) if fam != 'cyc' else rng.choice([1, 2, 2, 3])
    for _ in range(ncross):             # cross-links (disulfide-like), also across chains; cyc: rings and branches
        r1, r2 = rng.sample(range(nres), 2)
        if fam == 'cyc' and abs(r1 - r2) < 3:
            r1, r2 = 0, nres - 1 - rng.randrange(2)
        e = [rng.choice(res_members[r1]), rng.choice(res_members[r2])]
        if e not in edges and e[::-1] not in edges:
            edges.append(e)
    n = len(atoms)
    hasold = rng.choice(['all', 'all', 'none', 'some'])
    for a in atoms:
        a['hasold'] = hasold == 'all' or (hasold == 'some' and rng.random() < 0.5)
    sc = {'fam': fam, 'atoms': atoms, 'edges': edges, 'prebonds': rng.randint(0, min(3, len(edges))),
          'explicit_domain': rng.random() < 0.5, 'explicit_selector': rng.random() < 0.5,
          'a': 0.0, 'p': rng.choice([0, 0, 1, 2]), 'lo': rng.choice([0, 300, 500]),
          'base': rng.choice([500, 700, 1000]) * MICRO, 'minf': 0}
    span = 1 + int(max(math.sqrt(sum((x - y) ** 2 for x, y in zip(p['pos'], q['pos']))) for p in atoms for q in atoms))

    # --- selection
    def pick_selection():
        mode = rng.choice(['backbone', 'names', 'alternate', 'random', 'random'])
        if fam == 'dupname':
            mode = 'names'
        if single and mode in ('backbone', 'names'):
            names = ['BB'] if mode == 'backbone' else rng.sample(BEADNAMES + ['CA'], 2)
            for a in atoms:
                a['sel'] = a['name'] in names
            return {'kind': mode, 'names': names}
        if mode == 'backbone':
            for a in atoms:
                a['sel'] = a['name'] == 'BB'
            return {'kind': 'backbone', 'names': ['BB']}
        if mode == 'names':
            names = rng.choice([['BB', 'SC1'], ['SC1'], ['SC1', 'SC2'], ['BB', 'SC2']])
            for a in atoms:
                a['sel'] = a['name'] in names
            return {'kind': 'names', 'names': names}
        for i, a in enumerate(atoms):
            a['sel'] = (i % 2 == 0) if mode == 'alternate' else rng.random() < 0.6
        return {'kind': 'flag', 'names': []}

    def all_selected():
        for a in atoms:
            a['sel'] = True
        return {'kind': rng.choice(['all', 'flag']), 'names': []}

    def pick_domain():
        kind = rng.choice(['chain', 'regions', 'regions'])
        regions = []
        if kind == 'regions':
            vals = sorted({(a['old'] if a['hasold'] else a['resid']) for a in atoms})
            regions = gen_regions(rng, vals, rng.choice(['plain', 'plain', 'hinge', 'nested', 'overlap', 'reversed']))
        return {'kind': kind, 'regions': regions}

    def pick_decay():
        sc['a'] = rng.choice([0.5, 1.0, 2.0, 4.0])
        sc['p'] = rng.choice([1, 2, 2, 3, 6, 0.5, 1.5])
        if not float(sc['p']).is_integer():
            sc['lo'] = 0

    def threshold_between_constants():
        ks = sorted({min(raw_k(sc, i, j), sc['base']) for i in range(n) for j in range(i + 1, n)})
        if len(ks) >= 2:
            t = rng.randrange(len(ks) - 1)
            sc['minf'] = (ks[t] + ks[t + 1]) // 2

    sc['selector'] = all_selected()
    sc['dom'] = {'kind': 'molecule', 'regions': []}
    sc['rmd'] = 0
    sc['up'] = span + rng.randint(5, 400)
    if fam == 'sel':
        sc['selector'] = pick_selection()
    elif fam == 'dom':
        sc['dom'] = pick_domain()
    elif fam == 'sep':
        sc['rmd'] = rng.choice([0, 1, 1, 2, 2, 3])
    elif fam == 'cyc':
        sc['rmd'] = rng.choice([1, 2, 2, 3, 4])
    elif fam == 'cut':
        sc['up'] = rng.randint(400, 1000)
    elif fam == 'force':
        if rng.random() < 0.1:
            sc['minf'] = sc['base'] + rng.choice([0, 1, 50 * MICRO])       # nothing is stiff enough
        else:
            pick_decay()
            threshold_between_constants()
    elif fam == 'lowdecay':          # many distances below the lower bound; even power decays there, odd power is capped
        sc['a'] = rng.choice([0.5, 1.0, 2.0, 4.0])
        sc['p'] = rng.choice([1, 2, 3, 4, 2, 3])
        sc['lo'] = rng.randint(600, 1100)
        threshold_between_constants()
    else:                                                                   # mixed, nan, dupname
        sc['selector'] = pick_selection() if (rng.random() < 0.8 or fam == 'dupname') else all_selected()
        sc['dom'] = pick_domain() if rng.random() < 0.6 else sc['dom']
        sc['rmd'] = rng.choice([0, 1, 2, 2, 3])
        sc['up'] = rng.choice([rng.randint(450, 1200), span + 10])
        if rng.random() < 0.5:
            pick_decay()
            ks = sorted({min(raw_k(sc, i, j), sc['base']) for i in range(n) for j in range(i + 1, n)})
            sc['minf'] = rng.choice([0, ks[len(ks) // 3], (ks[0] + ks[-1]) // 2]) if ks else 0
        elif rng.random() < 0.1:
            sc['minf'] = sc['base']
    if fam == 'nan':
        sel = [i for i, a in enumerate(atoms) if a['sel']]
        unsel = [i for i, a in enumerate(atoms) if not a['sel']]
        victims = rng.sample(sel, min(len(sel), rng.randint(1, 2))) if (sel and (rng.random() < 0.7 or not unsel)) \
            else rng.sample(unsel, 1)
        for v in victims:
            atoms[v]['nan'] = True
            atoms[v]['nanmask'] = rng.choice([[1, 1, 1], [0, 1, 0], [1, 0, 0]])
    _pick_specs(rng, sc)
    sc['layout'] = _layout(rng, n, motion=False)
    sc['twin'] = _layout(rng, n, motion=True)
    return sc


def make_scenario(rng, fam):
    for _ in range(200):
        sc = gen_scenario(rng, fam)
        if numerics_ok(sc):
            return sc
    raise tlc.MachineryError('generator cannot find a numerically unambiguous scenario for family ' + fam)


SHARED = ('lo', 'up', 'a', 'p', 'base', 'minf', 'selector', 'dom', 'explicit_domain', 'explicit_selector')


def make_system(rng):
    """A System for ONE processor object: the first molecule fixes the processor; the others are fitted to it (selection recomputed
    from the shared selector) and carry their own force field variables.  Roles: plain, nan (a selected atom has NaN coordinates),
    nopos (unselected atoms without position), empty (nothing selected)."""
    for _ in range(100):
        first = make_scenario(rng, 'mixed')
        if first['selector']['kind'] in ('names', 'backbone') and any(not a['sel'] for a in first['atoms']) \
                and sum(1 for a in first['atoms'] if a['sel']) >= 2:
            break
    given_rmd = rng.random() < 0.3
    given_bt = rng.random() < 0.3
    names = first['selector']['names']
    # one or two Systems (force fields): the molecules of a group read the same variables
    groups = [{'rmd': rng.choice([None, 0, 1, 2, 3]), 'bt': rng.choice([None, 1, 2, 6])} for _ in range(rng.choice([1, 2, 2]))]
    roles = ['plain'] + rng.sample(['plain', 'nan', 'nopos', 'empty', 'plain'], rng.randint(1, 3))
    rng.shuffle(roles)
    mols = []
    for role in roles:
        for _ in range(200):
            sc = gen_scenario(rng, 'mixed') if mols else first
            if mols:
                for k in SHARED:
                    sc[k] = first[k]
                for a in sc['atoms']:
                    a['sel'] = a['name'] in names
                    a['nan'] = False
            if role == 'empty':
                for a in sc['atoms']:
                    if a['sel']:
                        a['name'] = 'XX'
                        a['sel'] = False
            sel = [a for a in sc['atoms'] if a['sel']]
            unsel = [a for a in sc['atoms'] if not a['sel']]
            if role == 'nan':
                if not sel:
                    continue
                for a in rng.sample(sel, min(len(sel), rng.randint(1, 2))):
                    a['nan'] = True
                    a['nanmask'] = rng.choice([[1, 1, 1], [0, 1, 0], [1, 0, 0]])
            if role == 'nopos':
                if not unsel or not sel:
                    continue
                for a in rng.sample(unsel, rng.randint(1, len(unsel))):
                    a['nopos'] = rng.choice(['absent', 'none'])
            if role == 'plain' and len(sel) < 2:
                continue
            # separation and bond type: the processor's argument is shared; otherwise the force field of the molecule's System decides
            sc['group'] = len(mols) % len(groups)
            g = groups[sc['group']]
            arg_rmd = first['rmd'] if mols else sc['rmd']
            sc['rmd'] = arg_rmd if given_rmd else (g['rmd'] if g['rmd'] is not None else 2)
            sc['rmdspec'] = {'given': given_rmd, 'val': arg_rmd if given_rmd else 0, 'ffhas': g['rmd'] is not None, 'ffval': g['rmd'] or 0}
            sc['btspec'] = {'given': given_bt, 'val': 1 if given_bt else 0, 'ffhas': g['bt'] is not None, 'ffval': g['bt'] or 0}
            sc['fam'] = 'hist'
            sc['role'] = role
            if numerics_ok(sc):
                mols.append(sc)
                break
        else:
            if not mols:
                raise tlc.MachineryError('generator cannot fit a molecule of role %s to the shared processor' % role)
    return {'fam': 'hist', 'mols': mols, 'calls': rng.choice([1, 2, 2])}


def event_of(sc, with_twin=True):
    rec = run_real(sc)
    ev = {'fam': sc['fam'], 'm': model_input(sc), 'rec': {k: rec[k] for k in ('exc', 'warn', 'bonds', 'others')},
          'twin': {'has': False, 'exc': False, 'bonds': []}}
    if with_twin and not any(_undefined(a) for a in sc['atoms']):
        t = run_real(sc, twin=True)
        ev['twin'] = {'has': True, 'exc': t['exc'], 'bonds': t['bonds']}
    return ev, rec


def system_events(ssc):
    """[(scenario for the replay, event)] - one per molecule and call."""
    out = []
    calls = run_system_real(ssc)
    for c, recs in enumerate(calls):
        for k, (sc, rec) in enumerate(zip(ssc['mols'], recs)):
            ev = {'fam': 'hist' if c == 0 else 'hist-twice', 'm': model_input(sc), 'rec': {x: rec[x] for x in ('exc', 'warn', 'bonds', 'others')},
                  'twin': {'has': False, 'exc': False, 'bonds': []}, 'role': sc['role']}
            out.append(({'system': ssc, 'call': c, 'molecule': k, 'excmsg': rec['excmsg']}, ev))
    return out


# ------------------------------------------------------------------------------------------------------ judge
def jvm_options(nevents):
    """Many short-lived judge JVMs run side by side: keep each one cheap (no C2 compiler for short batches, two GC threads)."""
    return ('-XX:TieredStopAtLevel=1 ' if nevents < 600 else '') + '-XX:ParallelGCThreads=2 -XX:CICompilerCount=%d' % (1 if nevents < 600 else 2)


def _judge(shard):
    """TLC on a list of (scenario, event) -> (distinct, generated, {index from 1: verdict})."""
    work = tlc.scratch('c15_')
    try:
        clean = [{k: v for k, v in ev.items() if k != 'role'} for _, ev in shard]
        tf = tlc.write_json(work, 'trace.json', clean)
        res = tlc.run('Trace_ElasticNet', 'SPECIFICATION Spec\n', dump=True, env={'TRACE_FILE': tf, '_JAVA_OPTIONS': jvm_options(len(shard))},
                      workdir=work, workers=2, timeout=1800)
        if res.violated:
            raise tlc.MachineryError('Trace_ElasticNet violated ' + str(res.violated))
        verdicts = {st['tid']: st['verdict'] for st in res.states() if st['verdict']['v'] != 'pending'}
        if len(verdicts) != len(shard):
            raise tlc.MachineryError('trace verdicts missing: %d of %d: %s' % (len(verdicts), len(shard), res.stdout[-600:]))
        return res.distinct, res.generated, verdicts
    finally:
        import shutil
        shutil.rmtree(work, ignore_errors=True)


def _hash(case):
    import hashlib
    import json
    return hashlib.sha1(json.dumps(common.jsonable(case), sort_keys=True).encode()).hexdigest()[:16]


def summarise(shard):
    """Judge a share and reduce it to what the parent needs: counts, class histogram per family, hashes of the non-trivial inputs,
    the rejected records (with their scenario, for the replay file) and one sample."""
    if not shard:
        return {'states': 0, 'transitions': 0, 'n': 0, 'hist': {}, 'nontrivial': [], 'bad': [], 'sample': None, 'roles': {}}
    dist, gen, verdicts = _judge(shard)
    out = {'states': dist, 'transitions': gen, 'n': len(shard), 'hist': {}, 'nontrivial': [], 'bad': [], 'sample': None, 'roles': {}}
    for i, (sc, e) in enumerate(shard, 1):
        v = verdicts[i]
        h = out['hist'].setdefault(e['fam'], {'events': 0})
        h['events'] += 1
        for c, k in v['cls'].items():
            h[c] = h.get(c, 0) + k
        if e.get('role'):
            r = out['roles'].setdefault(e['fam'] + ':' + e['role'], {'events': 0, 'bonds': 0, 'warned': 0})
            r['events'] += 1
            r['bonds'] += len(e['rec']['bonds'])
            r['warned'] += int(e['rec']['warn'] > 0)
        if v['v'] != 'ok':
            out['bad'].append(({'kind': 'trace', 'scenario': sc, 'recorded': e['rec'], 'twin': e['twin']}, v['v']))
        if sum(1 for c in ['bond'] + CRITERIA if v['cls'].get(c, 0) > 0) >= 2:
            out['nontrivial'].append(_hash(e['m']))
        if out['sample'] is None and e['fam'] in ('mixed', 'hist-twice') and len(e['m']['atoms']) <= 8 and e['rec']['bonds']:
            out['sample'] = {'kind': 'recorded run judged by TLC', 'event': e}
    return out


def _trace_chunk(args):
    """Pool worker: replay its share of the TAB rows, generate and run its share of the random families, and have ONE TLC process
    judge all of that; return the summaries only."""
    jobs, seed = args[0], args[1]
    rng = random.Random(seed)
    shard = []
    replayed = None
    if len(args) > 2 and args[2] is not None:
        replayed = list(_replay_chunk((args[2], seed + 1, 'collect', args[3])))
        shard += replayed[2]
        replayed[2] = None
    for fam in jobs:
        if fam == 'hist':
            shard += system_events(make_system(rng))
        else:
            sc = make_scenario(rng, fam)
            ev, _ = event_of(sc)
            shard.append((sc, ev))
    return replayed, summarise(shard)


# ------------------------------------------------------------------------------------------------- TAB replay
def scenario_of_state(m, rng):
    """Scenario for one TAB input: beads on a lattice line, coordinates exactly representable in binary."""
    axis = rng.randrange(3)
    sign = rng.choice([1, -1])
    off = [250 * rng.randint(-4, 4) for _ in range(3)]
    atoms = []
    for a in m['atoms']:
        pos = list(off)
        pos[axis] += sign * a['pos'][0]
        atoms.append({'chain': a['chain'], 'resid': a['resid'], 'resname': a['resname'], 'hasold': a['hasold'],
                      'old': a['old'], 'sel': a['sel'], 'nan': False, 'pos': pos,
                      'name': 'BB' if a['sel'] else 'SC1'})
    n = len(atoms)
    return {'fam': 'tab', 'atoms': atoms, 'edges': [list(e) for e in m['edges']], 'prebonds': 0,
            'via_ff': rng.random() < 0.5, 'explicit_domain': rng.random() < 0.5, 'explicit_selector': rng.random() < 0.5,
            'a': 0.0, 'p': 0, 'lo': 0, 'base': m['base'], 'minf': m['minf'], 'rmd': m['rmd'], 'up': m['up'],
            'dom': {'kind': m['dom']['kind'], 'regions': [list(r) for r in m['dom']['regions']]},
            'selector': {'kind': rng.choice(['backbone', 'flag', 'names']), 'names': ['BB']},
            'layout': _layout(rng, n, motion=False), 'twin': _layout(rng, n, motion=False)}


def _replay_chunk(args):
    """Pool worker: replay its share of the TAB rows into the real processor, have TLC judge a tenth of them as recorded runs too."""
    states, seed = args[0], args[1]
    judge = args[2] if len(args) > 2 else True
    rate = args[3] if len(args) > 3 else 0.1
    rng = random.Random(seed)
    bad, judged, n = [], [], 0
    nontrivial, sample, inhabited, hinge = [], [], 0, 0
    if isinstance(states, tuple):                       # (dump file, [(first byte, end byte)...]): read and parse here, in parallel
        path, ranges = states
        parsed = []
        with open(path, 'rb') as fh:
            for start, end in ranges:
                fh.seek(start)
                text = fh.read(end - start).decode()
                parsed += [st for st in map(tlaval.parse_state_body, tlaval._STATE_HDR.split(text)[2::2]) if (0, 0) not in st['out']]
        states = parsed
    for st in states:
        sc = scenario_of_state(st['m'], rng)
        rec = run_real(sc)
        n += 1
        exp = sorted([list(p) for p in st['out']])
        got = sorted([sorted([b['a'], b['b']]) for b in rec['bonds']])
        ks = {b['k'] for b in rec['bonds']}
        if rec['exc'] or got != exp or (ks - {st['m']['base']}):
            bad.append({'kind': 'tab', 'scenario': sc, 'expected': exp, 'got': got, 'exc': rec['excmsg'],
                        'constants': sorted(ks)})
        nsel = sum(1 for a in st['m']['atoms'] if a['sel'])
        if 1 <= len(exp) < nsel * (nsel - 1) // 2:
            nontrivial.append(_hash(st['m']))
            if len(sample) < 1:
                sample.append({'kind': 'TAB row replayed', 'input': st['m'], 'expected_bonds': exp, 'real_bonds': got})
        if exp:
            inhabited += 1
            regs = st['m']['dom']['regions']
            if st['m']['dom']['kind'] == 'regions' and len(regs) == 2 and set(regs[0]) & set(regs[1]):
                hinge += 1
        if rng.random() < rate:
            ev = {'fam': 'tab', 'm': model_input(sc), 'rec': {k: rec[k] for k in ('exc', 'warn', 'bonds', 'others')},
                  'twin': {'has': False, 'exc': False, 'bonds': []}}
            judged.append((sc, ev))
    summary = summarise(judged) if judge is True else judged if judge == 'collect' else None
    return n, bad, summary, nontrivial, sample, inhabited, hinge


# -------------------------------------------------------------------------------------------------- command line
def cli_start(tier, seed):
    """Start the runs of the real command line in a process of their own (harness/c15_real.py main)."""
    import subprocess
    import sys
    import tempfile
    work = tempfile.mkdtemp(prefix='c15cliout_')
    log = open(os.path.join(work, 'log.txt'), 'w')
    env = dict(os.environ, PYTHONPATH=os.pathsep.join([common.VERIF, common.REPO]), VERIF_REPO=common.REPO)
    proc = subprocess.Popen([sys.executable, '-W', 'ignore', '-m', 'harness.c15_real', tier, str(seed), os.path.join(work, 'outs.pkl')],
                            cwd=common.VERIF, env=env, stdout=log, stderr=subprocess.STDOUT)
    return {'proc': proc, 'work': work, 'log': log}


CLI_NEED = ('bond', 'sel', 'dom', 'sep', 'cut', 'force', 'shortcut', 'acrossgap', 'interchain', 'capped', 'decayed', 'hinge', 'nanmols')


def cli_collect(handle, tier, ev, vd):
    """bin/martinize2 -elastic ...: see harness/c15_real.py and spec/ElasticFiles.tla."""
    import pickle
    import shutil
    try:
        try:
            rc = handle['proc'].wait(timeout=1500 if tier == 'quick' else 3300)
        except Exception as exc:       # noqa
            handle['proc'].kill()
            raise tlc.MachineryError('command-line runs did not finish: %r' % exc)
        handle['log'].close()
        path = os.path.join(handle['work'], 'outs.pkl')
        if rc != 0 or not os.path.exists(path):
            with open(os.path.join(handle['work'], 'log.txt')) as fh:
                raise tlc.MachineryError('command-line runs failed (rc %s): %s' % (rc, fh.read()[-1500:]))
        with open(path, 'rb') as fh:
            shares = pickle.load(fh)
    finally:
        shutil.rmtree(handle['work'], ignore_errors=True)
    hist, tot = {}, {c: 0 for c in CLI_NEED}
    seen = {'runs': 0, 'without_request_and_without_lines': 0, 'forced_by_force_field': 0, 'thr_inside': 0, 'thr_outside': 0,
            'molecule_types_used_more_than_once': 0, 'conformers_with_a_network_each': 0, 'systems_of_several_molecules': 0, 'free_pairs': 0, 'function_types': set(),
            'default_separation_runs': 0}
    rejected = 0
    for share in shares:
        for p in share['problems']:
            raise tlc.MachineryError('command-line run unusable (%s %s): %s' % tuple(p))
        ev.states += share['states']
        ev.transitions += share['transitions']
        for row in share['rows']:
            seen['runs'] += 1
            ev.traces += 1
            ev.evaluations += 1
            h = hist.setdefault(row['fam'], {'runs': 0, 'lines': 0})
            h['runs'] += 1
            h['lines'] += row['nbonds']
            if row['requested']:
                for c, k in row['cls'].items():
                    h[c] = h.get(c, 0) + k
                    if c in tot:
                        tot[c] += k
                seen['free_pairs'] += row['cls'].get('free', 0)
                if sum(1 for c in ('bond', 'sel', 'dom', 'sep', 'cut', 'force') if row['cls'].get(c, 0) > 0) >= 2:
                    ev.nontrivial_case({'layout': row['sc']['layout'], 'request': row['opts'], 'nan': row['sc'].get('nan')})
            if row['v'] != 'ok':
                rejected += 1
                vd.violation('cli-rejected', {'kind': 'cli', 'scenario': row['sc'], 'options': row['info'].get('argv'), 'at': row['at'],
                                              'event': row.get('event')},
                             '%s at particles %s: martinize2 %s (layout %s)' % (row['v'], row['at'], row['info'].get('argv'), row['sc']['layout']))
                continue
            if not row['requested'] and row['nbonds'] == 0:
                seen['without_request_and_without_lines'] += 1
            if row['requested'] and not row['opts']['flag'] and row['nbonds'] > 0:
                seen['forced_by_force_field'] += 1
            if row.get('aim'):
                seen['thr_inside' if row['aim']['inside'] else 'thr_outside'] += 1
            if any(m[1] > 1 for m in row['info']['moltypes']):
                seen['molecule_types_used_more_than_once'] += 1
            if row['sc']['layout'] == 'Ww' and row['opts']['ff'] == 'martini22' and len(row['info']['moltypes']) == 2 and row['nbonds']:
                seen['conformers_with_a_network_each'] += 1
            if row['cls'].get('mols', 0) > 1:
                seen['systems_of_several_molecules'] += 1
            seen['function_types'] |= set(row['info']['ftypes'])
            if row['sc']['opts']['ermd'] is None and row['requested']:
                seen['default_separation_runs'] += 1
            if row.get('sample'):
                ev.sample({'kind': 'files written by bin/martinize2 judged by TLC (ElasticFiles)', 'layout': row['sc']['layout'],
                           'command_line': row['info']['argv'], **row['sample']}, limit=4)
    seen['function_types'] = sorted(seen['function_types'])
    ev.tlc_runs.append({'run': 'TRACE ElasticFiles (real command line)', 'events': seen['runs']})
    ev.extra['command_line_per_family'] = hist
    ev.extra['command_line_seen'] = dict(seen, note=(
        'free_pairs: pairs within the 0.002 A band of the cut-off or whose constant interval straddles the minimum force (either way '
        'accepted). default_separation_runs: runs without -ermd, judged with the fallback ApplyRubberBand documents (force field '
        'variable elastic_network_res_min_dist, else 2); the shipped force fields define a variable called res_min_dist instead, '
        'which nothing reads - observation, outside the statement.'))
    if not rejected:
        empty = [c for c in CLI_NEED if not tot[c]]
        empty += [k for k in ('without_request_and_without_lines', 'forced_by_force_field', 'thr_inside', 'thr_outside',
                              'systems_of_several_molecules', 'molecule_types_used_more_than_once', 'conformers_with_a_network_each')
                  if not seen[k]]
        if empty:
            raise tlc.MachineryError('vacuous command-line family: nothing in class(es) %s (%s %s)' % (empty, tot, seen))
    return hist


# -------------------------------------------------------------------------------------------------------- run
def _absorb(summary, ev, vd, hist, roles):
    ev.states += summary['states']
    ev.transitions += summary['transitions']
    ev.traces += summary['n']
    ev.evaluations += summary['n']
    for fam, h in summary['hist'].items():
        t = hist.setdefault(fam, {})
        for c, k in h.items():
            t[c] = t.get(c, 0) + k
    for key, r in summary['roles'].items():
        t = roles.setdefault(key, {})
        for c, k in r.items():
            t[c] = t.get(c, 0) + k
    for h in summary['nontrivial']:
        ev.nontrivial.add(h)
    for scen, why in summary['bad']:
        vd.violation('trace-rejected', scen, why)
    if summary['sample'] is not None:
        ev.sample(summary['sample'], limit=4)


def _tick(label, t0=[None]):
    import time
    now = time.time()
    if os.environ.get('C15_TIMING'):
        print('  [c15 timing] %-28s %.1fs' % (label, now - (t0[0] or now)), flush=True)
    t0[0] = now


def run(tier, seed, ev, vd):
    quick = tier == 'quick'
    _tick('start')
    ev.rule = ('TAB: every combination of selection x residue partition x chain split x domain kind (region lists: disjoint, sharing a '
               'hinge residue, nested / overlapping, reversed) x separation x cut-off x minimum force x cross-link on a line of beads, '
               'replayed into the real processor. TRACE: random molecules per generator family; systems of several molecules under ONE '
               'processor object, run once or twice; runs of the real command line judged from the written files. Non-trivial = input '
               'on which at least two of the classes {bonded, excluded only by selection, only by domain, only by separation, only by '
               'cut-off, only by force} are inhabited (classes computed by TLC; for TAB rows: some but not all selected pairs bonded); '
               'distinct by model input (command line: by structure and request).')
    ev.assumptions = [
        'TLC 1.8 evaluates the TLA+ operators correctly',
        'the exponential of the decay is evaluated with math.exp in the harness and handed to TLC per pair (DESIGN.md limit)',
        'coordinates are integer pm; lengths must be 5-decimal numbers (1e-6 in units of 1e-5 nm) and are then compared '
        'exactly; force constants compared in 1e-6 kJ/mol/nm^2 with +-1 unit',
        'not generated: distance numerically on the cut-off (except exactly representable TAB rows), length within 1e-9 nm of a '
        'rounding boundary, decayed constant within 1e-5 of the minimum force or of the cap, non-integer decay power below the lower '
        'bound, negative minimum force, decay factor != 0 with power 0, SELECTED atoms without a position attribute (documented '
        'ValueError), coincident atoms',
        'a second application of the processor is judged by what it ADDS (the statement speaks of one application): it must add the '
        'same network again and leave every earlier interaction alone; that every pair then carries two bonds is recorded as an '
        'observation, not a violation',
        'the bond function type (argument, else force field variable elastic_network_bond_type, else 6) is beyond the statement and '
        'named separately in the verdicts',
        'command line (files): positions are known to 0.001 A, so pairs within 0.002 A of the cut-off, and pairs whose constant '
        'interval (decay evaluated over the compatible distances) straddles the minimum force, may go either way; lengths are '
        'compared within the same band; residues of the written beads are identified by geometry against the input the harness wrote; '
        'without -ermd the separation is the fallback the processor documents (variable elastic_network_res_min_dist, else 2)',
    ]
    parts = set((os.environ.get('C15_PARTS') or 'tab,trace,cli').split(','))     # debugging / mutation testing: run only some parts
    if parts != {'tab', 'trace', 'cli'}:
        return _run_parts(parts, tier, seed, ev, vd)
    cli = cli_start(tier, seed)
    try:
        consts = TAB_CONSTS[tier]
        res = tlc.run('ElasticNet', TAB_CFG, consts=consts, dump=True, timeout=1700)
        if res.violated:
            raise tlc.MachineryError('ElasticNet model violates %s' % res.violated)
        ev.add_tlc('TAB ElasticNet %s' % {k: consts[k] for k in ('NB', 'Ups', 'Rmds', 'TabRegions')}, res)
        ev.exhaustive = True
        _tick('TAB model')
        offsets, pos = [], 0
        with open(res.dump_path, 'rb') as fh:               # the rows stay in the file: workers read their own byte range
            for line in fh:
                if line.startswith(b'State '):
                    offsets.append(pos)
                pos += len(line)
        if len(offsets) != res.distinct:
            raise tlc.MachineryError('dump has %d states, TLC reports %d' % (len(offsets), res.distinct))
        offsets.append(pos)
        per = 80 if quick else 1000
        jobs = [f for f in FAMILIES for _ in range(per)] + ['hist'] * (per // 2)
        random.Random(seed).shuffle(jobs)
        ntasks = tlc.NCPU * (1 if quick else 6)
        pieces = common.chunks(range(res.distinct), ntasks * 8)     # TLC dumps the unevaluated states first: deal the file out in
        jobparts = common.chunks(jobs, ntasks)                       # small pieces, round robin, so that every worker gets rows
        tasks = []
        for i in range(ntasks):
            mine = [(offsets[c[0]], offsets[c[-1] + 1]) for c in pieces[i::ntasks]]
            tasks.append((jobparts[i] if i < len(jobparts) else [], seed * 7919 + 2 * i,
                          (res.dump_path, mine) if mine else None, 0.04 if quick else 0.05))
        hist, roles = {}, {}
        nrows = inhabited = hinge = 0
        with mp.Pool(tlc.NCPU) as pool:
            for replayed, summary in pool.imap_unordered(_trace_chunk, tasks, chunksize=1):
                if replayed is not None:
                    n, bad, _, nontrivial, sample, inh, hng = replayed
                    nrows += n
                    inhabited += inh
                    hinge += hng
                    ev.traces += n
                    ev.evaluations += n
                    for b in bad:
                        vd.violation('replay-mismatch', b, 'real bonds %s, TLC ExpectedDecl %s %s' % (b['got'], b['expected'], b['exc']))
                    for h in nontrivial:
                        ev.nontrivial.add(h)
                    for smp in sample:
                        ev.sample(smp, limit=1)
                _absorb(summary, ev, vd, hist, roles)
        _tick('replay + traces (pool)')
        if nrows * 2 != res.distinct:
            raise tlc.MachineryError('TAB dump has %d evaluated rows for %d states' % (nrows, res.distinct))
        if not inhabited or not hinge:
            raise tlc.MachineryError('vacuous TAB model: %d inputs with a bond, %d of them with regions sharing a residue' % (inhabited, hinge))
        ev.tlc_runs.append({'run': 'TRACE Trace_ElasticNet', 'events': sum(h.get('events', 0) for h in hist.values())})
        ev.extra['pairs_per_family_and_class'] = hist
        ev.extra['system_families_by_role'] = roles
        ev.extra['observations_not_judged'] = (
            'a second application of one ApplyRubberBand object adds the whole network a second time (every qualifying pair then '
            'carries two bonds; see hist-twice:plain bonds above) - the statement speaks of one application; bin/martinize2 applies it '
            'once. The shipped force fields declare a variable `res_min_dist` (3 for martini, 2 for elnedyn) while the processor reads '
            '`elastic_network_res_min_dist`, so without -ermd the separation is 2 for every force field. Through the command line the '
            'NaN warning names the molecule "None" (molecule types are named after the network is built).')
        ev.extra['class_legend'] = ('per generator family: number of particle pairs that are bonded / excluded by exactly the named '
                                    'criterion / by several (multi), as classified by TLC from ElasticNet!Failing; shortcut = excluded by '
                                    'the separation alone although the residue numbers differ by more than it (ring / branch); bynumber = '
                                    'bonded although the numbers are within it; hinge = bonded with a bead lying in several regions; lowcap '
                                    '/ lowdec = distance below the lower bound with a decay: at the cap / below the base; dupname = bonded '
                                    'bead whose name occurs twice in its residue')
        if not vd.violations:
            for fam, crit in SOLE.items():       # vacuity: the dedicated family must exercise its criterion as sole excluder
                h = hist.get(fam, {})
                others = [c for c in CRITERIA if c != crit and h.get(c, 0)]
                if h.get(crit, 0) == 0 or h.get('bond', 0) == 0:
                    raise tlc.MachineryError('vacuous family %s: %s' % (fam, h))
                if others or h.get('multi', 0):
                    raise tlc.MachineryError('family %s is not a sole-criterion family: %s' % (fam, h))
            need = {'nan events': hist.get('nan', {}).get('events', 0), 'dom hinge': hist.get('dom', {}).get('hinge', 0),
                    'cyc shortcut': hist.get('cyc', {}).get('shortcut', 0), 'sep bynumber': hist.get('sep', {}).get('bynumber', 0)
                    + hist.get('cyc', {}).get('bynumber', 0),
                    'lowdecay lowcap': hist.get('lowdecay', {}).get('lowcap', 0), 'lowdecay lowdec': hist.get('lowdecay', {}).get('lowdec', 0),
                    'dupname dupname': hist.get('dupname', {}).get('dupname', 0),
                    'hist plain bonds': roles.get('hist:plain', {}).get('bonds', 0), 'hist-twice plain bonds': roles.get('hist-twice:plain', {}).get('bonds', 0),
                    'hist nan warned': roles.get('hist:nan', {}).get('warned', 0), 'hist-twice nan warned': roles.get('hist-twice:nan', {}).get('warned', 0),
                    'hist nopos bonds': roles.get('hist:nopos', {}).get('bonds', 0), 'hist empty': roles.get('hist:empty', {}).get('events', 0)}
            empty = [k for k, v in need.items() if not v]
            if empty:
                raise tlc.MachineryError('vacuous families: %s (%s)' % (empty, need))
    except BaseException:
        cli['proc'].kill()
        raise
    cli_collect(cli, tier, ev, vd)
    _tick('command line (waited)')


def _run_parts(parts, tier, seed, ev, vd):
    """C15_PARTS=cli | trace | tab (comma separated): the named parts only, without the vacuity requirements of a full run."""
    quick = tier == 'quick'
    cli = cli_start(tier, seed) if 'cli' in parts else None
    try:
        hist, roles = {}, {}
        if 'trace' in parts:
            per = 80 if quick else 1000
            jobs = [f for f in FAMILIES for _ in range(per)] + ['hist'] * (per // 2)
            random.Random(seed).shuffle(jobs)
            ntasks = tlc.NCPU * (1 if quick else 6)
            with mp.Pool(tlc.NCPU) as pool:
                for _, summary in pool.imap_unordered(_trace_chunk, [(c, seed * 7919 + 2 * i) for i, c in enumerate(common.chunks(jobs, ntasks))]):
                    _absorb(summary, ev, vd, hist, roles)
        if 'tab' in parts:
            res = tlc.run('ElasticNet', TAB_CFG, consts=TAB_CONSTS[tier], dump=True, timeout=1700)
            ev.add_tlc('TAB ElasticNet', res)
            rows = [st for st in res.states() if (0, 0) not in st['out']]
            with mp.Pool(tlc.NCPU) as pool:
                for out in pool.imap_unordered(_replay_chunk, [(c, seed + i, False) for i, c in enumerate(common.chunks(rows, tlc.NCPU * 4))]):
                    ev.traces += out[0]
                    for b in out[1]:
                        vd.violation('replay-mismatch', b, 'real bonds %s, TLC ExpectedDecl %s %s' % (b['got'], b['expected'], b['exc']))
        ev.extra['pairs_per_family_and_class'] = hist
        ev.extra['system_families_by_role'] = roles
    except BaseException:
        if cli:
            cli['proc'].kill()
        raise
    if cli:
        cli_collect(cli, tier, ev, vd)


def _replay_cli(sc):
    import shutil
    import tempfile
    from . import c15_real
    scratch = tempfile.mkdtemp(prefix='c15replay_')
    try:
        out = c15_real.run_job((sc, scratch))
    finally:
        shutil.rmtree(scratch, ignore_errors=True)
    if out['problems']:
        print('run unusable:', out['problems'])
        return 2
    _, _, verdicts = c15_real.judge_events(out['events'])
    rc = 0
    for e, info, v in zip(out['events'], out['info'], verdicts):
        print('martinize2', info['argv'], '->', info['nbonds'], 'rubber-band lines; TLC verdict:', v['v'], 'at', v['at'])
        rc = rc or (0 if v['v'] == 'ok' else 1)
    return rc


def replay(sc):
    if sc.get('kind') == 'cli':
        return _replay_cli(sc['scenario'])
    if sc.get('kind') == 'tab':
        rec = run_real(sc['scenario'])
        got = sorted([sorted([b['a'], b['b']]) for b in rec['bonds']])
        print('real bonds', got, 'expected', sc['expected'], rec['excmsg'])
        return 0 if got == sc['expected'] and not rec['exc'] else 1
    scen = sc['scenario']
    if 'system' in scen:
        pairs = system_events(scen['system'])
        _, _, verdicts = _judge(pairs)
        rc = 0
        for i, (s, e) in enumerate(pairs, 1):
            print('call %d molecule %d (%s): %d bonds added, warnings %d, %s -> %s' % (
                s['call'], s['molecule'], e['role'], len(e['rec']['bonds']), e['rec']['warn'], s['excmsg'], verdicts[i]['v']))
            rc = rc or (0 if verdicts[i]['v'] == 'ok' else 1)
        return rc
    e, rec = event_of(scen)
    _, _, verdicts = _judge([(scen, e)])
    print('real run:', {k: rec[k] for k in ('excmsg', 'warn', 'bonds', 'others')})
    print('TLC verdict:', verdicts[1])
    return 0 if verdicts[1]['v'] == 'ok' else 1


def selftest(seed):
    """Binding demonstration: tampered recordings must be rejected by the judges, a flipped TAB expectation by the replay."""
    rng = random.Random(seed)
    batch = []
    while len(batch) < 8:
        sc = make_scenario(rng, 'mixed')
        e, _ = event_of(sc)
        if len(e['rec']['bonds']) >= 2:
            batch.append((sc, e))
    batch[1][1]['rec']['bonds'].pop()                                          # a qualifying pair loses its bond
    batch[3][1]['rec']['bonds'][0]['len'] += 2                                 # length off by 2e-5 nm
    batch[5][1]['rec']['bonds'][0]['k'] -= 5                                   # constant off by 5e-6
    batch[6][1]['rec']['bonds'].append(dict(batch[6][1]['rec']['bonds'][0]))   # pair bonded twice
    batch[7][1]['rec']['bonds'][0]['ft'] += 1                                  # another bond function type
    # history: a second call that adds nothing / a molecule with NaN coordinates that got a network / no warning
    ssc = None
    while ssc is None:
        cand = make_system(rng)
        roles = [m['role'] for m in cand['mols']]
        if cand['calls'] == 2 and 'nan' in roles and 'plain' in roles:
            pairs = system_events(cand)
            plain2 = [i for i, (s, e) in enumerate(pairs) if s['call'] == 1 and e['role'] == 'plain' and len(e['rec']['bonds']) >= 1]
            if plain2:
                ssc = cand
    k0 = len(batch)
    nan1 = next(i for i, (s, e) in enumerate(pairs) if e['role'] == 'nan')
    donor = pairs[plain2[0]][1]['rec']['bonds'][0]
    pairs[plain2[0]][1]['rec']['bonds'] = []                                   # the second application added nothing
    pairs[nan1][1]['rec']['warn'] = 0                                          # no warning for the NaN molecule
    nan2 = next(i for i, (s, e) in enumerate(pairs) if e['role'] == 'nan' and s['call'] == 1)
    sel = [i + 1 for i, a in enumerate(pairs[nan2][1]['m']['atoms']) if a['sel']]
    pairs[nan2][1]['rec']['bonds'] = [dict(donor, a=sel[0], b=sel[-1] if len(sel) > 1 else sel[0] % len(pairs[nan2][1]['m']['atoms']) + 1)]
    batch += pairs
    _, _, verdicts = _judge(batch)
    got = {i: verdicts[i]['v'] for i in verdicts if verdicts[i]['v'] != 'ok'}
    want = {2: 'qualifying-pair-without-bond', 4: 'length-is-not-the-distance-to-5-decimals',
            6: 'constant-is-not-the-capped-decayed-base', 7: 'pair-bonded-more-than-once', 8: 'bond-function-type-not-as-documented',
            k0 + plain2[0] + 1: 'qualifying-pair-without-bond', k0 + nan1 + 1: 'undefined-coordinates-without-warning',
            k0 + nan2 + 1: 'network-built-despite-undefined-coordinates'}
    assert got == want, (got, want)
    res = tlc.run('ElasticNet', TAB_CFG, consts=TAB_CONSTS['quick'], dump=True)
    rows = [st for st in res.states() if (0, 0) not in st['out'] and st['out']][:5]
    rows[2] = dict(rows[2], out=frozenset(list(rows[2]['out'])[1:]))
    n, bad = _replay_chunk((rows, seed, False))[:2]
    assert n == 5 and len(bad) == 1, bad
    # command line: the files of one real run, tampered
    import copy
    import shutil
    import tempfile
    from . import c15_real
    c15_real.preload()
    scratch = tempfile.mkdtemp(prefix='c15self_')
    try:
        plan = {(sc['fam'], sc['layout']): sc for sc in c15_real.plan('quick', seed)}
        out = c15_real.run_job((plan[('cli-unit', 'IJ')], scratch))
        dec = c15_real.run_job((dict(plan[('cli-thr', 'IJ')], thr=None), scratch))
        off = c15_real.run_job((plan[('cli-off', 'W')], scratch))
    finally:
        shutil.rmtree(scratch, ignore_errors=True)
    assert not out['problems'] and not dec['problems'] and not off['problems'], (out['problems'], dec['problems'], off['problems'])
    base, dbase, obase = out['events'][0], dec['events'][0], off['events'][0]
    assert len(base['f']['bonds']) > 10 and len(dbase['f']['bonds']) > 10 and not obase['f']['bonds']
    cases = [('untouched', base)]

    def tamper(name, src, fn):
        e = copy.deepcopy(src)
        fn(e)
        cases.append((name, e))
    tamper('line removed', base, lambda e: e['f']['bonds'].pop(3))
    tamper('line doubled', base, lambda e: e['f']['bonds'].append(dict(e['f']['bonds'][0])))
    tamper('length +0.0005 nm', base, lambda e: e['f']['bonds'][2].update(len=e['f']['bonds'][2]['len'] + 50))
    tamper('constant +1', base, lambda e: e['f']['bonds'][2].update(k=e['f']['bonds'][2]['k'] + 1 * MICRO))
    tamper('region list widened by the judge only', base, lambda e: e['o'].update(regions=[[3, 8], [8, 16]]))
    tamper('separation one more', base, lambda e: e['o'].update(rmd=e['o']['rmd'] + 1))
    tamper('cut-off 0.01 nm shorter', base, lambda e: e['o'].update(up=e['o']['up'] - 100))
    tamper('bead moved by 0.05 A', base, lambda e: e['f']['atoms'][e['f']['bonds'][0]['a'] - 1]['pos'].__setitem__(0, e['f']['atoms'][e['f']['bonds'][0]['a'] - 1]['pos'][0] + 50))
    tamper('chain criterion dropped by the judge only', dbase, lambda e: e['o'].update(unit='molecule'))
    tamper('selection narrowed by the judge only', dbase, lambda e: e['o'].update(names=['BB']))
    tamper('minimum force raised by the judge only', dbase, lambda e: e['o'].update(minf=e['o']['base'] - 5 * MICRO))
    tamper('decayed constant -1.0', dbase, lambda e: next(b for b in e['f']['bonds'] if b['k'] < e['o']['base'] - 5 * MICRO).update(
        k=next(b for b in e['f']['bonds'] if b['k'] < e['o']['base'] - 5 * MICRO)['k'] - MICRO))
    tamper('network without request', obase, lambda e: e['f']['bonds'].append({'a': 1, 'b': 9, 'len': 5000, 'k': 700 * MICRO}))
    tamper('rubber-band line inside a conditional block', base, lambda e: e['f'].update(strays=1))
    tamper('second molecule split off', base, lambda e: [a.update(mol=2) for a in e['f']['atoms'] if a['chain'] == 'B'])
    _, _, cv = c15_real.judge_events([e for _, e in cases])
    cgot = {name: v['v'] for (name, _), v in zip(cases, cv)}
    assert cgot['untouched'] == 'ok', cgot
    wrong = [k for k, v in cgot.items() if k != 'untouched' and v == 'ok']
    assert not wrong, (wrong, cgot)
    print('selftest C15: tampered recordings rejected by TLC: %s; flipped TAB expectation reported by the replay: '
          'expected %s got %s; tampered files of real command-line runs rejected by TLC: %s' % (
              sorted(got.items()), bad[0]['expected'], bad[0]['got'], sorted(cgot.items())))
    return 0
