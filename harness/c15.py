"""C15 - elastic-network bonds are exactly the pairs meeting every stated criterion.

spec/PairGraph.tla         residue graph, graph distance with cut-off (BFS = walk form), pm^2 geometry, 2-limb products
spec/ElasticNet.tla        the five criteria, ExpectedDecl (statement) / ExpectedOp (matrix-and-slice shape of the
                           implementation), TAB model: beads on a line x selections x residue partitions x chains x
                           domain kinds x separations x cut-offs x minimum forces x cross-link            (TAB)
spec/Trace_ElasticNet.tla  TLC judges recorded runs of the real ApplyRubberBand.run_molecule              (TRACE)

spec -> code: every (input, expected bond set) row of the TAB dump is rebuilt as a real Molecule (exactly
representable coordinates, so distances ON the cut-off are decided exactly), run through the real processor and
compared with TLC's set.
code -> spec: seeded random molecules (1-3 chains, 1-3 beads per residue, gaps, cross-links, shuffled node keys,
irregular selections, domain criteria molecule/chain/regions, decay sets) are run through the real processor
together with a rotated + translated + re-ordered twin; the recorded bonds are judged by TLC.  One generator family
per criterion in which that criterion is the ONLY one excluding any pair; TLC classifies every pair and the harness
requires the sole-excluder class of every family to be inhabited (vacuity -> exit 2).

Float boundary (stated tolerances): coordinates are integer picometres handed to vermouth as pm/1000 nm; a bond length
must be a 5-decimal number (|len*1e5 - round| <= 1e-6) and is then compared exactly by TLC (nearest integer to
100*sqrt(d2)); force constants are compared in units of 1e-6 with +-1 unit; exp() of the decay is evaluated here with
math.exp (DESIGN.md: the only rule not evaluated by TLC).  Never generated: pairs with d == cut-off unless exactly
representable (TAB rows only), 100*sqrt(d2) within 1e-4 of a half integer, decayed constants within 1e-5 of the
minimum force, non-integer decay power with a distance below the lower bound, negative minimum force, a non-zero decay
factor with power 0 (the documentation contradicts its own formula there)."""
import logging
import math
import multiprocessing as mp
import os
import random

from . import common, tlc, tlaval

PID = 'C15'
MICRO = 1000000
SAT = 2000000000
CRITERIA = ['sel', 'dom', 'sep', 'cut', 'force']
FAMILIES = CRITERIA + ['mixed', 'nan']

TAB_CFG = ("SPECIFICATION Spec\nINVARIANT OpIsDecl\nINVARIANT BallIsWalk\nINVARIANT WellFormed\nINVARIANT SubSelection\n"
           "INVARIANT MonoSeparation\nINVARIANT MonoCutoff\nINVARIANT OrderInvariant\n")
TAB_CONSTS = {
    'quick': {'NB': '4', 'Spacing': '250', 'Ups': '{300, 500, 800}', 'Rmds': '0..3', 'Minfs': '{0, 500000000}',
              'Base': '500000000',
              'Partitions': '{<<1,2,3,4>>, <<1,1,2,3>>, <<1,2,1,2>>}',
              'ChainSplits': '{<<"A","A","A","A">>, <<"A","A","B","B">>}',
              'DomKinds': '{"molecule", "chain", "regions"}', 'TabRegions': '<<<<1, 2>>, <<4, 3>>>>'},
    'thorough': {'NB': '5', 'Spacing': '250', 'Ups': '{300, 500, 800, 1000}', 'Rmds': '0..3', 'Minfs': '{0, 500000000}',
                 'Base': '500000000',
                 'Partitions': '{<<1,2,3,4,5>>, <<1,1,2,3,3>>, <<1,2,2,3,4>>, <<1,2,1,2,3>>, <<1,1,1,2,2>>}',
                 'ChainSplits': '{<<"A","A","A","A","A">>, <<"A","A","B","B","B">>, <<"A","B","B","C","C">>}',
                 'DomKinds': '{"molecule", "chain", "regions"}', 'TabRegions': '<<<<1, 2>>, <<4, 3>>>>'},
}
RESNAMES = ['ALA', 'GLY', 'LYS', 'CYS']
BEADNAMES = ['BB', 'SC1', 'SC2']


# ------------------------------------------------------------------------------------------------- real code
class _Capture(logging.Handler):
    def __init__(self):
        super().__init__(level=1)
        self.records = []

    def emit(self, record):
        self.records.append(record)


def _selector(spec):
    from vermouth import selectors
    kind = spec['kind']
    if kind == 'backbone':
        return selectors.select_backbone
    if kind == 'all':
        return selectors.select_all
    if kind == 'names':
        names = set(spec['names'])
        return lambda atom: atom.get('atomname') in names
    return lambda atom: bool(atom.get('verif_sel'))


def _rotation(q):
    import numpy as np
    w, x, y, z = q
    n = math.sqrt(w * w + x * x + y * y + z * z)
    w, x, y, z = w / n, x / n, y / n, z / n
    return np.array([[1 - 2 * (y * y + z * z), 2 * (x * y - z * w), 2 * (x * z + y * w)],
                     [2 * (x * y + z * w), 1 - 2 * (x * x + z * z), 2 * (y * z - x * w)],
                     [2 * (x * z - y * w), 2 * (y * z + x * w), 1 - 2 * (x * x + y * y)]])


def build_molecule(sc, twin=False):
    """Real Molecule of the scenario; returns (molecule, key -> particle index)."""
    import numpy as np
    from vermouth.molecule import Molecule
    from vermouth.forcefield import ForceField
    ff = ForceField(name='verif_c15')
    if sc['via_ff']:
        ff.variables['elastic_network_res_min_dist'] = sc['rmd']
        ff.variables['elastic_network_bond_type'] = 6
    mol = Molecule(force_field=ff, nrexcl=1, meta={'moltype': 'verif_mol'})
    lay = sc['twin'] if twin else sc['layout']
    keys, order = lay['keys'], lay['order']          # keys[i] = node key of particle i+1; order = insertion order
    rot = _rotation(lay['quat']) if lay.get('quat') else None
    shift = np.array(lay.get('shift', [0.0, 0.0, 0.0]), dtype=float)
    for idx in order:
        a = sc['atoms'][idx]
        attrs = {'atomname': a['name'], 'resid': a['resid'], 'resname': a['resname'], 'verif_sel': a['sel']}
        if a['chain'] != '-':
            attrs['chain'] = a['chain']
        if a['hasold']:
            attrs['_old_resid'] = a['old']
        if a['nan']:
            pos = np.array([float('nan') if f else 0.25 for f in a['nanmask']])
        else:
            pos = np.array(a['pos'], dtype=float) / 1000.0
            if rot is not None:
                pos = rot @ pos
            pos = pos + shift
        attrs['position'] = pos
        mol.add_node(keys[idx], **attrs)
    for i, j in sc['edges']:
        mol.add_edge(keys[i - 1], keys[j - 1])
    for i, j in sc['edges'][: sc.get('prebonds', 0)]:
        mol.add_interaction('bonds', (keys[i - 1], keys[j - 1]), [1, 0.35, 1250], meta={'group': 'verif backbone'})
    return mol, {k: i + 1 for i, k in enumerate(keys)}


def run_real(sc, twin=False):
    """Run the real processor; project the result to integers."""
    from vermouth.processors import apply_rubber_band as arb
    mol, index = build_molecule(sc, twin)
    dom = sc['dom']
    kwargs = {}
    if dom['kind'] == 'chain':
        kwargs['domain_criterion'] = arb.same_chain
    elif dom['kind'] == 'regions':
        kwargs['domain_criterion'] = arb.make_same_region_criterion([tuple(r) for r in dom['regions']])
    elif sc.get('explicit_domain'):
        kwargs['domain_criterion'] = arb.always_true
    if sc['selector']['kind'] != 'backbone' or sc.get('explicit_selector'):
        kwargs['selector'] = _selector(sc['selector'])
    if not sc['via_ff']:
        kwargs['res_min_dist'] = sc['rmd']
        kwargs['bond_type'] = 6
    proc = arb.ApplyRubberBand(lower_bound=sc['lo'] / 1000.0, upper_bound=sc['up'] / 1000.0,
                               decay_factor=sc['a'], decay_power=sc['p'],
                               base_constant=sc['base'] / MICRO, minimum_force=sc['minf'] / MICRO, **kwargs)
    before = [(tuple(b.atoms), list(b.parameters), dict(b.meta)) for b in mol.interactions.get('bonds', [])]
    logger = logging.getLogger(arb.__name__)
    cap = _Capture()
    old_level = logger.level
    logger.addHandler(cap)
    logger.setLevel(1)
    exc = ''
    try:
        proc.run_molecule(mol)
    except Exception as err:      # the statement promises a warning, not a failure
        exc = repr(err)
    finally:
        logger.removeHandler(cap)
        logger.setLevel(old_level)
    bonds, others = [], []
    for b in mol.interactions.get('bonds', []):
        if b.meta.get('group') == 'Rubber band':
            length, k = float(b.parameters[1]), float(b.parameters[2])
            l5 = round(length * 1e5) if math.isfinite(length) else -1
            if l5 >= 0 and abs(length * 1e5 - l5) > 1e-6:
                l5 = -1                                   # not a 5-decimal number: TLC rejects the length
            ki = round(k * MICRO) if math.isfinite(k) and abs(k) < 2000 else -1
            bonds.append({'a': index[b.atoms[0]], 'b': index[b.atoms[1]], 'len': l5, 'k': ki})
        else:
            others.append((tuple(b.atoms), list(b.parameters), dict(b.meta)))
    return {'exc': bool(exc), 'excmsg': exc, 'warn': sum(1 for r in cap.records if r.levelno >= logging.WARNING),
            'bonds': bonds, 'others': others == before}


# ------------------------------------------------------------------------------------------------ model input
def raw_k(sc, i, j):
    """Documented decay base*exp(-a (d - lower)^p) in 1e-6 units, saturated (the one rule evaluated in Python)."""
    pa, pb = sc['atoms'][i]['pos'], sc['atoms'][j]['pos']
    d = math.sqrt(sum((x - y) ** 2 for x, y in zip(pa, pb))) / 1000.0
    try:
        v = sc['base'] * math.exp(-sc['a'] * (d - sc['lo'] / 1000.0) ** sc['p'])
    except OverflowError:
        return SAT
    return int(min(round(v), SAT))


def model_input(sc):
    n = len(sc['atoms'])
    decay = bool(sc['a'])
    rawk = []
    if decay:
        for i in range(n):
            row = []
            for j in range(n):
                bad = i == j or sc['atoms'][i]['nan'] or sc['atoms'][j]['nan']
                row.append(0 if bad else raw_k(sc, i, j))
            rawk.append(row)
    atoms = [{'chain': a['chain'], 'resid': a['resid'], 'resname': a['resname'], 'hasold': a['hasold'], 'old': a['old'],
              'sel': a['sel'], 'nan': a['nan'], 'pos': list(a['pos'])} for a in sc['atoms']]
    return {'atoms': atoms, 'edges': [list(e) for e in sc['edges']],
            'dom': {'kind': sc['dom']['kind'], 'regions': [list(r) for r in sc['dom']['regions']]},
            'rmd': sc['rmd'], 'up': sc['up'], 'base': sc['base'], 'minf': sc['minf'], 'decay': decay, 'rawk': rawk}


def numerics_ok(sc):
    """Reject inputs on which a criterion lies numerically on its threshold (left unspecified by the statement)."""
    atoms = sc['atoms']
    decay = bool(sc['a'])
    integer_power = float(sc['p']).is_integer()
    for i in range(len(atoms)):
        for j in range(i + 1, len(atoms)):
            if atoms[i]['nan'] or atoms[j]['nan']:
                continue
            d2 = sum((x - y) ** 2 for x, y in zip(atoms[i]['pos'], atoms[j]['pos']))
            if d2 < 10000 or d2 >= 90000000 or d2 == sc['up'] ** 2:
                return False
            frac = (100.0 * math.sqrt(d2)) % 1.0
            if abs(frac - 0.5) < 1e-4:
                return False
            if not integer_power and d2 <= (sc['lo'] + 1) ** 2:
                return False
            if decay and abs(min(raw_k(sc, i, j), sc['base']) - sc['minf']) < 10:
                return False
    return True


# --------------------------------------------------------------------------------------------------- generator
def _unit(rng):
    while True:
        v = [rng.gauss(0, 1) for _ in range(3)]
        n = math.sqrt(sum(x * x for x in v))
        if n > 1e-3:
            return [x / n for x in v]


def _layout(rng, n, motion):
    keys = rng.sample(range(0, 5 * n + 10), n)
    if rng.random() < 0.3:
        keys = sorted(keys)
    order = list(range(n))
    if rng.random() < 0.7:
        rng.shuffle(order)
    lay = {'keys': keys, 'order': order}
    if motion:
        lay['quat'] = [rng.gauss(0, 1) for _ in range(4)]
        lay['shift'] = [round(rng.uniform(-4, 4), 3) for _ in range(3)]
    return lay


def gen_scenario(rng, fam):
    """One scenario of family `fam`; in the five criterion families every other criterion holds for every pair."""
    single = fam in ('sel', 'dom', 'cut', 'force')       # single-bead residues: no pair shares a residue
    nres_total = rng.randint(4, 10) if single else rng.randint(3, 7)
    nchains = rng.choice([1, 2, 2, 3])
    nochain = rng.random() < 0.1 and fam not in ('dom',)         # no particle carries a chain identifier
    lonely = rng.randrange(3) if rng.random() < 0.15 else -1      # or only the particles of one chain lack it
    atoms, edges, res_members = [], [], []
    pos_bb = [0, 0, 0]
    chain_of_res = []
    cuts = sorted(rng.sample(range(1, nres_total), min(nchains - 1, nres_total - 1)))
    bounds = [0] + cuts + [nres_total]
    resid = 0
    prev_bb = None
    for c in range(len(bounds) - 1):
        chain = '-' if (nochain or c == lonely) else 'ABC'[c]
        if c == 0:
            resid = rng.randint(1, 20)
        elif not (single and nochain):      # input numbering may overlap between chains (kept apart when no chain id
            resid = rng.choice([0, resid, rng.randint(1, 30)])   # exists and the family needs one bead per residue)
        old_shift = rng.choice([0, 0, 100, -3])
        prev_bb = None
        for r in range(bounds[c], bounds[c + 1]):
            gap = prev_bb is not None and rng.random() < 0.2
            resid += rng.choice([2, 3]) if gap else 1
            step = _unit(rng)
            pos_bb = [pos_bb[k] + int(round(step[k] * rng.uniform(330, 420) * (2 if gap else 1))) for k in range(3)]
            nbeads = 1 if single else rng.choice([1, 2, 2, 3])
            resname = rng.choice(RESNAMES)
            members = []
            for b in range(nbeads):
                if b == 0:
                    pos = list(pos_bb)
                else:
                    u = _unit(rng)
                    pos = [pos_bb[k] + int(round(u[k] * rng.uniform(220, 340) * b)) for k in range(3)]
                name = BEADNAMES[b] if not single else rng.choice(BEADNAMES + ['CA'])
                atoms.append({'chain': chain, 'resid': resid, 'resname': resname, 'hasold': False, 'old': resid + old_shift,
                              'sel': True, 'nan': False, 'pos': pos, 'name': name})
                members.append(len(atoms))
                if b:
                    edges.append([members[b - 1] if rng.random() < 0.7 else members[0], members[b]])
            if prev_bb is not None and not (gap and rng.random() < 0.7):
                edges.append([prev_bb, members[0]])
            prev_bb = members[0]
            res_members.append(members)
            chain_of_res.append(chain)
    # a residue sharing chain and resid with its predecessor but not the residue name is still its own residue
    if not single and rng.random() < 0.08 and len(res_members) > 1:
        r = rng.randrange(1, len(res_members))
        if chain_of_res[r] == chain_of_res[r - 1]:
            donor = atoms[res_members[r - 1][0] - 1]
            for idx in res_members[r]:
                atoms[idx - 1]['resid'], atoms[idx - 1]['old'] = donor['resid'], donor['old']
                atoms[idx - 1]['resname'] = 'XYZ'
    nres = len(res_members)
    for _ in range(rng.choice([0, 0, 1, 2])):             # cross-links (disulfide-like), also across chains
        r1, r2 = rng.sample(range(nres), 2)
        e = [rng.choice(res_members[r1]), rng.choice(res_members[r2])]
        if e not in edges and e[::-1] not in edges:
            edges.append(e)
    n = len(atoms)
    hasold = rng.choice(['all', 'all', 'none', 'some'])
    for a in atoms:
        a['hasold'] = hasold == 'all' or (hasold == 'some' and rng.random() < 0.5)
    sc = {'fam': fam, 'atoms': atoms, 'edges': edges, 'prebonds': rng.randint(0, min(3, len(edges))),
          'via_ff': rng.random() < 0.4, 'explicit_domain': rng.random() < 0.5, 'explicit_selector': rng.random() < 0.5,
          'a': 0.0, 'p': rng.choice([0, 0, 1, 2]), 'lo': rng.choice([0, 300, 500]),
          'base': rng.choice([500, 700, 1000]) * MICRO, 'minf': 0}
    span = 1 + int(max(math.sqrt(sum((x - y) ** 2 for x, y in zip(p['pos'], q['pos']))) for p in atoms for q in atoms))

    # --- selection
    def pick_selection():
        mode = rng.choice(['backbone', 'names', 'alternate', 'random', 'random'])
        if single and mode in ('backbone', 'names'):
            names = ['BB'] if mode == 'backbone' else rng.sample(BEADNAMES + ['CA'], 2)
            for a in atoms:
                a['sel'] = a['name'] in names
            return {'kind': mode, 'names': names}
        if mode == 'backbone':
            for a in atoms:
                a['sel'] = a['name'] == 'BB'
            return {'kind': 'backbone', 'names': ['BB']}
        if mode == 'names':
            names = rng.choice([['BB', 'SC1'], ['SC1'], ['SC1', 'SC2'], ['BB', 'SC2']])
            for a in atoms:
                a['sel'] = a['name'] in names
            return {'kind': 'names', 'names': names}
        for i, a in enumerate(atoms):
            a['sel'] = (i % 2 == 0) if mode == 'alternate' else rng.random() < 0.6
        return {'kind': 'flag', 'names': []}

    def all_selected():
        for a in atoms:
            a['sel'] = True
        return {'kind': rng.choice(['all', 'flag']), 'names': []}

    def pick_domain():
        kind = rng.choice(['chain', 'regions', 'regions'])
        regions = []
        if kind == 'regions':
            vals = sorted({(a['old'] if a['hasold'] else a['resid']) for a in atoms})
            for _ in range(rng.randint(1, 3)):
                lo_, hi_ = sorted(rng.sample(vals, 2)) if len(vals) > 1 else (vals[0], vals[0])
                regions.append([hi_, lo_] if rng.random() < 0.3 else [lo_, hi_])
        return {'kind': kind, 'regions': regions}

    def pick_decay():
        sc['a'] = rng.choice([0.5, 1.0, 2.0, 4.0])
        sc['p'] = rng.choice([1, 2, 2, 3, 6, 0.5, 1.5])
        if not float(sc['p']).is_integer():
            sc['lo'] = 0

    sc['selector'] = all_selected()
    sc['dom'] = {'kind': 'molecule', 'regions': []}
    sc['rmd'] = 0
    sc['up'] = span + rng.randint(5, 400)
    if fam == 'sel':
        sc['selector'] = pick_selection()
    elif fam == 'dom':
        sc['dom'] = pick_domain()
    elif fam == 'sep':
        sc['rmd'] = rng.choice([0, 1, 1, 2, 2, 3])
    elif fam == 'cut':
        sc['up'] = rng.randint(400, 1000)
    elif fam == 'force':
        if rng.random() < 0.1:
            sc['minf'] = sc['base'] + rng.choice([0, 1, 50 * MICRO])       # nothing is stiff enough
        else:
            pick_decay()
            ks = sorted({min(raw_k(sc, i, j), sc['base']) for i in range(n) for j in range(i + 1, n)})
            if len(ks) >= 2:
                t = rng.randrange(len(ks) - 1)
                sc['minf'] = (ks[t] + ks[t + 1]) // 2
    else:                                                                   # mixed, nan
        sc['selector'] = pick_selection() if rng.random() < 0.8 else all_selected()
        sc['dom'] = pick_domain() if rng.random() < 0.6 else sc['dom']
        sc['rmd'] = rng.choice([0, 1, 2, 2, 3])
        sc['up'] = rng.choice([rng.randint(450, 1200), span + 10])
        if rng.random() < 0.5:
            pick_decay()
            ks = sorted({min(raw_k(sc, i, j), sc['base']) for i in range(n) for j in range(i + 1, n)})
            sc['minf'] = rng.choice([0, ks[len(ks) // 3], (ks[0] + ks[-1]) // 2]) if ks else 0
        elif rng.random() < 0.1:
            sc['minf'] = sc['base']
    if fam == 'nan':
        sel = [i for i, a in enumerate(atoms) if a['sel']]
        unsel = [i for i, a in enumerate(atoms) if not a['sel']]
        victims = rng.sample(sel, min(len(sel), rng.randint(1, 2))) if (sel and (rng.random() < 0.7 or not unsel)) \
            else rng.sample(unsel, 1)
        for v in victims:
            atoms[v]['nan'] = True
            atoms[v]['nanmask'] = rng.choice([[1, 1, 1], [0, 1, 0], [1, 0, 0]])
    sc['layout'] = _layout(rng, n, motion=False)
    sc['twin'] = _layout(rng, n, motion=True)
    return sc


def make_scenario(rng, fam):
    for _ in range(200):
        sc = gen_scenario(rng, fam)
        if numerics_ok(sc):
            return sc
    raise tlc.MachineryError('generator cannot find a numerically unambiguous scenario for family ' + fam)


def event_of(sc, with_twin=True):
    rec = run_real(sc)
    ev = {'fam': sc['fam'], 'm': model_input(sc), 'rec': {k: rec[k] for k in ('exc', 'warn', 'bonds', 'others')},
          'twin': {'has': False, 'exc': False, 'bonds': []}}
    if with_twin and not any(a['nan'] for a in sc['atoms']):
        t = run_real(sc, twin=True)
        ev['twin'] = {'has': True, 'exc': t['exc'], 'bonds': t['bonds']}
    return ev, rec


def _trace_chunk(args):
    jobs, seed = args
    rng = random.Random(seed)
    out = []
    for fam in jobs:
        sc = make_scenario(rng, fam)
        ev, _ = event_of(sc)
        out.append((sc, ev))
    return out


# ------------------------------------------------------------------------------------------------- TAB replay
def scenario_of_state(m, rng):
    """Scenario for one TAB input: beads on a lattice line, coordinates exactly representable in binary."""
    axis = rng.randrange(3)
    sign = rng.choice([1, -1])
    off = [250 * rng.randint(-4, 4) for _ in range(3)]
    atoms = []
    for a in m['atoms']:
        pos = list(off)
        pos[axis] += sign * a['pos'][0]
        atoms.append({'chain': a['chain'], 'resid': a['resid'], 'resname': a['resname'], 'hasold': a['hasold'],
                      'old': a['old'], 'sel': a['sel'], 'nan': False, 'pos': pos,
                      'name': 'BB' if a['sel'] else 'SC1'})
    n = len(atoms)
    return {'fam': 'tab', 'atoms': atoms, 'edges': [list(e) for e in m['edges']], 'prebonds': 0,
            'via_ff': rng.random() < 0.5, 'explicit_domain': rng.random() < 0.5, 'explicit_selector': rng.random() < 0.5,
            'a': 0.0, 'p': 0, 'lo': 0, 'base': m['base'], 'minf': m['minf'], 'rmd': m['rmd'], 'up': m['up'],
            'dom': {'kind': m['dom']['kind'], 'regions': [list(r) for r in m['dom']['regions']]},
            'selector': {'kind': rng.choice(['backbone', 'flag', 'names']), 'names': ['BB']},
            'layout': _layout(rng, n, motion=False), 'twin': _layout(rng, n, motion=False)}


def _replay_chunk(args):
    states, seed = args
    rng = random.Random(seed)
    bad, judged, n = [], [], 0
    nontrivial, sample, inhabited = [], [], 0
    if states and isinstance(states[0], str):           # raw dump bodies: parse here, in parallel
        states = [st for st in map(tlaval.parse_state_body, states) if (0, 0) not in st['out']]
    for st in states:
        sc = scenario_of_state(st['m'], rng)
        rec = run_real(sc)
        n += 1
        exp = sorted([list(p) for p in st['out']])
        got = sorted([sorted([b['a'], b['b']]) for b in rec['bonds']])
        ks = {b['k'] for b in rec['bonds']}
        if rec['exc'] or got != exp or (ks - {st['m']['base']}):
            bad.append({'kind': 'tab', 'scenario': sc, 'expected': exp, 'got': got, 'exc': rec['excmsg'],
                        'constants': sorted(ks)})
        nsel = sum(1 for a in st['m']['atoms'] if a['sel'])
        if 1 <= len(exp) < nsel * (nsel - 1) // 2:
            nontrivial.append(st['m'])
            if len(sample) < 1:
                sample.append({'kind': 'TAB row replayed', 'input': st['m'], 'expected_bonds': exp, 'real_bonds': got})
        if exp:
            inhabited += 1
        if rng.random() < 0.1:
            ev = {'fam': 'tab', 'm': model_input(sc), 'rec': {k: rec[k] for k in ('exc', 'warn', 'bonds', 'others')},
                  'twin': {'has': False, 'exc': False, 'bonds': []}}
            judged.append((sc, ev))
    return n, bad, judged, nontrivial, sample, inhabited


# ------------------------------------------------------------------------------------------------------ judge
def _judge(shard):
    work = tlc.scratch('c15_')
    tf = tlc.write_json(work, 'trace.json', [ev for _, ev in shard])
    res = tlc.run('Trace_ElasticNet', 'SPECIFICATION Spec\n', dump=True, env={'TRACE_FILE': tf}, workdir=work, workers=2,
                  timeout=1800)
    if res.violated:
        raise tlc.MachineryError('Trace_ElasticNet violated ' + str(res.violated))
    verdicts = {st['tid']: st['verdict'] for st in res.states() if st['verdict']['v'] != 'pending'}
    return res.distinct, res.generated, verdicts


def judge_batch(batch, ev, vd):
    """batch: list of (scenario, event). Returns per-family class histogram."""
    shards = common.chunks(batch, 4 if len(batch) < 3000 else tlc.NCPU // 2)
    with mp.Pool(len(shards)) as pool:
        res = pool.map(_judge, shards)
    hist = {}
    for shard, (dist, gen, verdicts) in zip(shards, res):
        ev.states += dist
        ev.transitions += gen
        if len(verdicts) != len(shard):
            raise tlc.MachineryError('trace verdicts missing: %d of %d' % (len(verdicts), len(shard)))
        for i, (sc, e) in enumerate(shard, 1):
            v = verdicts[i]
            ev.traces += 1
            ev.evaluations += 1
            h = hist.setdefault(e['fam'], {'events': 0})
            h['events'] += 1
            for c, k in v['cls'].items():
                h[c] = h.get(c, 0) + k
            if v['v'] != 'ok':
                vd.violation('trace-rejected', {'kind': 'trace', 'scenario': sc, 'recorded': e['rec'], 'twin': e['twin']},
                             v['v'])
            if sum(1 for c in ['bond'] + CRITERIA if v['cls'].get(c, 0) > 0) >= 2:
                ev.nontrivial_case(e['m'])
    return hist


# -------------------------------------------------------------------------------------------------------- run
def run(tier, seed, ev, vd):
    quick = tier == 'quick'
    ev.rule = ('TAB: every combination of selection x residue partition x chain split x domain kind x separation x cut-off x '
               'minimum force x cross-link on a line of beads, replayed into the real processor. TRACE: random molecules per '
               'generator family. Non-trivial = input on which at least two of the classes {bonded, excluded only by '
               'selection, only by domain, only by separation, only by cut-off, only by force} are inhabited (classes '
               'computed by TLC; for TAB rows: some but not all selected pairs bonded); distinct by model input.')
    ev.assumptions = [
        'TLC 1.8 evaluates the TLA+ operators correctly',
        'the exponential of the decay is evaluated with math.exp in the harness and handed to TLC per pair (DESIGN.md limit)',
        'coordinates are integer pm; lengths must be 5-decimal numbers (1e-6 in units of 1e-5 nm) and are then compared '
        'exactly; force constants compared in 1e-6 kJ/mol/nm^2 with +-1 unit',
        'not generated: distance numerically on the cut-off (except exactly representable TAB rows), length within 1e-9 nm of a '
        'rounding boundary, decayed constant within 1e-5 of the minimum force, non-integer decay power below the lower bound, '
        'negative minimum force, decay factor != 0 with power 0, selected atoms without coordinates, coincident atoms',
    ]
    consts = TAB_CONSTS[tier]
    res = tlc.run('ElasticNet', TAB_CFG, consts=consts, dump=True, timeout=1700)
    if res.violated:
        raise tlc.MachineryError('ElasticNet model violates %s' % res.violated)
    ev.add_tlc('TAB ElasticNet %s' % {k: consts[k] for k in ('NB', 'Ups', 'Rmds')}, res)
    ev.exhaustive = True
    with open(res.dump_path) as fh:
        bodies = tlaval._STATE_HDR.split(fh.read())[2::2]
    if len(bodies) != res.distinct:
        raise tlc.MachineryError('dump has %d states, TLC reports %d' % (len(bodies), res.distinct))
    parts = common.chunks(bodies, tlc.NCPU * 4)
    with mp.Pool(tlc.NCPU) as pool:
        outs = pool.map(_replay_chunk, [(p, seed * 1009 + i) for i, p in enumerate(parts)])
    batch = []
    nrows = inhabited = 0
    for n, bad, judged, nontrivial, sample, inh in outs:
        nrows += n
        inhabited += inh
        ev.traces += n
        ev.evaluations += n
        batch += judged
        for b in bad:
            vd.violation('replay-mismatch', b, 'real bonds %s, TLC ExpectedDecl %s %s' % (b['got'], b['expected'], b['exc']))
        for m in nontrivial:
            ev.nontrivial_case(m)
        for smp in sample:
            ev.sample(smp, limit=1)
    if nrows * 2 != res.distinct:
        raise tlc.MachineryError('TAB dump has %d evaluated rows for %d states' % (nrows, res.distinct))
    if not inhabited:
        raise tlc.MachineryError('vacuous TAB model: no input with a bond')

    per = 150 if quick else 2500
    jobs = [f for f in FAMILIES for _ in range(per)]
    random.Random(seed).shuffle(jobs)
    with mp.Pool(tlc.NCPU) as pool:
        parts = pool.map(_trace_chunk, [(c, seed * 7919 + i) for i, c in enumerate(common.chunks(jobs, tlc.NCPU * 2))])
    batch += [x for p in parts for x in p]
    hist = judge_batch(batch, ev, vd)
    ev.tlc_runs.append({'run': 'TRACE Trace_ElasticNet', 'events': len(batch)})
    ev.extra['pairs_per_family_and_class'] = hist
    ev.extra['class_legend'] = ('per generator family: number of particle pairs that are bonded / excluded by exactly the '
                                'named criterion / by several (multi), as classified by TLC from ElasticNet!Failing')
    for fam in CRITERIA:                 # vacuity: the dedicated family must exercise its criterion as sole excluder
        h = hist.get(fam, {})
        others = [c for c in CRITERIA if c != fam and h.get(c, 0)]
        if h.get(fam, 0) == 0 or h.get('bond', 0) == 0:
            raise tlc.MachineryError('vacuous family %s: %s' % (fam, h))
        if others or h.get('multi', 0):
            raise tlc.MachineryError('family %s is not a sole-criterion family: %s' % (fam, h))
    if not hist.get('nan', {}).get('events'):
        raise tlc.MachineryError('no NaN scenario generated')
    sc, e = next(x for x in batch if x[0]['fam'] == 'mixed')
    ev.sample({'kind': 'recorded run judged by TLC', 'event': e})


def replay(sc):
    if sc.get('kind') == 'tab':
        rec = run_real(sc['scenario'])
        got = sorted([sorted([b['a'], b['b']]) for b in rec['bonds']])
        print('real bonds', got, 'expected', sc['expected'], rec['excmsg'])
        return 0 if got == sc['expected'] and not rec['exc'] else 1
    scen = sc['scenario']
    e, rec = event_of(scen)
    ev = common.Evidence(PID, 'quick', 0)
    _, _, verdicts = _judge([(scen, e)])
    print('real run:', {k: rec[k] for k in ('excmsg', 'warn', 'bonds', 'others')})
    print('TLC verdict:', verdicts[1])
    return 0 if verdicts[1]['v'] == 'ok' else 1


def selftest(seed):
    """Binding demonstration: tampered recordings must be rejected by the judge, a flipped TAB expectation by the replay."""
    rng = random.Random(seed)
    batch = []
    while len(batch) < 8:
        sc = make_scenario(rng, 'mixed')
        e, _ = event_of(sc)
        if len(e['rec']['bonds']) >= 2:
            batch.append((sc, e))
    batch[1][1]['rec']['bonds'].pop()                                          # a qualifying pair loses its bond
    batch[3][1]['rec']['bonds'][0]['len'] += 2                                 # length off by 2e-5 nm
    batch[5][1]['rec']['bonds'][0]['k'] -= 5                                   # constant off by 5e-6
    batch[6][1]['rec']['bonds'].append(dict(batch[6][1]['rec']['bonds'][0]))   # pair bonded twice
    _, _, verdicts = _judge(batch)
    got = {i: verdicts[i]['v'] for i in verdicts if verdicts[i]['v'] != 'ok'}
    want = {2: 'qualifying-pair-without-bond', 4: 'length-is-not-the-distance-to-5-decimals',
            6: 'constant-is-not-the-capped-decayed-base', 7: 'pair-bonded-more-than-once'}
    assert got == want, got
    res = tlc.run('ElasticNet', TAB_CFG, consts=TAB_CONSTS['quick'], dump=True)
    rows = [st for st in res.states() if (0, 0) not in st['out'] and st['out']][:5]
    rows[2] = dict(rows[2], out=frozenset(list(rows[2]['out'])[1:]))
    n, bad = _replay_chunk((rows, seed))[:2]
    assert n == 5 and len(bad) == 1, bad
    print('selftest C15: tampered recordings rejected by TLC: %s; flipped TAB expectation reported by the replay: '
          'expected %s got %s' % (sorted(got.items()), bad[0]['expected'], bad[0]['got']))
    return 0
