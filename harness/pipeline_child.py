"""Child process of harness/pipeline.py: runs the REAL bin/martinize2 entry() with the given command line and prints,
as one JSON line, the sequence of pipeline stages it went through.

A stage event is emitted when the stage STARTS (the order of starts is what spec/Martinize.tla describes):
  * every vermouth Processor.run_system call                       -> the processor's class name (+ a few telling parameters)
  * GoPipeline.run_system (a classmethod-like pipeline object)     -> 'GoPipeline'; the processors it runs are nested and not listed
  * read_go_map                                                    -> 'ReadGoMap'
  * vermouth.pdb.write_pdb                                         -> 'WritePDB(now)' / 'WritePDB(deferred)'
  * write_gmx_topology                                             -> 'WriteTopology'
  * ignore_warnings_and_count                                      -> 'CountWarnings'
  * DeferredFileWriter.write                                       -> 'FinalWrite'
  * replacing the residue numbers by the input ones                -> 'RestoreResids' (seen as nx.set_node_attributes(..., 'resid'))
  * the flush of per-molecule log entries                          -> not a call; not recorded
Nothing in the library is changed: the wrappers only append to a list and call the original."""
import importlib.machinery
import importlib.util
import json
import os
import sys


def main():
    repo = os.environ.get('VERIF_REPO', '/repo')
    import vermouth
    import vermouth.file_writer as fw
    import vermouth.pdb
    import vermouth.rcsu.go_pipeline
    import vermouth.rcsu.contact_map
    import vermouth.rcsu.go_vs_includes
    import vermouth.dssp.dssp
    import vermouth.gmx.topology
    from vermouth.processors.processor import Processor
    events = []
    depth = [0]

    def label(self):
        name = type(self).__name__
        if name == 'AnnotateResidues':
            return '%s(%s)' % (name, self.attribute)
        if name == 'SetMoleculeMeta':
            return '%s(%s)' % (name, ','.join(sorted(self.meta)))
        if name == 'MergeChains':
            return '%s(%s)' % (name, 'all' if self.all_chains else 'set')
        if name == 'ComputeWaterBias':
            return '%s(%s)' % (name, 'auto' if self.auto_bias else 'off')
        if name == 'RepairGraph':
            return name
        return name

    def subclasses(c):
        out = []
        for s in c.__subclasses__():
            out.append(s)
            out.extend(subclasses(s))
        return out

    def wrap(orig):
        def run_system(self, *a, **k):
            if depth[0] == 0:
                events.append(label(self))
            depth[0] += 1
            try:
                return orig(self, *a, **k)
            finally:
                depth[0] -= 1
        return run_system
    seen = set()
    for cls in [Processor] + subclasses(Processor):
        if 'run_system' in cls.__dict__ and cls not in seen:
            seen.add(cls)
            cls.run_system = wrap(cls.__dict__['run_system'])

    gp = vermouth.rcsu.go_pipeline.GoPipeline
    orig_gp = gp.run_system

    def gp_run(*a, **k):
        if depth[0] == 0:
            events.append('GoPipeline')
        depth[0] += 1
        try:
            return orig_gp(*a, **k)
        finally:
            depth[0] -= 1
    try:
        gp.run_system = gp_run
    except Exception:       # an instance with slots: fall back to the class
        type(gp).run_system = lambda self, *a, **k: gp_run(*a, **k)

    ow = fw.DeferredFileWriter.write

    def final_write(self):
        events.append('FinalWrite')
        return ow(self)
    fw.DeferredFileWriter.write = final_write

    import networkx as nx
    osn = nx.set_node_attributes

    def set_node_attributes(G, values, name=None):
        if name == 'resid' and depth[0] == 0:
            if not events or events[-1] != 'RestoreResids':
                events.append('RestoreResids')
        return osn(G, values, name)
    nx.set_node_attributes = set_node_attributes

    loader = importlib.machinery.SourceFileLoader('m2', os.path.join(repo, 'bin', 'martinize2'))
    spec = importlib.util.spec_from_loader('m2', loader)
    mod = importlib.util.module_from_spec(spec)
    loader.exec_module(mod)

    owp = vermouth.pdb.write_pdb

    def write_pdb(system, path, *a, **k):
        if depth[0] == 0:
            events.append('WritePDB(%s)' % ('now' if k.get('defer_writing', True) is False else 'deferred'))
        return owp(system, path, *a, **k)
    vermouth.pdb.write_pdb = write_pdb
    owt = mod.write_gmx_topology

    def write_top(*a, **k):
        events.append('WriteTopology')
        depth[0] += 1
        try:
            return owt(*a, **k)
        finally:
            depth[0] -= 1
    mod.write_gmx_topology = write_top
    oc = mod.ignore_warnings_and_count

    def count(*a, **k):
        events.append('CountWarnings')
        return oc(*a, **k)
    mod.ignore_warnings_and_count = count
    org = mod.read_go_map

    def read_go(*a, **k):
        events.append('ReadGoMap')
        return org(*a, **k)
    mod.read_go_map = read_go
    ors = mod.read_system

    def read_sys(*a, **k):
        events.append('ReadInput')
        depth[0] += 1
        try:
            return ors(*a, **k)
        finally:
            depth[0] -= 1
    mod.read_system = read_sys

    sys.argv = ['martinize2'] + sys.argv[1:]
    rc, err = 0, ''
    try:
        mod.entry()
    except SystemExit as e:
        rc = e.code if isinstance(e.code, int) else (0 if e.code is None else 1)
    except BaseException as e:      # noqa
        rc, err = -1, repr(e)[:300]
    sys.stdout.write('\nPIPELINE-EVENTS ' + json.dumps({'rc': rc, 'err': err, 'events': events}) + '\n')


if __name__ == '__main__':
    main()
