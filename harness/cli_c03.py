"""Helper shared by C02 / C03: run the real martinize2 command line IN-PROCESS (its own composition of stages, its
own writers, the real DeferredFileWriter) in a scratch directory, capture the System that reaches
write_gmx_topology by interposing on the name the CLI module calls, and return the written files.

Each run is meant to execute in a freshly forked worker (multiprocessing Pool(maxtasksperchild=1)) so that the
module-level warning counter / logging handlers / writer singleton of one run cannot leak into the next."""
import contextlib
import importlib.machinery
import importlib.util
import io
import os
import shutil
import sys
import tempfile

from .common import REPO

TESTS = os.path.join(REPO, 'vermouth', 'tests', 'data', 'integration_tests')
PEPTIDES = {'P': 'tier-0/dipro-termini', 'S': 'tier-0/mini-protein1_betasheet', 'H': 'tier-0/mini-protein2_helix',
            'W': 'tier-0/mini-protein3_trp-cage', 'U': 'tier-1/1UBQ'}


def multichain_pdb(chains, spacing=60.0):
    """chains: string over PEPTIDES keys, e.g. 'PSP' = dipro, beta-sheet, dipro (identical chains interleaved with a
    different one).  Chain i is translated by i*spacing Angstrom along x so that no inter-chain bond can be guessed."""
    out = ['CRYST1  500.000  500.000  500.000  90.00  90.00  90.00 P 1           1']
    serial = 1
    labels = 'ABCDEFGHIJ'
    if '/' in chains:           # 'SPSP/ADCB': the chains carry these labels, in file order
        chains, labels = chains.split('/')
    for ci, code in enumerate(chains):
        # a lower-case code is the same peptide in a DIFFERENT conformation (stretched by 8% along z): same sequence and
        # topology up to the point where geometry enters (elastic network, geometry-derived link parameters)
        stretch = 1.08 if code.islower() else 1.0
        path = os.path.join(TESTS, PEPTIDES[code.upper()], 'aa.pdb')
        chain_id = labels[ci]
        for line in open(path).read().splitlines():
            if not line.startswith('ATOM'):
                continue
            line = line.ljust(80)
            x = float(line[30:38]) + ci * spacing
            line = '%s%5d%s%s%s%8.3f%s%8.3f%s' % (line[:6], serial, line[11:21], chain_id, line[22:30], x, line[38:46],
                                                 float(line[46:54]) * stretch, line[54:])
            out.append(line.rstrip())
            serial += 1
        out.append('TER')
        serial += 1
    out.append('END')
    return '\n'.join(out) + '\n'


def load_cli():
    path = os.path.join(REPO, 'bin', 'martinize2')
    loader = importlib.machinery.SourceFileLoader('martinize2_cli_verif_c03', path)
    spec = importlib.util.spec_from_loader(loader.name, loader)
    mod = importlib.util.module_from_spec(spec)
    loader.exec_module(mod)
    return mod


def run_cli(chains, options, on_system):
    """Run `martinize2 -f in.pdb -x cg.pdb -o topol.top <options>` in a scratch directory.
    on_system(system) is called with the live System just BEFORE the real write_gmx_topology runs (the objects are
    the ones both writers see); its return value is passed through.
    Returns {'rc', 'files': {name: text}, 'captured', 'argv', 'log'}."""
    root = tempfile.mkdtemp(prefix='c03cli_')
    cwd = os.getcwd()
    argv0 = list(sys.argv)
    captured = {}
    log = io.StringIO()
    try:
        os.chdir(root)
        with open('in.pdb', 'w') as fh:
            fh.write(multichain_pdb(chains))
        with contextlib.redirect_stderr(log), contextlib.redirect_stdout(log):
            cli = load_cli()       # the CLI module binds its log handler to sys.stderr when it is loaded
        real_write = cli.write_gmx_topology

        def interposed(system, *args, **kwargs):
            captured['value'] = on_system(system)
            return real_write(system, *args, **kwargs)

        cli.write_gmx_topology = interposed
        argv = ['-f', 'in.pdb', '-x', 'cg.pdb', '-o', 'topol.top'] + list(options)
        sys.argv = ['martinize2'] + argv
        rc = 0
        with contextlib.redirect_stderr(log), contextlib.redirect_stdout(log):
            try:
                cli.entry()
            except SystemExit as exc:
                rc = exc.code if isinstance(exc.code, int) else (0 if exc.code is None else 1)
            except Exception as exc:      # a failing pipeline stage is reported by the caller as a machinery problem
                rc = 'exception %r' % (exc,)
        files = {}
        for name in sorted(os.listdir(root)):
            if name == 'in.pdb' or os.path.isdir(name):
                continue
            with open(name, errors='replace') as fh:
                files[name] = fh.read()
        return {'rc': rc, 'files': files, 'captured': captured.get('value'), 'argv': ' '.join(argv),
                'chains': chains, 'log': log.getvalue()[-2000:]}
    finally:
        sys.argv = argv0
        os.chdir(cwd)
        shutil.rmtree(root, ignore_errors=True)


# ------------------------------------------------------------------------------------------------------------------
# C03 extension: richer inputs (added; the functions above are used by other checks and keep their behaviour)

def benzene_lines(chain_id, resid, centre):
    """One benzene molecule (HETATM, residue BENZ: known to the charmm force field and mapped to Martini 3, so it
    survives the pipeline as a NON-protein molecule of three beads).  Returns [(record, name, resname, element, x, y, z)]."""
    import math
    out = []
    names = [('CG', 'HG'), ('CD1', 'HD1'), ('CE1', 'HE1'), ('CZ', 'HZ'), ('CE2', 'HE2'), ('CD2', 'HD2')]
    for i, (c, h) in enumerate(names):
        a = math.pi / 3 * i
        for name, r, el in ((c, 1.40, 'C'), (h, 2.48, 'H')):
            out.append(('HETATM', name, 'BENZ', el, centre[0] + r * math.cos(a), centre[1] + r * math.sin(a), centre[2]))
    return out


def chains_of(codes, labels='ABCDEFGHIJKLMNOPQRSTUVWXYZ', **common):
    """'PsLP' -> chain descriptions for build_input: upper case = the peptide as shipped, lower case = the same peptide in a
    DIFFERENT conformation (stretched along z), 'L' = a benzene ligand."""
    return [dict({'code': c.upper(), 'label': labels[i], 'stretch': 1.08 if (c.islower() and c != 'l') else 1.0}, **common)
            for i, c in enumerate(codes)]


def _chain_atoms(ch, ci, spacing):
    """[(record, atomname, resname, resnum, element, x, y, z)] of one chain, in file order.
    Residue numbering: ch['start'] (number of the first residue; None = as shipped), ch['gap'] = [k, jump]: from the k-th
    residue (0-based) on the numbers are shifted by jump.  ch['noh']: hydrogens left out."""
    if ch['code'] == 'L':
        resid = ch.get('start') or 1
        return [(rec, name, resname, resid, el, x + ci * spacing, y, z)
                for rec, name, resname, el, x, y, z in benzene_lines(ch['label'], resid, (10.0, 40.0, 40.0))]
    path = os.path.join(TESTS, PEPTIDES[ch['code']], 'aa.pdb')
    lines = [ln.ljust(80) for ln in open(path).read().splitlines() if ln.startswith('ATOM')]
    order = []
    for ln in lines:
        if ln[22:27] not in order:
            order.append(ln[22:27])
    start, gap = ch.get('start'), ch.get('gap')
    out = []
    for ln in lines:
        r = order.index(ln[22:27])
        num = int(ln[22:26]) if start is None else start + r
        if gap and r >= gap[0]:
            num += gap[1]
        name, el = ln[12:16].strip(), ln[76:78].strip()
        if ch.get('noh') and (el == 'H' or (not el and name.lstrip('0123456789').startswith('H'))):
            continue
        out.append(('ATOM', name, ln[17:20].strip(), num, el, float(ln[30:38]) + ci * spacing, float(ln[38:46]),
                    float(ln[46:54]) * ch.get('stretch', 1.0)))
    return out


def build_input(spec):
    """spec = {'fmt': 'pdb' | 'gro', 'models': [[chain, ...], ...]} (chain descriptions as made by chains_of).
    PDB: one MODEL / ENDMDL pair per model when there are several; chains closed by TER, chain identifier = label.
    GRO: the chains of the first model one after the other (the format has no chains; residue numbers up to 99999)."""
    spacing = 60.0
    models = spec['models']
    if spec.get('fmt', 'pdb') == 'gro':
        atoms = [a for ci, ch in enumerate(models[0]) for a in _chain_atoms(ch, ci, spacing)]
        out = ['verif C03 input', '%5d' % len(atoms)]
        for i, (_rec, name, resname, num, _el, x, y, z) in enumerate(atoms, 1):
            out.append('%5d%-5s%5s%5d%8.3f%8.3f%8.3f' % (num % 100000, resname, name, i % 100000, x / 10, y / 10, z / 10))
        out.append('  90.00000  90.00000  90.00000')
        return '\n'.join(out) + '\n'
    out = ['CRYST1  900.000  900.000  900.000  90.00  90.00  90.00 P 1           1']
    for mi, chains in enumerate(models, 1):
        if len(models) > 1:
            out.append('MODEL     %4d' % mi)
        serial = 1
        for ci, ch in enumerate(chains):
            for rec, name, resname, num, el, x, y, z in _chain_atoms(ch, ci, spacing):
                col = name if len(name) == 4 else ' ' + name
                out.append('%-6s%5d %-4s %-4s%s%4d    %8.3f%8.3f%8.3f  1.00  0.00          %2s'
                           % (rec, serial % 100000, col, resname, ch['label'], num, x, y, z, el))
                serial += 1
            out.append('TER')
            serial += 1
        if len(models) > 1:
            out.append('ENDMDL')
    out.append('END')
    return '\n'.join(out) + '\n'


def run_cli_input(text, options, on_system, in_name='in.pdb', x_name='cg.pdb', top_name='topol.top', extra_files=None,
                  on_written=None):
    """Like run_cli, for an input TEXT: `martinize2 -f <in_name> -x <x_name> -o <top_name> <options>` in a scratch directory
    (extra_files: {name: text} written next to the input, e.g. a Go contact map).  on_system(system) sees the live System
    just before the real write_gmx_topology runs.  on_written(root, call) runs after the command returned, still inside the
    scratch directory (e.g. to read the written files back with the repository's own readers, or to write the same system a
    second time: call = {'system', 'args', 'kwargs', 'write'} of the topology-writer call the command made).
    Returns {'rc', 'files', 'captured', 'written', 'argv', 'log'}."""
    root = tempfile.mkdtemp(prefix='c03cli_')
    cwd = os.getcwd()
    argv0 = list(sys.argv)
    captured = {}
    log = io.StringIO()
    inputs = {in_name}
    try:
        os.chdir(root)
        with open(in_name, 'w') as fh:
            fh.write(text)
        for name, body in (extra_files or {}).items():
            with open(name, 'w') as fh:
                fh.write(body)
            inputs.add(name)
        with contextlib.redirect_stderr(log), contextlib.redirect_stdout(log):
            cli = load_cli()
        real_write = cli.write_gmx_topology

        def interposed(system, *args, **kwargs):
            captured['value'] = on_system(system)
            captured['call'] = {'system': system, 'args': args, 'kwargs': kwargs, 'write': real_write}
            return real_write(system, *args, **kwargs)

        cli.write_gmx_topology = interposed
        argv = ['-f', in_name, '-x', x_name, '-o', top_name] + list(options)
        sys.argv = ['martinize2'] + argv
        rc = 0
        with contextlib.redirect_stderr(log), contextlib.redirect_stdout(log):
            try:
                cli.entry()
            except SystemExit as exc:
                rc = exc.code if isinstance(exc.code, int) else (0 if exc.code is None else 1)
            except Exception as exc:      # noqa - reported by the caller
                rc = 'exception %r' % (exc,)
        files = {}
        for name in sorted(os.listdir(root)):
            if name in inputs or os.path.isdir(name):
                continue
            with open(name, errors='replace') as fh:
                files[name] = fh.read()
        written = None
        if on_written is not None and rc == 0:
            with contextlib.redirect_stderr(log), contextlib.redirect_stdout(log):
                written = on_written(root, captured.get('call'))
        return {'rc': rc, 'files': files, 'captured': captured.get('value'), 'written': written, 'argv': ' '.join(argv),
                'log': log.getvalue()[-2000:]}
    finally:
        sys.argv = argv0
        os.chdir(cwd)
        shutil.rmtree(root, ignore_errors=True)


def chain_numbers(ch):
    """Residue numbers of a chain description in order of appearance, as build_input writes them."""
    out = []
    for _rec, _name, _resname, num, _el, _x, _y, _z in _chain_atoms(dict(ch, noh=False), 0, 0.0):
        if not out or out[-1] != num:
            out.append(num)
    return out


def insulin_pairs(labels='BACD', spacing=60.0):
    """Two copies of the insulin pair of tier-1/3i40 (21- and 30-residue chains joined by disulfide bridges: ONE molecule made of
    two chains, without any -merge).  labels: chain labels in file order (short, long, short, long); 'BACD' labels the first copy
    against the alphabet (SortMoleculeAtoms orders by chain) and the second copy along it: same chains, different written order."""
    path = os.path.join(TESTS, 'tier-1/3i40', '3i40.pdb')
    chains = {'A': [], 'B': []}
    for ln in open(path).read().splitlines():
        if ln.startswith('ATOM') and ln[21] in chains and ln[16] in ' A':
            chains[ln[21]].append(ln.ljust(80))
    out = ['CRYST1  900.000  900.000  900.000  90.00  90.00  90.00 P 1           1']
    serial = 1
    k = 0
    for copy in range(2):
        for orig in 'AB':
            for ln in chains[orig]:
                x = float(ln[30:38]) + copy * spacing
                out.append('%s%5d%s %s%s%8.3f%s' % (ln[:6], serial, ln[11:16], ln[17:21] + labels[k], ln[22:30], x, ln[38:].rstrip()))
                serial += 1
            out.append('TER')
            serial += 1
            k += 1
    out.append('END')
    return '\n'.join(out) + '\n'

