"""Helper shared by C02 / C03: run the real martinize2 command line IN-PROCESS (its own composition of stages, its
own writers, the real DeferredFileWriter) in a scratch directory, capture the System that reaches
write_gmx_topology by interposing on the name the CLI module calls, and return the written files.

Each run is meant to execute in a freshly forked worker (multiprocessing Pool(maxtasksperchild=1)) so that the
module-level warning counter / logging handlers / writer singleton of one run cannot leak into the next."""
import contextlib
import importlib.machinery
import importlib.util
import io
import os
import shutil
import sys
import tempfile

from .common import REPO

TESTS = os.path.join(REPO, 'vermouth', 'tests', 'data', 'integration_tests')
PEPTIDES = {'P': 'tier-0/dipro-termini', 'S': 'tier-0/mini-protein1_betasheet', 'H': 'tier-0/mini-protein2_helix',
            'W': 'tier-0/mini-protein3_trp-cage', 'U': 'tier-1/1UBQ'}


def multichain_pdb(chains, spacing=60.0):
    """chains: string over PEPTIDES keys, e.g. 'PSP' = dipro, beta-sheet, dipro (identical chains interleaved with a
    different one).  Chain i is translated by i*spacing Angstrom along x so that no inter-chain bond can be guessed."""
    out = ['CRYST1  500.000  500.000  500.000  90.00  90.00  90.00 P 1           1']
    serial = 1
    labels = 'ABCDEFGHIJ'
    if '/' in chains:           # 'SPSP/ADCB': the chains carry these labels, in file order
        chains, labels = chains.split('/')
    for ci, code in enumerate(chains):
        # a lower-case code is the same peptide in a DIFFERENT conformation (stretched by 8% along z): same sequence and
        # topology up to the point where geometry enters (elastic network, geometry-derived link parameters)
        stretch = 1.08 if code.islower() else 1.0
        path = os.path.join(TESTS, PEPTIDES[code.upper()], 'aa.pdb')
        chain_id = labels[ci]
        for line in open(path).read().splitlines():
            if not line.startswith('ATOM'):
                continue
            line = line.ljust(80)
            x = float(line[30:38]) + ci * spacing
            line = '%s%5d%s%s%s%8.3f%s%8.3f%s' % (line[:6], serial, line[11:21], chain_id, line[22:30], x, line[38:46],
                                                 float(line[46:54]) * stretch, line[54:])
            out.append(line.rstrip())
            serial += 1
        out.append('TER')
        serial += 1
    out.append('END')
    return '\n'.join(out) + '\n'


def load_cli():
    path = os.path.join(REPO, 'bin', 'martinize2')
    loader = importlib.machinery.SourceFileLoader('martinize2_cli_verif_c03', path)
    spec = importlib.util.spec_from_loader(loader.name, loader)
    mod = importlib.util.module_from_spec(spec)
    loader.exec_module(mod)
    return mod


def run_cli(chains, options, on_system):
    """Run `martinize2 -f in.pdb -x cg.pdb -o topol.top <options>` in a scratch directory.
    on_system(system) is called with the live System just BEFORE the real write_gmx_topology runs (the objects are
    the ones both writers see); its return value is passed through.
    Returns {'rc', 'files': {name: text}, 'captured', 'argv', 'log'}."""
    root = tempfile.mkdtemp(prefix='c03cli_')
    cwd = os.getcwd()
    argv0 = list(sys.argv)
    captured = {}
    log = io.StringIO()
    try:
        os.chdir(root)
        with open('in.pdb', 'w') as fh:
            fh.write(multichain_pdb(chains))
        with contextlib.redirect_stderr(log), contextlib.redirect_stdout(log):
            cli = load_cli()       # the CLI module binds its log handler to sys.stderr when it is loaded
        real_write = cli.write_gmx_topology

        def interposed(system, *args, **kwargs):
            captured['value'] = on_system(system)
            return real_write(system, *args, **kwargs)

        cli.write_gmx_topology = interposed
        argv = ['-f', 'in.pdb', '-x', 'cg.pdb', '-o', 'topol.top'] + list(options)
        sys.argv = ['martinize2'] + argv
        rc = 0
        with contextlib.redirect_stderr(log), contextlib.redirect_stdout(log):
            try:
                cli.entry()
            except SystemExit as exc:
                rc = exc.code if isinstance(exc.code, int) else (0 if exc.code is None else 1)
            except Exception as exc:      # a failing pipeline stage is reported by the caller as a machinery problem
                rc = 'exception %r' % (exc,)
        files = {}
        for name in sorted(os.listdir(root)):
            if name == 'in.pdb' or os.path.isdir(name):
                continue
            with open(name, errors='replace') as fh:
                files[name] = fh.read()
        return {'rc': rc, 'files': files, 'captured': captured.get('value'), 'argv': ' '.join(argv),
                'chains': chains, 'log': log.getvalue()[-2000:]}
    finally:
        sys.argv = argv0
        os.chdir(cwd)
        shutil.rmtree(root, ignore_errors=True)
