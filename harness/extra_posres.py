#!/usr/bin/env python3
"""Beyond the 19 listed properties: position restraints (spec/Posres.tla).

  1. TLC model-checks Posres.tla (the walk over the particles against the declarative description, all molecules of up to
     MaxAtoms particles over three names, the three modes).
  2. The real command line `martinize2 -p <mode> [-pf k] ...` is run (bin/martinize2 entry() in this process, scratch directory)
     over peptides x modes x force constants x (-merge all | -go | -sep); every molecule-type file written is parsed by the
     independent reader and judged by TLC with Posres!JudgeItp (spec/Trace_Posres.tla).
  3. --selftest: corrupted copies of one recorded file must get the named verdicts.

This is NOT one of the registered checks: it reports `OBSERVATION extra=posres ...` lines (never VIOLATION lines) and exits
1 when something differs from the model, 2 on machinery failure.  Usage (from /verif):
    /venv/bin/python harness/extra_posres.py [--selftest]
Output: /verif/evidence/extra_posres.txt is NOT written; a summary is printed.  Scratch directories are removed."""
import json
import os
import shutil
import sys

HERE = os.path.dirname(os.path.abspath(__file__))
sys.path.insert(0, os.path.dirname(HERE))
REPO = os.environ.get('VERIF_REPO', '/repo')
sys.path.insert(0, REPO)
from harness import tlc, cli_c03, indep_readers      # noqa: E402

MODEL_CFG = ('SPECIFICATION Spec\nINVARIANT TypeOK\nINVARIANT PrefixOK\nINVARIANT EndOK\nINVARIANT OnePerAtom\n'
             'INVARIANT OnlySelected\nINVARIANT NoneIsSilent\nINVARIANT DefineLast\n')
CONSTS = {'MaxAtoms': '5', 'Names': '{"BB", "SC1", "CA"}'}


def model_check():
    res = tlc.run('Posres', MODEL_CFG, consts=CONSTS, timeout=600)
    return res.distinct, res.generated


def plan():
    jobs = []
    for chains in ('P', 'S', 'PS', 'PP'):
        for mode, pf in (('none', None), ('all', None), ('backbone', None), ('backbone', '250.5'), ('all', '40')):
            extras = [[]]
            if len(chains) > 1:
                extras += [['-merge', 'all'], ['-sep']]
            if mode == 'backbone' and chains in ('S', 'PS'):
                nres = {'P': 2, 'S': 29}
                extras.append(['-go', '-ss', 'C' * sum(nres[c] for c in chains)])
            for extra in extras:
                opts = ['-ff', 'martini3001', '-maxwarn', '100'] + (['-p', mode] if mode != 'none' else []) + \
                       (['-pf', pf] if pf else []) + extra
                jobs.append({'chains': chains, 'mode': mode, 'pf': float(pf) if pf else 1000.0, 'opts': opts, 'go': '-go' in extra})
    return jobs


def _nothing(_system):
    return None


def _one(job):
    r = cli_c03.run_cli(job['chains'], job['opts'], _nothing)
    return {k: r[k] for k in ('rc', 'files', 'argv', 'log')}


def events_of(job, result):
    out = []
    for name, text in sorted(result['files'].items()):
        if not name.endswith('.itp') or name.startswith(('go_', 'virtual_sites', 'martini')):
            continue
        itp = indep_readers.read_itp(text)
        if itp['moltype'] is None:
            continue
        names, section, nsec, cur = [], [], 0, None
        for r in itp['records']:
            if r['k'] == 'section':
                cur = r['s']
                nsec += cur == 'position_restraints'
                continue
            if r['k'] == 'atom' and cur == 'atoms':
                names.append(r['p'][3])
            elif cur == 'position_restraints' and r['k'] != 'comment':
                section.append({'k': r['k'], 's': r['s'], 'a': r['a'], 'p': [str(x) for x in r['p']]})
        prologue = [{'k': r['k'], 's': r['s'], 'a': [], 'p': [str(x) for x in r['p']]} for r in indep_readers.read_itp_prologue(text)]
        values = [r['p'] for r in prologue if r['k'] == 'define' and r['s'] == 'POSRES_FC']
        try:
            fcok = bool(values) and all(len(v) == 1 and float(v[0]) == job['pf'] for v in values)
        except ValueError:
            fcok = False
        # particles added AFTER the stage ran: the virtual sites of the Go model (named CA; no Martini 3 particle is)
        eligible = [not (job['go'] and n == 'CA') for n in names]
        out.append({'mode': job['mode'], 'names': names, 'eligible': eligible, 'section': section, 'sections': nsec,
                    'prologue': prologue, 'fcok': fcok, 'file': name, 'argv': result['argv'], 'chains': job['chains']})
    return out


def judge(events):
    work = tlc.scratch('posres_')
    try:
        tf = tlc.write_json(work, 'trace.json', [{k: e[k] for k in ('mode', 'names', 'eligible', 'section', 'sections', 'prologue', 'fcok')}
                                                 for e in events])
        res = tlc.run('Trace_Posres', 'SPECIFICATION TSpec\n', consts=CONSTS, dump=True, env={'TRACE_FILE': tf}, workdir=work,
                      workers=1, timeout=900)
        got = {st['tid']: st['verdict'] for st in res.states() if st['verdict'] != 'pending'}
        return [got.get(i, 'no-verdict') for i in range(1, len(events) + 1)]
    finally:
        shutil.rmtree(work, ignore_errors=True)


def selftest(events):
    import copy
    base = next(e for e in events if e['mode'] == 'backbone' and len(e['section']) >= 4 and not any(not x for x in e['eligible']))
    tests = [('untouched', copy.deepcopy(base), 'ok')]
    t = copy.deepcopy(base); del t['section'][1]
    tests.append(('first restraint dropped', t, 'selected-particle-not-restrained'))
    t = copy.deepcopy(base); t['section'].insert(2, copy.deepcopy(t['section'][1]))
    tests.append(('restraint twice', t, 'particle-restrained-twice'))
    t = copy.deepcopy(base); t['section'][1], t['section'][2] = t['section'][2], t['section'][1]
    tests.append(('order swapped', t, 'restraints-out-of-order'))
    t = copy.deepcopy(base); t['section'] = t['section'][1:-1]
    tests.append(('guard removed', t, 'restraints-not-guarded-by-ifdef-POSRES'))
    t = copy.deepcopy(base); t['section'][1]['p'][1] = '1000'
    tests.append(('number instead of the macro', t, 'restraint-malformed'))
    t = copy.deepcopy(base); t['mode'] = 'all'
    tests.append(('judged as -p all', t, 'selected-particle-not-restrained'))
    t = copy.deepcopy(base); t['mode'] = 'none'
    tests.append(('judged as no option', t, 'restraints-without-the-option'))
    t = copy.deepcopy(base); t['prologue'] = [r for r in t['prologue'] if r['k'] != 'ifndef']
    tests.append(('macro unguarded', t, 'macro-not-guarded-by-ifndef'))
    t = copy.deepcopy(base); t['fcok'] = False
    tests.append(('other force constant', t, 'macro-is-not-the-force-constant-asked-for'))
    t = copy.deepcopy(base)
    k = next(i for i, n in enumerate(t['names']) if n != 'BB') + 1
    t['section'].insert(1, {'k': 'inter', 's': '', 'a': [k], 'p': t['section'][1]['p']})
    tests.append(('side chain restrained under -p backbone', t, 'unselected-particle-restrained'))
    got = judge([x for _n, x, _w in tests])
    bad = 0
    for (name, _x, want), g in zip(tests, got):
        print('selftest posres: %-45s -> %s%s' % (name, g, '' if g == want else '   (WANTED %s)' % want))
        bad += g != want
    return bad


def main():
    try:
        distinct, generated = model_check()
        print('Posres.tla: %d distinct states, invariants hold (MaxAtoms=%s, 3 names, 3 modes)' % (distinct, CONSTS['MaxAtoms']))
        events, failed = [], []
        jobs = plan()
        import multiprocessing
        with multiprocessing.get_context('fork').Pool(min(12, os.cpu_count() or 2)) as pool:
            results = pool.map(_one, jobs, chunksize=1)
        for job, r in zip(jobs, results):
            if r['rc'] != 0:
                failed.append('%s on %s: rc=%r %s' % (r['argv'], job['chains'], r['rc'], r['log'][-300:]))
                continue
            events += events_of(job, r)
        if failed:
            print('MACHINERY-FAILURE extra=posres %d commands failed: %s' % (len(failed), failed[0]))
            return 2
        if '--selftest' in sys.argv:
            return 1 if selftest(events) else 0
        verdicts = judge(events)
        counts, bad, known = {}, 0, 0
        for e, v in zip(events, verdicts):
            counts[v] = counts.get(v, 0) + 1
            if v == 'macro-missing' and '-merge' in e['argv'].split():
                # KNOWN: MergeChains builds a fresh molecule and (as its docstring says) does not keep the meta of the molecules
                # it merges, so `-p ... -merge` writes restraints that use POSRES_FC without ever defining it (DESIGN 9.4)
                known += 1
                continue
            if v != 'ok':
                bad += 1
                print('OBSERVATION extra=posres %s: %s (%s on %s)' % (e['file'], v, e['argv'], e['chains']))
        restrained = sum(1 for e in events if e['sections'])
        if known:
            print('KNOWN-OBSERVATION extra=posres %d merged molecule types use POSRES_FC without defining it (-p with -merge)' % known)
        print('posres: %d commands, %d molecule types judged (%d with restraints, %d with particles added later), verdicts %s'
              % (len(jobs), len(events), restrained, sum(1 for e in events if not all(e['eligible'])), json.dumps(counts, sort_keys=True)))
        if 'no-verdict' in counts:
            return 2
        return 1 if bad else 0
    except tlc.MachineryError as exc:
        print('MACHINERY-FAILURE extra=posres %s' % str(exc)[-600:])
        return 2


if __name__ == '__main__':
    sys.exit(main())
