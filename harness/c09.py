"""C09 - a particle sits at the weighted mean of the atoms it represents.

spec/Mapping.tla (Mean) / spec/Trace_Mapping.tla (JudgeAvg): the exact weighted mean over the POSITIONED constituents in
integer arithmetic (coordinates in pm, integer weights, integer centre weights); NaN iff the denominator is zero.

code -> spec: (a) hand-built particles - 1-4 constituents, weights 0..3, centre weight none / mass in {0, 1, 12, 16}, missing
coordinates, atoms shared between two particles - through the real DoAverageBead (force-field variable center_weight);
(b) the particles of real DoMapping runs of the C01 universe (real `graph` subgraphs and `mapping_weights`), with and without
mass weighting; (c) rigid-motion twins (the 24 lattice rotations + integer translations) judged against the same formula.
The harness converts the float position to round(position * denominator) and rejects any rounding error above 1e-6.

EXTENSION (harness/c09_real.py, spec/MeanWide.tla, spec/BeadTrace.tla): the REAL command line.  bin/martinize2 entry() runs in
a forked child on tier-0 / tier-1 structures towards martini3001, martini22, martini22p (charge dummies), elnedyn22 (backbone
particle on CA through null weights), martini30b32 (no centre weight) with inputs that lack atoms / hydrogens, -write-graph /
-write-repair / -write-canon, -mutate, several chains, -go, -water-bias, a phosphotyrosine; the live system is recorded right
after DoAverageBead and the coordinates written to cg.pdb are read back.  TLC judges every particle with the exact mean in wide
integers (WMean; the synthetic family goes through Mean AND WMean, which must agree), the bounding box, the written coordinate
(stored one rounded, 0.5e-3 A), virtual sites (on their backbone particle), rigidly moved twins of whole runs (lattice rotation
+ translation: the exact mean moves exactly, the stored positions within 2e-6 A) and ONE DoAverageBead object over the real
systems of force fields with and without a centre weight.  Workers run AND judge their share and return summaries."""
import itertools
import os
import json
import shutil
import multiprocessing as mp
import random

from . import common, tlc
from . import c01
from . import c09_real

PID = 'C09'

ROTS = []
for perm in itertools.permutations(range(3)):
    for signs in itertools.product([1, -1], repeat=3):
        # proper rotations only: determinant +1
        sgn = 1
        p = list(perm)
        for i in range(3):
            for j in range(i + 1, 3):
                if p[i] > p[j]:
                    sgn = -sgn
        if sgn * signs[0] * signs[1] * signs[2] == 1:
            ROTS.append((perm, signs))


def synthetic_events(n, seed):
    import numpy as np
    from vermouth.molecule import Molecule
    from vermouth.forcefield import ForceField
    from vermouth.processors.average_beads import DoAverageBead
    rng = random.Random(seed)
    events = []
    # every other chunk runs all its molecules (force fields with and without a centre weight, in random order) through ONE
    # processor object: what the first force field configured must not stick to the processor
    shared = DoAverageBead() if seed % 2 == 0 else None
    for _ in range(n):
        ff = ForceField(name='verif_c09')
        use_mass = rng.random() < 0.5
        if use_mass:
            ff.variables['center_weight'] = 'mass'
        aa = Molecule(force_field=ff)
        natoms = rng.randint(1, 5)
        atoms = {}
        for a in range(natoms):
            key = a * rng.choice([1, 3]) + rng.choice([0, 10])
            while key in atoms:
                key += 1
            pos = [rng.choice([-100, 0, 50, 200, 333]) for _ in range(3)] if rng.random() < 0.8 else None
            atoms[key] = {'pos': pos, 'mass': rng.choice([0, 1, 12, 16])}
            attrs = {'atomname': 'A%d' % a, 'mass': atoms[key]['mass']}
            if pos is not None:
                attrs['position'] = np.array(pos, dtype=float) / 1000.0
            elif rng.random() < 0.5:
                attrs['position'] = None
            aa.add_node(key, **attrs)
        if rng.random() < 0.5 and all(d.get('position', 0) is not None for _, d in aa.nodes(data=True)):
            # (an atom whose position is None, rather than absent, cannot be written at all)
            # history: the atomistic structure was written out first, as -write-repair / -write-canon do (atoms without
            # coordinates are written as NaN); writing must leave the structure as it was
            from vermouth.system import System
            from vermouth.pdb.pdb import write_pdb_string
            written = System()
            written.add_molecule(aa)
            write_pdb_string(written, conect=False, nan_missing_pos=True)
        rot = rng.choice(ROTS)
        shift = [rng.choice([0, 100, -250]) for _ in range(3)]
        cg = Molecule(force_field=ff)
        nparts = rng.randint(1, 2)
        parts = []
        for p in range(nparts):
            members = rng.sample(sorted(atoms), rng.randint(1, len(atoms)))
            weights = {m: rng.choice([0, 0, 1, 1, 2, 3]) for m in members}
            if rng.random() < 0.2:
                weights.pop(rng.choice(members))          # an atom without explicit weight counts with weight 1
            cg.add_node(p, atomname='P%d' % p, graph=aa.subgraph(members), mapping_weights=dict(weights))
            parts.append((members, weights))
        for twin in (False, True):
            if twin:      # rigid motion of the input: rotate + translate every atom
                for key, a in atoms.items():
                    if a['pos'] is not None:
                        q = [rot[1][i] * a['pos'][rot[0][i]] + shift[i] for i in range(3)]
                        a['pos'] = q
                        for node in cg.nodes.values():
                            if key in node['graph']:
                                node['graph'].nodes[key]['position'] = np.array(q, dtype=float) / 1000.0
            (shared or DoAverageBead()).run_molecule(cg)
            for p, (members, weights) in enumerate(parts):
                cons = []
                for m in cg.nodes[p]['graph'].nodes:
                    a = atoms[m]
                    cons.append({'w': weights.get(m, 1), 'cw': a['mass'] if use_mass else 1, 'has': a['pos'] is not None,
                                 'x': a['pos'][0] if a['pos'] else 0, 'y': a['pos'][1] if a['pos'] else 0, 'z': a['pos'][2] if a['pos'] else 0})
                den = sum(c['w'] * c['cw'] for c in cons if c['has'])
                pos = cg.nodes[p].get('position')
                isnan = pos is None or bool(np.any(np.isnan(pos)))
                e = {'kind': 'avg', 'cons': cons, 'isnan': isnan, 'px': 0, 'py': 0, 'pz': 0, 'inexact': False, 'twin': twin,
                     'center_weight': 'mass' if use_mass else 'none'}
                if not isnan:
                    vals = [float(v) * 1000.0 * den for v in pos]
                    e['px'], e['py'], e['pz'] = [int(round(v)) for v in vals]
                    e['inexact'] = any(abs(v - round(v)) > 1e-6 * max(1.0, abs(v)) for v in vals)
                events.append(e)
    return events


def _syn(args):
    try:
        return synthetic_events(*args)
    except Exception as exc:      # noqa
        return [{'kind': 'avg', 'cons': [], 'isnan': True, 'px': 0, 'py': 0, 'pz': 0, 'inexact': False,
                 'err': 'DoAverageBead raised %r' % (exc,)}]


def _judge(shard):
    work = tlc.scratch('c09_')
    slim = [{k: e[k] for k in ('kind', 'cons', 'isnan', 'px', 'py', 'pz')} for e in shard]
    tf = tlc.write_json(work, 'trace.json', slim)
    res = tlc.run('Trace_Mapping', 'SPECIFICATION Spec\n', dump=True, env={'TRACE_FILE': tf}, workdir=work, workers=1, timeout=3400)
    return res.distinct, res.generated, {st['tid']: st['verdict'] for st in res.states() if st['verdict'] != 'pending'}


def run(tier, seed, ev, vd):
    ev.rule = ('hand-built particles (1-5 atoms, 1-2 particles sharing atoms, weights 0..3, centre weight none or mass in {0,1,12,16}, '
               'missing coordinates, each with a rotated+translated twin) and the particles of real DoMapping runs. Non-trivial = '
               'at least two positioned constituents; distinct by the constituent list.')
    ev.assumptions = ['coordinates are multiples of 1 pm, weights and centre weights are integers, so the mean is an exact rational',
                      'float rounding itself is only bounded by the 1e-6 relative tolerance of the harness',
                      'negative weights are not generated (the statement speaks of non-negative weights)']
    quick = tier == 'quick'
    ev.rule += (' REAL: every particle of real martinize2 runs (plan in harness/c09_real.plan: the required cases do not depend on '
                'VERIF_SEED), pairs of runs on rigidly moved inputs, histories of one DoAverageBead object over two force fields.')
    ev.assumptions += [
        'real data: atom coordinates are multiples of 0.001 A (PDB input), mapping weights rationals with denominator <= 5040, '
        'centre weights rationals with denominator <= 1000 (1e-9); the stored position may differ by 1e-6 A from the exact mean, '
        'the written coordinate by 0.5e-3 A (+1e-6 A) from the stored one',
        'NAMED EXCLUSION BeadTrace!ChargeDummyMoved: a charge dummy is judged by the mean rule right after DoAverageBead, but its '
        'WRITTEN coordinate is not compared (LocateChargeDummies places it at random around its anchor afterwards; the statement '
        'does not say where a dummy goes)',
        'virtual sites (-go, -water-bias) have no constituents: rule BeadTrace!SiteOk (exactly on the backbone particle of their '
        'residue, which the harness identifies by chain, residue number and the name BB)',
        'an atom whose position is NaN counts as an atom without coordinates',
        'the shipped force fields and mappings are parsed once by the functions entry() calls and handed to the forked runs '
        '(c11_stages.preload); inputs beyond +-1900 A are not generated',
        'every planned command succeeds on the current tree: a run that fails is reported as a violation (command-failed), a run '
        'that does not finish in time as a machinery error']
    real_cases = c09_real.plan(tier, seed)
    procs, queue = c09_real.start_workers(real_cases, tlc.NCPU)
    try:
        if os.environ.get('C09_ONLY') != 'real':          # debugging / mutation testing: the real-data families alone
            _run_synthetic(tier, seed, ev, vd)
        summaries = c09_real.collect_workers(procs, queue, 600 if quick else 3000)
    finally:
        for p in procs:
            if p.is_alive():
                p.kill()
    _merge_real(summaries, real_cases, ev, vd)


def _judge_bridge(events):
    d, g, verdicts = c09_real.judge([dict(e, kind='avg') for e in events])
    return d, g, verdicts


def _merge_real(summaries, cases, ev, vd):
    fam = {k: 0 for k in c09_real.FAMILIES}
    verdicts, unsupported, machinery, history, per_case = {}, [], [], [], []
    for s in summaries:
        for k, v in s['fam'].items():
            fam[k] += v
        for k, v in s['verdicts'].items():
            verdicts[k] = verdicts.get(k, 0) + v
        unsupported += s['unsupported']
        machinery += s['machinery']
        history += s['history']
        per_case += s['cases']
        ev.states += s['states']
        ev.transitions += s['transitions']
        ev.traces += s['events']
        ev.evaluations += s['events']
        for c in s['nontrivial']:
            ev.nontrivial_case(c)
        for smp in s['samples'][:1]:
            ev.sample({'kind': 'particle of a real martinize2 run judged by TLC (BeadTrace)', 'event': smp})
        for kind, scenario, detail in s['violations']:
            vd.violation(kind, scenario, detail)
    ev.extra['real_events_by_family'] = fam
    ev.extra['real_verdicts'] = verdicts
    ev.extra['real_cases'] = sorted(per_case)
    ev.extra['real_worker_wall'] = sorted([round(s.get('wall', 0), 1), s.get('case_wall')] for s in summaries)
    ev.extra['real_unsupported'] = unsupported[:20]
    ev.extra['real_history_systems'] = history[:6]
    ev.tlc_runs.append({'run': 'TRACE BeadTrace (real runs, %d JVMs)' % len(summaries), 'events': sum(s['events'] for s in summaries)})
    if machinery:
        raise tlc.MachineryError('C09 real data: %s' % '; '.join(machinery[:5]))
    if unsupported:
        raise tlc.MachineryError('C09 real data: inputs the model cannot express: %s' % '; '.join(unsupported[:5]))
    if vd.count() == 0:
        missing = [k for k, v in fam.items() if v == 0]
        if missing:
            raise tlc.MachineryError('vacuous: no real particle in the families %s' % missing)
        if len(per_case) != len(cases) or any(n == 0 for _c, n in per_case):
            raise tlc.MachineryError('vacuous: a planned case gave no particle: %s' % [c for c, n in per_case if n == 0])
        hist = [h for h in history if len({x['center_weight'] for x in h}) == 2 and all(x['n'] > 0 for x in h)]
        if not hist:
            raise tlc.MachineryError('vacuous: no history over force fields with and without a centre weight')


def _run_synthetic(tier, seed, ev, vd):
    quick = tier == 'quick'
    n_syn = 1600 if quick else 40000
    n_map = 160 if quick else 4000
    with mp.Pool(tlc.NCPU) as pool:
        syn = pool.map(_syn, [(n_syn // tlc.NCPU, seed * 31 + i) for i in range(tlc.NCPU)])
        mapped = pool.map(c01._run_chunk, [(n_map // tlc.NCPU, seed * 37 + i, True) for i in range(tlc.NCPU)])
    events = [e for p in syn for e in p] + [e for p in mapped for e in p if e['kind'] == 'avg']
    shards = common.chunks(events, tlc.NCPU)
    bridge = [e for p in syn for e in p if not e.get('err')][:600 if quick else 6000]
    with mp.Pool(len(shards) + 1) as pool:
        pending = pool.apply_async(_judge_bridge, (bridge,))
        outs = pool.map(_judge, shards)
        bd, bg, bverdicts = pending.get()
    ev.states += bd
    ev.transitions += bg
    ev.extra['bridge_mean_wide_vs_narrow'] = {'events': len(bridge), 'agree': sum(1 for v in bverdicts if v != 'wide-and-narrow-mean-disagree' and v != 'no-verdict')}
    if any(v in ('wide-and-narrow-mean-disagree', 'no-verdict') for v in bverdicts) or len(bridge) < 100:
        raise tlc.MachineryError('the wide mean (MeanWide!WMean) and Mapping!Mean disagree on hand-built particles, or too few were compared')
    fam = {'nan': 0, 'zero-weight-present': 0, 'missing-position': 0, 'mass-weighted': 0, 'zero-mass': 0}
    for shard, (d, g, verdicts) in zip(shards, outs):
        ev.states += d
        ev.transitions += g
        for i, e in enumerate(shard, 1):
            ev.traces += 1
            ev.evaluations += 1
            v = verdicts.get(i, 'no-verdict')
            if e.get('err'):
                v = e['err']
            elif e.get('inexact') and v == 'ok':
                v = 'position is not the exact weighted mean (beyond 1e-6 relative)'
            fam['nan'] += e['isnan']
            fam['zero-weight-present'] += any(c['w'] == 0 for c in e['cons'])
            fam['missing-position'] += any(not c['has'] for c in e['cons'])
            fam['mass-weighted'] += any(c['cw'] not in (1,) for c in e['cons'])
            fam['zero-mass'] += any(c['cw'] == 0 for c in e['cons'])
            if sum(1 for c in e['cons'] if c['has']) >= 2:
                ev.nontrivial_case(e['cons'])
            if v != 'ok':
                vd.violation('trace-rejected', e, 'average: %s' % v)
    ev.extra['events_by_family'] = fam
    if min(fam.values()) == 0:
        raise tlc.MachineryError('vacuous: a family of particles was never generated: %s' % fam)
    ev.tlc_runs.append({'run': 'TRACE Trace_Mapping (avg)', 'events': len(events)})
    ev.sample({'kind': 'recorded particle judged by TLC', 'event': next(e for e in events if len(e['cons']) >= 3 and not e['isnan'])})


def replay(sc):
    """Re-run the case of a recorded violation and print every verdict that is not ok."""
    print(json.dumps(common.jsonable(sc))[:3000])
    case = sc.get('case') if isinstance(sc, dict) else None
    if not isinstance(case, dict) or 'input' not in case:
        return 0
    from . import c11_stages
    c11_stages.preload()
    events, notes = c09_real.run_case(case, tlc.scratch('c09rp_'))
    for f in notes['failed']:
        print('command failed:', f['run'], f['what'])
    _d, _g, verdicts = c09_real.judge(events)
    bad = [(e.get('label'), e['scenario']['run'], v) for e, v in zip(events, verdicts) if v != 'ok']
    for b in bad[:40]:
        print('rejected:', b)
    print('%d events, %d rejected' % (len(events), len(bad)))
    return 1 if bad or notes['failed'] else 0


def selftest(seed):
    events = [e for e in synthetic_events(40, seed) if not e['isnan'] and len(e['cons']) >= 2][:3]
    import copy
    bad = copy.deepcopy(events[1])
    bad['px'] += 1
    bad2 = copy.deepcopy(events[2])
    bad2['isnan'] = True
    outs = _judge([events[0], bad, bad2])[2]
    assert outs[1] == 'ok' and outs[2] != 'ok' and outs[3] != 'ok', outs
    print('selftest C09: tampered particles rejected:', outs[2], '/', outs[3])
    # ---- real data: particles of real martinize2 runs, tampered field by field
    from . import c11_stages
    c11_stages.preload()
    cases = {c['id']: c for c in c09_real.plan('quick', seed)}
    work = tlc.scratch('c09st_')
    ev = []
    for cid in ('el22-dipro-drop', 'm3-go', 'm22p-sheet-noh'):
        got, notes = c09_real.run_case(cases[cid], work)
        assert got and not notes['failed'] and not notes['harness'], (cid, notes)
        ev += got
    beads = [e for e in ev if e['kind'] == 'bead' and e['role'] == 'mapped']

    def pick(pred, what):
        for e in beads:
            if pred(e):
                return copy.deepcopy(e)
        raise tlc.MachineryError('selftest C09: no real particle with ' + what)
    positioned = lambda e: sum(1 for c in e['cons'] if c['has'] and c['w'] > 0)      # noqa
    tests = []
    e = pick(lambda e: not e['isnan'] and positioned(e) >= 2 and not e['dummy'], 'two weighted constituents')
    tests.append(('untouched', copy.deepcopy(e), 'ok'))
    t = copy.deepcopy(e); t['pf'][0] += 3
    tests.append(('stored position moved by 3e-6 A', t, 'not-the-weighted-mean'))
    t = copy.deepcopy(e); t['wr'][1] += 1
    tests.append(('written coordinate off by 0.001 A', t, 'written-coordinate-is-not-the-stored-one-rounded'))
    t = copy.deepcopy(e); t['isnan'] = True
    tests.append(('position reported undefined', t, 'position-undefined-although-weights-do-not-sum-to-zero'))
    t = copy.deepcopy(e); t['haswr'] = False
    tests.append(('particle not in cg.pdb', t, 'particle-missing-from-the-written-structure'))
    e = pick(lambda e: not e['isnan'] and any(c['has'] and c['hasw'] and c['w'] == 0 for c in e['cons']) and positioned(e) >= 1,
             'a null-weight constituent')
    t = copy.deepcopy(e)
    for c in t['cons']:
        if c['w'] == 0:
            c['w'] = 1
    tests.append(('null weights counted as 1', t, 'not-the-weighted-mean'))
    e = pick(lambda e: not e['isnan'] and any(not c['has'] and c['w'] > 0 for c in e['cons']), 'an unpositioned constituent')
    t = copy.deepcopy(e)
    for c in t['cons']:
        c['has'] = True
    tests.append(('atoms without coordinates counted at the origin', t, 'not-the-weighted-mean'))
    e = pick(lambda e: not e['isnan'] and e['cwon'] and len({c['cw'] for c in e['cons'] if c['has'] and c['w'] > 0}) > 1, 'unequal masses')
    t = copy.deepcopy(e); t['cwon'] = False
    tests.append(('centre weight ignored', t, 'not-the-weighted-mean'))
    e = pick(lambda e: e['isnan'] and not e['dummy'] or (e['isnan'] and e['dummy']), 'an undefined position')
    t = copy.deepcopy(e); t['isnan'] = False
    tests.append(('undefined position reported as the origin', t, 'position-defined-although-weights-sum-to-zero'))
    e = pick(lambda e: e['dummy'] and e['haswr'] and not e['wrnan'], 'a charge dummy')
    tests.append(('charge dummy: written coordinate exempt (named rule)', copy.deepcopy(e), 'ok'))
    t = copy.deepcopy(e); t['dummy'] = False
    tests.append(('the same particle without the exemption', t, 'written-coordinate-defined-for-an-undefined-position'))
    site = copy.deepcopy(next(x for x in ev if x['kind'] == 'bead' and x['role'] == 'site'))
    tests.append(('virtual site untouched', copy.deepcopy(site), 'ok'))
    site['pf'][2] += 1
    tests.append(('virtual site 1e-6 A off its backbone particle', site, 'virtual-site-not-on-its-backbone-particle'))
    pair = copy.deepcopy(next(x for x in ev if x['kind'] == 'pair' and not x['a']['isnan']))
    tests.append(('pair untouched', copy.deepcopy(pair), 'ok'))
    t = copy.deepcopy(pair); t['b']['pf'][0] += 4
    tests.append(('moved run: particle 4e-6 A off', t, 'position-does-not-follow-the-rigid-motion'))
    t = copy.deepcopy(pair); t['m'] = dict(t['m'], sh=[t['m']['sh'][0] + 1] + t['m']['sh'][1:])
    tests.append(('pair judged under another motion', t, 'atoms-averaged-are-not-the-moved-input-and-the-particle-does-not-follow-the-motion'))
    t = copy.deepcopy(pair)
    for c in t['b']['cons']:
        c['p'] = [c['p'][0] + 1000] + c['p'][1:]
    tests.append(('moved run: other atoms averaged, particle in place', t, 'unjudged:constituents-are-not-the-moved-ones'))
    _d, _g, verdicts = c09_real.judge([t for _n, t, _w in tests])
    for (name, _t, want), got in zip(tests, verdicts):
        assert got == want, ('selftest C09 real', name, want, got)
        print('selftest C09 real: %-55s -> %s' % (name, got))
    shutil.rmtree(work, ignore_errors=True)
    return 0
