"""Concrete text for the abstract chunks of spec/FFFile.tla, rendered from abstract object descriptions.
The expected content of a loaded object IS the description it was rendered from (atoms, attributes, interactions in
order, removal markers, edges, non-edges, patterns, features, molecule-level conditions); the one non-trivial rule -
how #meta lines and per-line metadata combine - is judged by TLC (Trace_FF.JudgeMeta)."""
import json


def jmeta(d):
    return json.dumps(d, sort_keys=True)


def render_inter_lines(lines):
    out = []
    for ln in lines:
        if ln[0] == 'meta':
            out.append('#meta ' + jmeta(ln[1]))
        else:
            _, refs, params, meta = ln
            toks = []
            for r in refs:
                if isinstance(r, tuple):
                    toks.append(r[0] + ' ' + jmeta(r[1]))
                else:
                    toks.append(str(r))
            txt = ' '.join(toks) + ' ' + ' '.join(params)
            if meta is not None:
                txt += ' ' + jmeta(meta)
            out.append(txt)
    return out


def render(desc):
    k = desc['k']
    L = []
    if k == 'macros':
        L.append('[ macros ]')
        for n, v in desc['macros']:
            L.append('%s %s' % (n, v))
    elif k == 'variables':
        L.append('[ variables ]')
        for n, v in desc['variables']:
            L.append('%s %s' % (n, v))
    elif k == 'citations':
        L.append('[ citations ]')
        L.append(' '.join(desc['cites']))
    elif k == 'block':
        L += ['[ moleculetype ]', '; a comment line', '%s %d' % (desc['name'], desc['nrexcl']), '[ atoms ]']
        for i, a in enumerate(desc['atoms'], 1):
            t = '%d %s %d %s %s %d' % (i, a['atype'], a['resid'], a['resname'], a['name'], a['cg'])
            if 'charge' in a:
                t += ' ' + a['charge_txt']
            if 'mass' in a:
                t += ' ' + a['mass_txt']
            if a.get('attrs'):
                t += ' ' + jmeta(a['attrs'])
            L.append(t)
        for sec, lines in desc['sections']:
            L.append('[ %s ]' % sec)
            L += render_inter_lines(lines)
        if desc.get('edges'):
            L.append('[ edges ]')
            L += ['%s %s' % e for e in desc['edges']]
    elif k in ('link', 'mod'):
        if k == 'link':
            L.append('[ link ]')
            for key, val in desc.get('attrs', []):
                L.append('%s %s' % (key, val))
        else:
            L += ['[ modification ]', desc['name']]
        if desc.get('molmeta'):
            L.append('[ molmeta ]')
            for key, val in desc['molmeta']:
                L.append('%s %s' % (key, val))
        if desc.get('atoms') and not desc.get('late_atoms'):
            L.append('[ atoms ]')
            for key, attrs in desc['atoms']:
                L.append('%s %s' % (key, jmeta(attrs)))
        for sec, lines in desc['sections']:
            L.append('[ %s ]' % sec)
            L += render_inter_lines(lines)
        if desc.get('atoms') and desc.get('late_atoms'):
            # subsections may come in any order and any number: the atoms are declared after the interactions that already
            # mention them, one [ atoms ] section per attribute
            for key, attrs in desc['atoms']:
                for ak, av in attrs.items():
                    L.append('[ atoms ]')
                    L.append('%s %s' % (key, jmeta({ak: av})))
        if desc.get('edges'):
            L.append('[ edges ]')
            L += ['%s %s' % e for e in desc['edges']]
        if desc.get('non_edges'):
            L.append('[ non-edges ]')
            L += ['%s %s' % e for e in desc['non_edges']]
        if desc.get('patterns'):
            L.append('[ patterns ]')
            for pat in desc['patterns']:
                L.append(' '.join('%s %s' % (key, jmeta(a)) for key, a in pat))
        if desc.get('features'):
            L.append('[ features ]')
            L.append(' '.join(desc['features']))
    elif k == 'fault':
        L += desc['text']
    return L


B_A1 = {'k': 'block', 'name': 'A', 'nrexcl': 1, 'atoms': [
    {'name': 'BB', 'atype': 'P1', 'resid': 1, 'resname': 'A', 'cg': 1},
    {'name': 'SC1', 'atype': 'C2', 'resid': 1, 'resname': 'A', 'cg': 2, 'charge': 1.0, 'charge_txt': '1.0', 'attrs': {'flag': 'x'}},
    {'name': 'SC2', 'atype': 'C3', 'resid': 1, 'resname': 'A', 'cg': 3, 'charge': -0.5, 'charge_txt': '-0.5', 'mass': 72.0, 'mass_txt': '72'}],
    'sections': [
        ('bonds', [('inter', ['BB', 'SC1'], ['1', '0.25', '1000'], {'comment': 'bb-sc'}),
                   ('meta', {'group': 'g1', 'version': 1}),
                   ('inter', [2, 3], ['6', '0.3', '500'], {'version': 2}),
                   ('inter', ['BB', 'SC2'], ['1', '0.4', '200'], None),
                   ('meta', {'group': 'g2'}),
                   ('inter', ['SC1', 'SC2', '--'], ['1', '0.5'], {'edge': False})]),
        ('angles', [('inter', ['BB', 'SC1', 'SC2'], ['2', '120', '50'], None)]),
        ('dihedrals', [('inter', [1, 2, 3, 1], ['2', '0', '10'], None), ('inter', ['BB', 'SC1', 'SC2', 'BB'], ['1', '180', '5', '2'], {'version': 1})]),
    ]}
B_A2 = {'k': 'block', 'name': 'A', 'nrexcl': 3, 'um': True, 'atoms': [
    {'name': 'X1', 'atype': '$bead', 'atype_exp': 'Q5', 'resid': 1, 'resname': 'A', 'cg': 1},
    {'name': 'X2', 'atype': 'P1', 'resid': 2, 'resname': 'A', 'cg': 1}],
    'sections': [('constraints', [('inter', ['X1', 'X2'], ['1', '$dist'], None)])],
    'macro_subst': {'$bead': 'Q5', '$dist': '0.33'}}
B_B1 = {'k': 'block', 'name': 'B', 'nrexcl': 2, 'atoms': [
    {'name': 'N', 'atype': 'N0', 'resid': 1, 'resname': 'B', 'cg': 1, 'charge': 0.0, 'charge_txt': '0'}],
    'sections': [], 'edges': []}
L_1 = {'k': 'link', 'attrs': [('resname', '"ALA|GLY"')], 'molmeta': [('cter', 'true')],
       'atoms': [('BB', {'replace': {'atype': 'Q5'}}), ('+BB', {})],
       'sections': [('bonds', [('inter', ['BB', '+BB'], ['1', '0.35', '1250'], {'group': 'backbone'})]),
                    ('angles', [('meta', {'version': 3}), ('inter', ['-BB', 'BB', '+BB'], ['2', '127', '20'], None),
                                ('inter', ['-BB', 'BB', '+BB'], ['2', '100', '25'], {'version': 4, 'comment': 'override'})])],
       'features': ['scfix', 'other'], 'patterns': [[('BB', {'cgsecstruct': 'H'}), ('+BB', {'cgsecstruct': 'H'})]]}
L_2 = {'k': 'link', 'attrs': [], 'atoms': [('SC1', {'resname': 'CYS'}), ('>SC1', {'resname': 'CYS'})],
       'sections': [('!bonds', [('inter', ['SC1', '>SC1'], ['1'], None)]),
                    ('constraints', [('inter', ['SC1', '>SC1'], ['1', '0.24'], {'ifdef': 'FLEXIBLE'})])],
       'edges': [('SC1', '>SC1')], 'non_edges': [('BB', 'SC2')]}
L_3 = {'k': 'link', 'attrs': [], 'atoms': [],
       'sections': [('bonds', [('inter', [('BB', {'resname': 'LYS'}), ('++BB', {'resname': 'LYS'})], ['1', '0.5', '100'], None)])]}
M_M1 = {'k': 'mod', 'name': 'M', 'atoms': [('CA', {'element': 'C', 'PTM_atom': False}), ('P', {'element': 'P', 'PTM_atom': True, 'replace': {'resname': 'SEP'}})],
        'sections': [('bonds', [('inter', ['CA', 'P'], ['1', '0.2', '900'], None)])], 'edges': [('CA', 'P')]}
M_M2 = {'k': 'mod', 'name': 'M', 'atoms': [('CB', {'element': 'C', 'PTM_atom': False}), ('O1', {'element': 'O', 'PTM_atom': True})],
        'sections': [], 'edges': [('CB', 'O1')]}
M_N1 = {'k': 'mod', 'name': 'N', 'atoms': [('N', {'element': 'N', 'PTM_atom': False}), ('H2', {'element': 'H', 'PTM_atom': True})],
        'sections': [], 'edges': [('N', 'H2')]}
# a block whose type-2 dihedrals (written under [ dihedrals ]) are followed by an explicit [ impropers ] section: the loaded
# impropers are the dihedral-derived ones first, then the explicit ones, in file order
B_C1 = {'k': 'block', 'name': 'C', 'nrexcl': 1, 'atoms': [
    {'name': 'A', 'atype': 'P1', 'resid': 1, 'resname': 'C', 'cg': 1}, {'name': 'B', 'atype': 'P1', 'resid': 1, 'resname': 'C', 'cg': 2},
    {'name': 'D', 'atype': 'P1', 'resid': 1, 'resname': 'C', 'cg': 3}, {'name': 'E', 'atype': 'P1', 'resid': 1, 'resname': 'C', 'cg': 4}],
    'sections': [('bonds', [('inter', ['A', 'B'], ['1', '0.3', '100'], None), ('inter', ['B', 'D'], ['1', '0.3', '100'], None),
                            ('inter', ['D', 'E'], ['1', '0.3', '100'], None)]),
                 ('dihedrals', [('inter', ['A', 'B', 'D', 'E'], ['2', '10', '50'], None), ('inter', ['A', 'B', 'D', 'E'], ['1', '180', '5', '1'], None),
                                ('inter', ['E', 'D', 'B', 'A'], ['2', '20', '60'], {'comment': 'second'})]),
                 ('impropers', [('inter', ['B', 'A', 'D', 'E'], ['2', '30', '70'], None)])]}
# a modification with proper and improper dihedrals
M_N2 = {'k': 'mod', 'name': 'N', 'atoms': [('N', {'element': 'N', 'PTM_atom': False}), ('CA', {'element': 'C', 'PTM_atom': False}),
                                        ('H2', {'element': 'H', 'PTM_atom': True}), ('H3', {'element': 'H', 'PTM_atom': True})],
        'sections': [('dihedrals', [('inter', ['CA', 'N', 'H2', 'H3'], ['2', '0', '100'], None),
                                    ('inter', ['H2', 'N', 'CA', 'H3'], ['1', '60', '3', '2'], {'version': 1})])],
        'edges': [('N', 'H2'), ('N', 'H3'), ('N', 'CA')]}
MACROS = {'k': 'macros', 'macros': [('bead', 'Q5'), ('dist', '0.33')]}
VARIABLES = {'k': 'variables', 'variables': [('regular', '0.47'), ('name', '"quoted"')]}
CITATIONS = {'k': 'citations', 'cites': ['Marrink2007']}

FAULTS = {
    'unknown-section': ['[ moleculetype ]', 'F 1', '[ atoms ]', '1 P1 1 F BB 1', '[ nosuchsection ]', 'BB BB 1'],
    'undefined-block-atom': ['[ moleculetype ]', 'F 1', '[ atoms ]', '1 P1 1 F BB 1', '[ bonds ]', 'BB XX 1 0.2 100'],
    'undefined-block-index': ['[ moleculetype ]', 'F 1', '[ atoms ]', '1 P1 1 F BB 1', '[ bonds ]', '1 2 1 0.2 100'],
    'duplicate-block-atom': ['[ moleculetype ]', 'F 1', '[ atoms ]', '1 P1 1 F BB 1', '2 P1 1 F BB 2'],
    'unbalanced-open': ['[ link ]', '[ bonds ]', 'BB {"resname": "ALA" +BB 1 0.2 100'],
    'unbalanced-close': ['[ link ]', '[ bonds ]', 'BB "resname": "ALA"} +BB 1 0.2 100'],
    'prefix-order-contradiction': ['[ link ]', '[ bonds ]', '+BB {"order": -1} BB 1 0.2 100'],
    'prefix-order-contradiction-zero': ['[ link ]', '[ atoms ]', '-BB {"order": 0}'],
    'prefix-order-contradiction-str': ['[ link ]', '[ bonds ]', '>BB {"order": "<"} BB 1 0.2 100'],
    'wrong-arity-bond': ['[ link ]', '[ bonds ]', 'BB +BB SC1 -- 1 0.2 100'],
    'wrong-arity-angle': ['[ moleculetype ]', 'F 1', '[ atoms ]', '1 P1 1 F BB 1', '2 P1 1 F SC 2', '[ angles ]', 'BB SC -- 2 120 50'],
    'removal-in-block': ['[ moleculetype ]', 'F 1', '[ atoms ]', '1 P1 1 F BB 1', '2 P1 1 F SC 2', '[ !bonds ]', 'BB SC 1'],
    'patterns-in-block': ['[ moleculetype ]', 'F 1', '[ atoms ]', '1 P1 1 F BB 1', '[ patterns ]', 'BB {"a": 1}'],
}

# a link that lists its interactions first and declares its atoms afterwards, one attribute per [ atoms ] section
L_4 = {'k': 'link', 'attrs': [], 'late_atoms': True,
       'atoms': [('BB', {'resname': 'ALA', 'cgsecstruct': 'H'}), ('+BB', {'resname': 'GLY'})],
       'sections': [('bonds', [('inter', ['BB', '+BB'], ['1', '0.36', '1300'], {'group': 'late'})]),
                    ('angles', [('inter', ['BB', '+BB', '++BB'], ['2', '96', '700'], None)])]}
MENU = {1: MACROS, 2: VARIABLES, 3: CITATIONS, 4: B_A1, 5: B_A2, 6: B_B1, 7: L_1, 8: L_2, 9: L_3, 10: M_M1, 11: M_M2, 12: M_N1,
        13: B_C1, 14: M_N2, 15: L_4}
FAULT_IDS = {100 + i: name for i, name in enumerate(sorted(FAULTS))}


def menu_tla(ids=None, faults=()):
    items = []
    for i, d in MENU.items():
        if ids is not None and i not in ids:
            continue
        kind = d['k']
        items.append('[k |-> "%s", name |-> "%s", id |-> %d, um |-> %s]' % (kind, d.get('name', ''), i, 'TRUE' if d.get('um') else 'FALSE'))
    for fid in faults:
        items.append('[k |-> "fault", name |-> "", id |-> %d, um |-> FALSE]' % fid)
    return '{' + ', '.join(items) + '}'


def chunk_text(cid):
    if cid in MENU:
        return render(MENU[cid])
    return list(FAULTS[FAULT_IDS[cid]])
