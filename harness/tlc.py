"""TLC runner: copies the specs to a scratch directory, writes the cfg, runs TLC under a timeout,
parses the summary, the per-action coverage, and (optionally) the state dump."""
import atexit
import glob
import json
import os
import re
import shutil
import subprocess
import sys
import tempfile
import time

from . import tlaval

VERIF = os.path.dirname(os.path.dirname(os.path.abspath(__file__)))
SPEC_DIR = os.path.join(VERIF, 'spec')
TLC_JAR = '/opt/veriftools/tla/tla2tools.jar'
NCPU = min(16, os.cpu_count() or 1)

_scratch_dirs = []


def scratch(prefix='verif_'):
    d = tempfile.mkdtemp(prefix=prefix)
    _scratch_dirs.append(d)
    return d


def _cleanup():
    for d in _scratch_dirs:
        shutil.rmtree(d, ignore_errors=True)


atexit.register(_cleanup)


class MachineryError(Exception):
    """TLC crashed / timed out / spec error: exit code 2, never a violation."""


class TLCResult:
    def __init__(self):
        self.generated = 0
        self.distinct = 0
        self.queue = 0
        self.ok = False
        self.violated = None      # name of violated invariant / property
        self.stdout = ''
        self.coverage = {}        # action name -> (distinct, generated)
        self.workdir = None
        self.dump_path = None
        self.wall = 0.0
        self.depth = 0
        self.error_trace = []     # list of state dicts

    def states(self):
        if not self.dump_path:
            raise MachineryError('no dump requested')
        return tlaval.parse_dump(self.dump_path)


def _java_cmd(extra_props=()):
    cp = TLC_JAR
    cm = glob.glob('/opt/veriftools/tla/*.jar')
    cp = ':'.join(sorted(set(cm), key=lambda p: (p != TLC_JAR, p)))
    return ['java', '-XX:+UseParallelGC', '-Xmx6g', '-Xss256m'] + list(extra_props) + ['-cp', cp, 'tlc2.TLC']


def prepare(workdir):
    """Copy all spec modules flat into workdir."""
    for pat in ('*.tla', 'lib/*.tla'):
        for f in glob.glob(os.path.join(SPEC_DIR, pat)):
            shutil.copy(f, workdir)


def run(module, cfg, *, consts=None, workers=None, dump=False, simulate=None, depth=None, seed=None, coverage=False,
        env=None, timeout=900, workdir=None, dfs=False, extra=(), expect_violation=False, deadlock=False):
    """Run TLC on spec/<module>.tla with cfg text `cfg`.
    simulate: None or dict(num=N, file=bool) -> '-simulate num=N[,file=...]'.
    Returns TLCResult.  Raises MachineryError on crash/timeout/parse errors."""
    if workdir is None:
        workdir = scratch('tlc_')
    prepare(workdir)
    if consts:
        # constants given as TLA+ expressions: wrapper module + substitution (cfg cannot hold e.g. negatives)
        wrapper = module + '_MC'
        lines = ['---- MODULE %s ----' % wrapper, 'EXTENDS %s' % module]
        cl = []
        for k, v in consts.items():
            lines.append('const_%s == %s' % (k, v if isinstance(v, str) else tlaval.to_tla(v)))
            cl.append(' %s <- const_%s' % (k, k))
        lines.append('====')
        with open(os.path.join(workdir, wrapper + '.tla'), 'w') as fh:
            fh.write('\n'.join(lines) + '\n')
        cfg = cfg + '\nCONSTANTS\n' + '\n'.join(cl) + '\n'
        module = wrapper
    cfg_path = os.path.join(workdir, module + '_gen.cfg')
    with open(cfg_path, 'w') as fh:
        fh.write(cfg)
    meta = os.path.join(workdir, 'meta_%d' % int(time.time() * 1000))
    props = []
    if dfs:
        props.append('-Dtlc2.tool.queue.IStateQueue=StateDeque')
    cmd = _java_cmd(props) + ['-config', cfg_path, '-metadir', meta, '-noGenerateSpecTE',
                               '-workers', str(workers or NCPU)]
    if not deadlock:
        cmd += ['-deadlock']   # -deadlock DISABLES deadlock checking
    res = TLCResult()
    res.workdir = workdir
    if dump:
        res.dump_path = os.path.join(workdir, module + '_states.dump')
        cmd += ['-dump', res.dump_path[:-5]]
    if coverage:
        cmd += ['-coverage', '1']
    if simulate is not None:
        s = 'num=%d' % simulate.get('num', 100)
        if simulate.get('file'):
            os.makedirs(os.path.join(workdir, 'sim'), exist_ok=True)
            s = 'file=%s,' % os.path.join(workdir, 'sim', 'b') + s
        cmd += ['-simulate', s]
        if depth:
            cmd += ['-depth', str(depth)]
    if seed is not None:
        cmd += ['-seed', str(seed)]
    cmd += list(extra)
    cmd += [os.path.join(workdir, module + '.tla')]
    e = dict(os.environ)
    e.pop('JAVA_TOOL_OPTIONS', None)
    if env:
        e.update({k: str(v) for k, v in env.items()})
    t0 = time.time()
    try:
        p = subprocess.run(cmd, cwd=workdir, env=e, stdout=subprocess.PIPE, stderr=subprocess.STDOUT,
                           timeout=timeout, text=True, errors='replace')
    except subprocess.TimeoutExpired as exc:
        subprocess.run(['pkill', '-f', meta], check=False)
        raise MachineryError('TLC timeout after %ss on %s' % (timeout, module)) from exc
    res.wall = time.time() - t0
    out = p.stdout
    res.stdout = out
    shutil.rmtree(meta, ignore_errors=True)
    m = None
    for m in re.finditer(r'(\d+) states generated, (\d+) distinct states found, (\d+) states left on queue', out):
        pass
    if m:
        res.generated, res.distinct, res.queue = int(m.group(1)), int(m.group(2)), int(m.group(3))
    m = re.search(r'The depth of the complete state graph search is (\d+)', out)
    if m:
        res.depth = int(m.group(1))
    for m in re.finditer(r'^<(\w+) line \d+, col \d+ to line \d+, col \d+ of module (\w+)>: (\d+):(\d+)', out, re.M):
        name = m.group(1)
        d, g = int(m.group(3)), int(m.group(4))
        pd, pg = res.coverage.get(name, (0, 0))
        res.coverage[name] = (pd + d, pg + g)
    viol = re.search(r'Error: Invariant (\S+) is violated', out) or \
        re.search(r'Error: Action property (\S+) is violated', out) or \
        re.search(r'Error: Temporal properties were violated', out)
    if viol:
        res.violated = viol.group(1) if viol.groups() else 'temporal'
        res.error_trace = _parse_error_trace(out)
        if not expect_violation:
            return res
        return res
    if re.search(r'Model checking completed. No error has been found', out) or \
            (simulate is not None and p.returncode == 0):
        res.ok = True
        return res
    if simulate is not None and 'Error:' not in out and p.returncode in (0,):
        res.ok = True
        return res
    raise MachineryError('TLC failed on %s (rc=%s):\n%s' % (module, p.returncode, out[-6000:]))


def _parse_error_trace(out):
    states = []
    for m in re.finditer(r'^State \d+: <[^>]*>\n(.*?)(?=\n\n|\Z)', out, re.S | re.M):
        try:
            states.append(tlaval.parse_state_body(m.group(1)))
        except Exception:   # pragma: no cover
            states.append({'_raw': m.group(1)})
    return states


def sim_files(res):
    return sorted(glob.glob(os.path.join(res.workdir, 'sim', 'b*')))


def write_json(workdir, name, obj):
    path = os.path.join(workdir, name)
    with open(path, 'w') as fh:
        json.dump(obj, fh, separators=(',', ':'))
    return path
