"""C02 extension - what the driver (harness/c02.py) needs to look at REAL objects:

* project(mol)         generic projection of a live vermouth Molecule to the abstract molecule of spec/ItpWrite.tla: any node
                       key type, any interaction type, meta ifdef / ifndef / group / comment, parameters of any type (the
                       token a parameter must appear as is str(parameter): numeric formatting is compared as text),
                       moltype, nrexcl, meta 'define'
* event_of(mol, ...)   write the molecule with the REAL write_molecule_itp (twice), read the text with
                       harness/indep_readers.py (records, prologue, [ moleculetype ] line, numeric reading of the numeric
                       atom columns) and with the REPOSITORY'S OWN reader vermouth.gmx.itp_read.read_itp into a fresh
                       ForceField (Block projected field by field); the event is what spec/Trace_ItpWrite.tla judges
* run_pipeline(job)    the real martinize2 entry() in-process with vermouth.gmx.itp.write_molecule_itp interposed: the live
                       Molecule of every call the pipeline makes is projected just before the real writer runs, with the
                       header / moltype arguments of that call
* census(...)          which features of the format a set of molecules exercises (used against vacuity)

Nothing here computes an expected value: conversions only (str(), Decimal -> integer in units of 10^-6 with a stated
tolerance)."""
import decimal
import io
import numbers
import os
import random
import re
import shutil
import tempfile

from . import indep_readers

NOAID = -1
SCALE = 10 ** 6
TOL = decimal.Decimal('0.001')          # |value * 10^6 - integer| <= 1e-3, i.e. 1e-9 absolute
BIG = 2 ** 31 - 1
_INT = re.compile(r'^[+-]?\d+$')
_TOK = re.compile(r'^[^\s;]+$')


# ----------------------------------------------------------------------------------------------------------------
# molecule in memory -> abstract molecule

def _is_int(k):
    return isinstance(k, numbers.Integral) and not isinstance(k, bool) and abs(int(k)) < BIG


def key_encoder(keys):
    """Node keys are opaque to the specification: integers stay integers; when a molecule has any other key (strings,
    tuples, ...) every key becomes the string repr(key) (one kind per molecule, injective for the keys generated)."""
    keys = list(keys)
    if all(_is_int(k) for k in keys):
        return lambda k: int(k) if _is_int(k) else BIG        # BIG: an interaction atom that is no node (not well-formed)
    return lambda k: 'k:' + repr(k)


FORMAT_ATTRS = ('atype', 'resid', 'resname', 'atomname', 'charge_group', 'charge', 'mass', 'atomid')


def strip_raw(m):
    """the abstract molecule without the `raw` fingerprints (what the TAB model of ItpWrite builds)"""
    return dict(m, nodes=[{k: v for k, v in nd.items() if k != 'raw'} for nd in m['nodes']],
                inter=[{k: v for k, v in x.items() if k != 'raw'} for x in m['inter']])


def project(mol, moltype=None):
    """Abstract molecule of a real Molecule: nodes in graph order, interactions in dictionary / list order.
    `raw` = which of the attributes the format uses are PRESENT, with repr(value), and the complete meta of an
    interaction: not read by Write / Canon, only compared before / after writing (ItpWrite!Repeatable)."""
    enc = key_encoder(mol.nodes)
    nodes = []
    for key in mol.nodes:
        a = mol.nodes[key]
        aid = a.get('atomid')
        nodes.append({'key': enc(key), 'aid': NOAID if aid is None else (int(aid) if _is_int(aid) else -2),
                      'f': [str(a.get('atype', '<missing>')), str(a.get('resid', '<missing>')),
                            str(a.get('resname', '<missing>')), str(a.get('atomname', '<missing>')),
                            str(a.get('charge_group', '<missing>')),
                            str(a['charge']) if 'charge' in a else '', str(a['mass']) if 'mass' in a else ''],
                      'raw': [[name, repr(a[name])] for name in FORMAT_ATTRS if name in a]})
    inter = []
    for type_, lst in mol.interactions.items():
        for it in lst:
            g = []
            if it.meta.get('ifdef') is not None:
                g = [{'kind': 'ifdef', 'name': str(it.meta['ifdef'])}]
            elif it.meta.get('ifndef') is not None:
                g = [{'kind': 'ifndef', 'name': str(it.meta['ifndef'])}]
            inter.append({'type': str(type_), 'at': [enc(k) for k in it.atoms],
                          'p': [str(p) for p in it.parameters],
                          'g': g, 'grp': str(it.meta.get('group') or ''), 'com': str(it.meta.get('comment', '')),
                          'raw': sorted([str(k), repr(v)] for k, v in it.meta.items())
                                 + [['parameters', repr([type(p).__name__ for p in it.parameters])]]})
    mt = moltype if moltype is not None else mol.meta.get('moltype')
    defs = [{'name': str(k), 'val': str(v).split()} for k, v in (mol.meta.get('define') or {}).items()]
    return {'nodes': nodes, 'inter': inter, 'moltype': '' if mt is None else str(mt), 'nrexcl': str(mol.nrexcl), 'defs': defs}


def odd_parameters(mol):
    """Parameters that are neither text nor numbers (an unevaluated parameter effector, a list, None ...): the format
    cannot carry them; reported, never judged."""
    out = []
    for type_, lst in mol.interactions.items():
        for it in lst:
            for p in it.parameters:
                if isinstance(p, bool) or not isinstance(p, (str, numbers.Real)):
                    out.append('%s %r: %s' % (type_, tuple(it.atoms), type(p).__name__))
    return out


def in_scope(m):
    """The statement's domain: tokens the format can carry (no blanks / ';' / empty), n-body virtual sites with exactly
    their function type, exclusions without parameters, atom ids that are non-negative integers, mass only with
    charge (D11 family apart), both ifdef and ifndef never (projected as ifdef only - not generated)."""
    for nd in m['nodes']:
        if not all(_TOK.match(t) for t in nd['f'][:5]) or any(t != '' and not _TOK.match(t) for t in nd['f'][5:]):
            return False
        if nd['f'][5] == '' and nd['f'][6] != '':
            return False
        if nd['aid'] < 0 and nd['aid'] != NOAID:
            return False
    for x in m['inter']:
        if not all(_TOK.match(t) for t in x['p']):
            return False
        if x['type'] == 'virtual_sitesn' and len(x['p']) != 1:
            return False
        if x['type'] == 'exclusions' and x['p']:
            return False
        if '\n' in x['com'] or '\n' in x['grp'] or not _TOK.match(x['type']):
            return False
        for gd in x['g']:
            if not _TOK.match(gd['name']):
                return False
    if not _TOK.match(m.get('moltype', 'x') or '') or not _TOK.match(m.get('nrexcl', '1')):
        return False
    for d in m.get('defs', []):
        if not _TOK.match(d['name']):
            return False
    return True


# ----------------------------------------------------------------------------------------------------------------
# text -> the two readings

def _dec(tok):
    """token -> [has, v] with v = value * 10^6 as an integer, or None when the token is not a decimal number that fits."""
    try:
        v = decimal.Decimal(tok)
    except decimal.InvalidOperation:
        return None
    if not v.is_finite() or '_' in tok:
        return None
    scaled = v * SCALE
    n = scaled.to_integral_value(rounding=decimal.ROUND_HALF_EVEN)
    if abs(scaled - n) > TOL or abs(n) >= BIG:
        return None
    return {'has': True, 'v': int(n)}


def _int_tok(tok):
    if _INT.match(tok) and abs(int(tok)) < BIG:
        return int(tok)
    return None


NONUM = {'has': False, 'v': 0}


def numeric_reading(records):
    """Per [ atoms ] record of the independent reader: the numbers its numeric columns denote (resnr, cgnr integers;
    charge, mass in units of 10^-6, |error| <= 1e-9).  ok = False when a column is not such a number."""
    out = []
    for r in records:
        if r['k'] != 'atom':
            continue
        p = r['p']
        resid = _int_tok(p[1]) if len(p) > 1 else None
        cg = _int_tok(p[4]) if len(p) > 4 else None
        q = _dec(p[5]) if len(p) > 5 else NONUM
        m = _dec(p[6]) if len(p) > 6 else NONUM
        ok = None not in (resid, cg, q, m)
        out.append({'ok': ok, 'resid': resid if resid is not None else 0, 'cg': cg if cg is not None else 0,
                    'q': q or NONUM, 'm': m or NONUM})
    return out


def _i32(v):
    return int(v) if _is_int(v) else BIG


def _num_attr(attrs, name):
    if name not in attrs:
        return dict(NONUM)
    x = attrs[name]
    try:
        n = round(float(x) * SCALE)
    except (TypeError, ValueError, OverflowError):
        return {'has': True, 'v': BIG}
    return {'has': True, 'v': n if abs(n) < BIG else BIG}


EMPTY_RD = {'err': '', 'name': '', 'nrexcl': 0, 'atoms': [], 'inters': []}


def repo_reading(text):
    """The Block vermouth.gmx.itp_read.read_itp stores for the text, read from a file-like object into a FRESH force
    field, projected field by field (no interpretation: node keys stay node keys)."""
    import vermouth.forcefield
    from vermouth.gmx.itp_read import read_itp
    ff = vermouth.forcefield.ForceField(name='verif_c02')
    try:
        read_itp(io.StringIO(text), ff)
    except Exception as exc:      # noqa - any exception is a refusal
        return dict(EMPTY_RD, err='%s: %s' % (type(exc).__name__, str(exc)[:160]))
    if len(ff.blocks) != 1:
        return dict(EMPTY_RD, err='read_itp stored %d blocks for one molecule type' % len(ff.blocks))
    (name, blk), = ff.blocks.items()
    atoms = []
    for key, attrs in blk.nodes.items():
        atoms.append({'key': _i32(key), 'nr': _i32(attrs.get('index')), 'atype': str(attrs.get('atype')),
                      'resid': _i32(attrs.get('resid')), 'resname': str(attrs.get('resname')),
                      'name': str(attrs.get('atomname')), 'cg': _i32(attrs.get('charge_group')),
                      'q': _num_attr(attrs, 'charge'), 'm': _num_attr(attrs, 'mass')})
    inters = []
    for sec, lst in blk.interactions.items():
        for it in lst:
            keys = set(it.meta)
            if keys == {'ifdef'}:
                cond, tag = 'ifdef', str(it.meta['ifdef'])
            elif keys == {'ifndef'}:
                cond, tag = 'ifndef', str(it.meta['ifndef'])
            elif not keys:
                cond, tag = 'none', ''
            else:
                cond, tag = 'other', ','.join(sorted(map(str, keys)))
            inters.append({'sec': str(sec), 'a': [_i32(k) for k in it.atoms], 'p': [str(p) for p in it.parameters],
                           'cond': cond, 'tag': tag})
    same_name = str(blk.name) == str(name)
    return {'err': '' if same_name else 'block stored under %r is named %r' % (name, blk.name),
            'name': str(blk.name), 'nrexcl': _i32(blk.nrexcl), 'atoms': atoms, 'inters': inters}


_REAL = []


def real_writer():
    """the repository's write_molecule_itp, remembered before anything is interposed on the module attribute"""
    if not _REAL:
        import vermouth.gmx.itp as itp_module
        _REAL.append(itp_module.write_molecule_itp)
    return _REAL[0]


def write_text(mol, moltype='verif', **kw):
    buf = io.StringIO()
    real_writer()(mol, buf, moltype=moltype, **kw)
    return buf.getvalue()


def readings(text):
    parsed = indep_readers.read_itp(text)
    nrexcl = parsed['nrexcl'] or ''
    n = _int_tok(nrexcl)
    head = {'moltype': parsed['moltype'] or '', 'nrexcl': nrexcl, 'nrexcl_n': -1 if n is None else n}
    return {'recs': parsed['records'], 'pro': indep_readers.read_itp_prologue(text), 'head': head}


def event_of(mol, origin, moltype='verif', writer_kw=None, both_readers=True):
    """Everything the TLC judge needs about ONE write of a live molecule."""
    writer_kw = dict(writer_kw or {})
    m = project(mol, moltype)
    ev = {'mol': m, 'origin': origin, 'err': '', 'text': '', 'odd': odd_parameters(mol),
          'file': {'recs': [], 'pro': [], 'head': {'moltype': '', 'nrexcl': '', 'nrexcl_n': -1}},
          'num': [], 'rd': dict(EMPTY_RD), 'again': {'mol': m, 'recs': []}}
    if any(writer_kw.get(k) for k in ('post_section_lines', 'pre_section_lines')) or \
            mol.meta.get('post_section_lines') or mol.meta.get('pre_section_lines'):
        ev['odd'].append('pre / post section lines')
    try:
        text = write_text(mol, moltype, **writer_kw)
        m_after = project(mol, moltype)
        text2 = write_text(mol, moltype, **writer_kw)
    except Exception as exc:      # noqa
        ev['err'] = repr(exc)
        return ev
    ev['text'] = text
    ev['file'] = readings(text)
    ev['num'] = numeric_reading(ev['file']['recs'])
    ev['again'] = {'mol': m_after, 'recs': ev['file']['recs'] if text2 == text else indep_readers.read_itp(text2)['records']}
    if text2 != text and ev['again']['recs'] == ev['file']['recs']:
        # same records, different text (spacing / comments): still "a second write differs"; make it visible to TLC
        ev['again']['recs'] = ev['again']['recs'] + [{'k': 'comment', 's': 'text of the second write differs', 'a': [], 'p': []}]
    if both_readers:
        ev['rd'] = repo_reading(text)
    return ev


def for_tlc(e):
    return {'mol': e['mol'], 'file': e['file'], 'num': e['num'], 'rd': e['rd'], 'again': e['again']}


# ----------------------------------------------------------------------------------------------------------------
# the real pipeline

CONTACT_PAIRS = ((1, 10), (3, 12), (5, 20), (8, 17), (2, 14), (2, 7), (4, 19), (6, 11))


def _write_contacts(path, nchains):
    """a contact map in the format read_go_map accepts (18 columns, first 'R'; chain in columns 5/9, residue in 6/10,
    OV flag in column 12)"""
    with open(path, 'w') as fh:
        for chain in 'ABCDEFGH'[:nchains]:
            for a, b in CONTACT_PAIRS:
                fh.write('R 1 1 XXX %s %d 2 YYY %s %d 6.0 1 0 0 1 0 0 0\n' % (chain, a, chain, b))


def census(m):
    """Format features a molecule exercises (input features only)."""
    feats = set()
    for x in m['inter']:
        feats.add('sec:' + x['type'])
        if x['g']:
            feats.add(x['g'][0]['kind'])
        if x['grp']:
            feats.add('group')
        if x['com']:
            feats.add('comment')
        if x['type'] == 'exclusions' and len(x['at']) > 2:
            feats.add('exclusions-of-more-than-two')
        if x['type'] == 'virtual_sitesn' and len(x['at']) > 2:
            feats.add('virtual_sitesn-from-several-atoms')
        if any(p in ('0', '0.0', '0.00', '0.000') for p in x['p']):
            feats.add('zero-parameter')
    if m.get('defs'):
        feats.add('define')
    if any(nd['f'][5] != '' and nd['f'][6] == '' for nd in m['nodes']):
        feats.add('charge-without-mass')
    if any(nd['f'][5] in ('0', '0.0') for nd in m['nodes']):
        feats.add('zero-charge')
    by_type = {}
    for x in m['inter']:
        by_type.setdefault(x['type'], set()).add((str(x['g']), x['grp']))
    if any(len(v) >= 3 for v in by_type.values()):
        feats.add('three-guard-groups-in-a-section')
    return feats


def _edited_variants(mol, rng, origin):
    """the same molecule after losing atoms and with stale / shuffled / gapped atom ids (what repair and merging leave)"""
    evs = []
    for variant in range(3):
        cp = mol.copy()
        keys = list(cp.nodes)
        for k in rng.sample(keys, min(len(keys) - 1, rng.randint(1, 4))):
            cp.remove_node(k)
        keys = list(cp.nodes)
        ids = list(range(1, len(keys) + 1))
        if variant == 2:
            ids = rng.sample(range(0, 5 * len(keys) + 5), len(keys))       # gaps, 0 allowed
        rng.shuffle(ids)
        for k, i in zip(keys, ids):
            if variant in (0, 2) or rng.random() < 0.5:
                cp.nodes[k]['atomid'] = i
            else:
                cp.nodes[k].pop('atomid', None)
        how = ('shuffled', 'partly missing', 'with gaps, shuffled')[variant]
        evs.append(event_of(cp, dict(origin, edited='removed atoms, atom ids ' + how), moltype=None))
    return evs


def run_pipeline(job):
    """(chains, options, seed) -> {'events': [...]} | {'error': ...}.  Runs in a freshly forked worker."""
    from . import cli_c03
    import vermouth.gmx.itp as itp_module
    chains, options, seed = job
    rng = random.Random(seed)
    options = list(options)
    scratch = tempfile.mkdtemp(prefix='c02go_')
    try:
        if 'CONTACTS' in options:
            path = os.path.join(scratch, 'contacts.out')
            _write_contacts(path, len(chains.split('/')[0]))
            options[options.index('CONTACTS')] = path
        shown = ['CONTACTS' if o.startswith(scratch) else o for o in options]
        origin0 = {'source': 'martinize2 ' + ' '.join(shown), 'chains': chains}
        calls = []
        the_writer = real_writer()

        def tee(molecule, outfile, header=(), moltype=None, post_section_lines=None, pre_section_lines=None):
            header = list(header)
            kw = {'header': header}
            if post_section_lines is not None:
                kw['post_section_lines'] = post_section_lines
            if pre_section_lines is not None:
                kw['pre_section_lines'] = pre_section_lines
            origin = dict(origin0, call=len(calls), what='the call the pipeline makes (live molecule, its header)')
            e = event_of(molecule, origin, moltype=moltype, writer_kw=kw)
            calls.append(e)
            for v in _edited_variants(molecule, rng, dict(origin0, call=len(calls) - 1)):
                calls.append(v)
            return the_writer(molecule, outfile, header=header, moltype=moltype, post_section_lines=post_section_lines,
                              pre_section_lines=pre_section_lines)

        itp_module.write_molecule_itp = tee
        try:
            r = cli_c03.run_cli(chains, options, lambda system: len(system.molecules))
        finally:
            itp_module.write_molecule_itp = the_writer
        if r['rc'] != 0 or not calls:
            return {'error': 'martinize2 %s on %s: rc=%s, %d writer calls\n%s' % (r['argv'], chains, r['rc'], len(calls),
                                                                                r['log'][-800:])}
        # the file the run left on disk is the text the interposed call saw
        for e in calls:
            if e['origin'].get('what') and not e['err']:
                name = e['mol']['moltype'] + '.itp'
                if r['files'].get(name) != e['text']:
                    return {'error': 'martinize2 %s: %s on disk is not the text of the interposed writer call' % (r['argv'], name)}
        return {'events': calls, 'molecules': r['captured']}
    finally:
        shutil.rmtree(scratch, ignore_errors=True)
