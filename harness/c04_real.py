"""C04 on real structures: the front end of bin/martinize2 (read_system, MakeBonds, AnnotateMutMod, RepairGraph), run in-process
on shipped structures in DAMAGED presentations, every RepairGraph run recorded and judged by TLC (spec/Repair.tla JudgeRepairX,
JudgeMolecule, JudgeUnknown).  Also used by harness/c19_cli.py (the recorder and the PDB text model).

Nothing here decides anything.  Python (a) edits PDB text: removes atoms, renames atoms, adds atoms no block knows, shuffles the
atom order, renames residues; (b) calls the REAL `read_system` and `pdb_to_universal` of bin/martinize2 with
`RepairGraph.run_system` / `run_molecule` interposed (the run stops after RepairGraph); (c) projects the molecule that enters
and the molecule that leaves RepairGraph, the force field's block and the requested modifications to JSON.  TLC builds the
reference (block named by the requested mutation or by the residue name, patched with the requested modifications) and decides:
the atoms that keep / get a block name form an element- and bond-preserving embedding into the reference, at least as many atoms
are recognised as a verified common subgraph has (exactly the largest common subgraph for residues of <= 7 atoms), every
reference atom is present afterwards and bonded as in the reference, every other input atom is marked (or, for a residue
carrying a request, removed), bonds between input atoms are untouched, new atoms are bonded only inside their residue.

The lower bound of the largest match is a CERTIFICATE: for every input atom the name the real RepairGraph gave it in the
UNDAMAGED shipped structure (recorded once per structure, and itself judged).  TLC uses the certificate only after verifying that
it is an element- and bond-preserving partial map into the reference of the damaged run; where it is not (MakeBonds trusted a
wrong name), no lower bound is used and the evidence says so."""
import logging
import math
import os
import random
import shutil

from . import common, tlc

T0 = 'vermouth/tests/data/integration_tests/tier-0'
T1 = 'vermouth/tests/data/integration_tests/tier-1'
STRUCTURES = {
    'dipro': T0 + '/dipro-termini/aa.pdb',
    'sheet': T0 + '/mini-protein1_betasheet/aa.pdb',
    'helix': T0 + '/mini-protein2_helix/aa.pdb',
    'trpcage': T0 + '/mini-protein3_trp-cage/aa.pdb',
    'hst5': T1 + '/hst5/aa.pdb',
    'villin': T1 + '/villin/aa.pdb',
    '3i40': T1 + '/3i40/3i40.pdb',
    'bpti': T1 + '/bpti/aa.pdb',
}
DEFAULT_MODS = [['cter', 'C-ter'], ['nter', 'N-ter']]          # what the command adds when no terminus request is given
BACKBONE = {'N', 'CA', 'C', 'O', 'OXT', 'OT1', 'OT2', 'O1', 'O2', 'H', 'HN', 'H1', 'H2', 'H3', 'HA', 'HA1', 'HA2', 'HA3',
            'HT1', 'HT2', 'HT3', 'HN1', 'HN2', 'HN3', '1H', '2H', '3H'}
EQUIVALENT = [('CD1', 'CD2'), ('CE1', 'CE2'), ('OE1', 'OE2'), ('OD1', 'OD2'), ('NH1', 'NH2'), ('CG1', 'CG2'), ('HB1', 'HB2'),
              ('HB2', 'HB3'), ('HA1', 'HA2'), ('HG1', 'HG2'), ('HD1', 'HD2'), ('HE1', 'HE2'), ('HZ1', 'HZ2'), ('HZ2', 'HZ3'),
              ('HH11', 'HH12'), ('HH21', 'HH22'), ('HD11', 'HD12'), ('HD21', 'HD22'), ('HG11', 'HG12'), ('HG21', 'HG22'),
              ('OT1', 'OT2'), ('H1', 'H2'), ('H2', 'H3')]


# ----------------------------------------------------------------------------------------------------------------------
# PDB text model (inputs only)
class Pdb:
    """ATOM / HETATM records of the first model.  Everything else (CONECT, TER, header) is dropped: bonds are guessed by
    MakeBonds from names and distances.  Every atom keeps a private `uid` through all edits (the serial it is written with)."""
    def __init__(self, path=None):
        self.atoms = []
        if path is None:
            return
        for ln in open(path).read().splitlines():
            if ln.startswith('ENDMDL'):
                break
            if not ln.startswith(('ATOM', 'HETATM')):
                continue
            if ln[16] not in ' A':
                continue                              # alternate locations other than the first: not this property
            name = ln[12:16].strip()
            el = ln[76:78].strip() if len(ln) >= 78 else ''
            if not el:
                el = name.lstrip('0123456789')[:1]
            self.atoms.append({'rec': ln[:6].strip(), 'name': name, 'resname': ln[17:21].strip(), 'chain': ln[21], 'resid': int(ln[22:26]),
                               'icode': ln[26], 'xyz': [float(ln[30:38]), float(ln[38:46]), float(ln[46:54])], 'el': el.capitalize(),
                               'uid': len(self.atoms) + 1, 'true': name, 'damage': ''})

    def copy(self):
        new = Pdb()
        new.atoms = [dict(a, xyz=list(a['xyz'])) for a in self.atoms]
        return new

    def residues(self):
        """[(key, [atoms])] in file order; key = (chain, resid, icode, resname)."""
        out, index = [], {}
        for a in self.atoms:
            key = (a['chain'], a['resid'], a['icode'], a['resname'])
            if key not in index:
                index[key] = len(out)
                out.append((key, []))
            out[index[key]][1].append(a)
        return out

    def bonded(self, atom, pool=None):
        out = []
        for b in (pool if pool is not None else self.atoms):
            if b is atom:
                continue
            lim = 1.25 if 'H' in (atom['el'], b['el']) else 1.95
            if abs(atom['xyz'][0] - b['xyz'][0]) < lim and math.dist(atom['xyz'], b['xyz']) < lim:
                out.append(b)
        return out

    def add(self, parent, name, el, dist):
        """New atom at `dist` Angstrom from `parent`, in the direction (of 300 over the sphere) that stays farthest from every
        other atom, so that MakeBonds sees the bond to `parent` and no other."""
        best = None
        golden = math.pi * (3.0 - math.sqrt(5.0))
        near = [b for b in self.atoms if b is not parent and math.dist(b['xyz'], parent['xyz']) < 6.0]
        for i in range(300):
            z = 1.0 - 2.0 * (i + 0.5) / 300
            r = math.sqrt(1.0 - z * z)
            v = (r * math.cos(golden * i), r * math.sin(golden * i), z)
            xyz = [parent['xyz'][j] + dist * v[j] for j in range(3)]
            clear = min([math.dist(xyz, b['xyz']) for b in near] or [9.0])
            if best is None or clear > best[0]:
                best = (clear, xyz)
        if best[0] < (1.5 if el == 'H' else 2.0):
            return None
        new = dict(parent, name=name, el=el, xyz=best[1], uid=max(a['uid'] for a in self.atoms) + 1, true='', damage='extra')
        self.atoms.insert(self.atoms.index(parent) + 1, new)
        return new

    def text(self):
        out = ['CRYST1  500.000  500.000  500.000  90.00  90.00  90.00 P 1           1']
        for a in self.atoms:
            name = a['name'] if len(a['name']) >= 4 else ' %-3s' % a['name']
            out.append('%-6s%5d %4s %-4s%1s%4d%1s   %8.3f%8.3f%8.3f  1.00  0.00          %2s' % (
                a['rec'], a['uid'] % 100000, name[:4], a['resname'][:4], a['chain'], a['resid'], a['icode'],
                a['xyz'][0], a['xyz'][1], a['xyz'][2], a['el'].upper()))
        out.append('END')
        return '\n'.join(out) + '\n'


def load_structure(name):
    """name: a key of STRUCTURES, or 'a+b+c' = these structures as chains A, B, C of one file, 60 Angstrom apart, or
    'a+b/XY' with explicit chain labels."""
    labels = 'ABCDEFGH'
    if '/' in name:
        name, labels = name.split('/')
    parts = name.split('+')
    if len(parts) == 1:
        return Pdb(os.path.join(common.REPO, STRUCTURES[name]))
    out = Pdb()
    for ci, part in enumerate(parts):
        p = Pdb(os.path.join(common.REPO, STRUCTURES[part]))
        for a in p.atoms:
            a['chain'] = labels[ci]
            a['xyz'][0] += 60.0 * ci
            a['uid'] = len(out.atoms) + 1
            out.atoms.append(a)
    return out


# ----------------------------------------------------------------------------------------------------------------------
# damage: each function edits `pdb` in place and returns a short description; atoms touched get a['damage'] set
def _side_chain(atoms):
    return [a for a in atoms if a['name'] not in BACKBONE and a['true'] not in BACKBONE]


def _pick_residues(pdb, rng, k, pred=lambda key, atoms: True):
    cand = [(key, atoms) for key, atoms in pdb.residues() if pred(key, atoms)]
    rng.shuffle(cand)
    return cand[:k]


def _remove(pdb, atoms, tag):
    ids = {id(a) for a in atoms}
    for key, members in pdb.residues():
        if any(id(a) in ids for a in members):
            for a in members:
                if id(a) not in ids:
                    a['damage'] = a['damage'] or tag
    pdb.atoms = [a for a in pdb.atoms if id(a) not in ids]


def dmg_del_side_subset(pdb, rng, k=3):
    done = []
    for key, atoms in _pick_residues(pdb, rng, k, lambda key, atoms: len(_side_chain(atoms)) >= 1):
        sc = _side_chain(atoms)
        sub = [a for a in sc if rng.random() < 0.4] or [rng.choice(sc)]
        _remove(pdb, sub, 'del-side-subset')
        done.append('%s%d:-%s' % (key[3], key[1], ','.join(a['name'] for a in sub)))
    return done


def dmg_del_n_h_ca(pdb, rng, k=2):
    done = []
    res = pdb.residues()
    for key, atoms in _pick_residues(pdb, rng, k, lambda key, atoms: {'N', 'CA', 'C'} <= {a['name'] for a in atoms}):
        n = next(a for a in atoms if a['name'] == 'N')
        ca = next(a for a in atoms if a['name'] == 'CA')
        gone = [n, ca] + [h for h in pdb.bonded(n, atoms) if h['el'] == 'H']
        if rng.random() < 0.5:
            gone += [h for h in pdb.bonded(ca, atoms) if h['el'] == 'H']
        _remove(pdb, gone, 'del-n-h-ca')
        done.append('%s%d:-%s' % (key[3], key[1], ','.join(a['name'] for a in gone)))
    return done


def dmg_del_all_h(pdb, rng):
    hs = [a for a in pdb.atoms if a['el'] == 'H']
    _remove(pdb, hs, 'del-all-h')
    return ['all %d hydrogens' % len(hs)]


def dmg_del_beyond_cb(pdb, rng, k=3):
    done = []
    for key, atoms in _pick_residues(pdb, rng, k, lambda key, atoms: len([a for a in _side_chain(atoms) if a['el'] != 'H']) >= 2):
        cb = [a for a in atoms if a['name'] == 'CB']
        if not cb:
            continue
        keep = {id(cb[0])} | {id(h) for h in pdb.bonded(cb[0], atoms) if h['el'] == 'H'}
        gone = [a for a in _side_chain(atoms) if id(a) not in keep]
        _remove(pdb, gone, 'del-beyond-cb')
        done.append('%s%d:-%d atoms' % (key[3], key[1], len(gone)))
    return done


def dmg_junk_all(pdb, rng, k=3):
    done = []
    # (a lysine / arginine with hydrogens and meaningless names keeps the matcher busy for minutes: not chosen)
    for key, atoms in _pick_residues(pdb, rng, k, lambda key, atoms: key[3] not in ('LYS', 'ARG') or len(atoms) < 12):
        for i, a in enumerate(atoms):
            a['name'] = 'X%d' % (i + 1)
            a['damage'] = 'junk-all'
        done.append('%s%d' % (key[3], key[1]))
    return done


def dmg_junk_h(pdb, rng):
    n = 0
    for key, atoms in pdb.residues():
        hs = [a for a in atoms if a['el'] == 'H']
        for i, a in enumerate(hs):
            a['name'] = 'Q%d' % (i + 1)
            a['damage'] = 'junk-h'
            n += 1
        for a in atoms:
            a['damage'] = a['damage'] or ('junk-h' if hs else '')
    return ['%d hydrogens renamed' % n]


def dmg_swap_equivalent(pdb, rng, k=6):
    done = []
    for key, atoms in _pick_residues(pdb, rng, k, lambda key, atoms: any({x, y} <= {a['name'] for a in atoms} for x, y in EQUIVALENT)):
        names = {a['name']: a for a in atoms}
        pairs = [(x, y) for x, y in EQUIVALENT if x in names and y in names]
        used = set()
        for x, y in pairs:
            if x in used or y in used or rng.random() < 0.3:
                continue
            used.update((x, y))
            ax, ay = names[x], names[y]
            ax['name'], ay['name'] = y, x
            ax['damage'] = ay['damage'] = 'swap-equivalent'
        if used:
            for a in atoms:
                a['damage'] = a['damage'] or 'swap-equivalent'
            done.append('%s%d:%s' % (key[3], key[1], ','.join(sorted(used))))
    return done


def dmg_names_from_other(pdb, rng, k=3):
    """The atoms of a residue get, in file order, the atom names of ANOTHER residue type of the same structure (cyclically)."""
    done = []
    res = pdb.residues()
    for key, atoms in _pick_residues(pdb, rng, k):
        others = [(k2, a2) for k2, a2 in res if k2[3] != key[3] and len(a2) >= 4]
        if not others:
            continue
        k2, a2 = rng.choice(others)
        pool = [a['true'] for a in a2 if a['true']]
        if len(set(pool)) < len(pool) or not pool:
            continue
        names = [pool[i % len(pool)] + ('' if i < len(pool) else str(i // len(pool))) for i in range(len(atoms))]
        for a, nm in zip(atoms, names):
            a['name'] = nm[:4]
            a['damage'] = 'names-from-other'
        done.append('%s%d<-%s' % (key[3], key[1], k2[3]))
    return done


def dmg_extra_atoms(pdb, rng, k=3):
    done = []
    for key, atoms in _pick_residues(pdb, rng, k):
        heavy = [a for a in atoms if a['el'] != 'H']
        parent = rng.choice(heavy)
        el, name, dist = rng.choice([('O', 'OX1', 1.43), ('F', 'FX1', 1.36), ('P', 'PX1', 1.65), ('C', 'CX9', 1.52), ('Cl', 'CLX', 1.76),
                                     ('O', parent['name'], 1.43), ('C', 'CA', 1.52)])
        hs = [h for h in pdb.bonded(parent, atoms) if h['el'] == 'H']
        if hs and rng.random() < 0.6:
            h = rng.choice(hs)                         # a hydrogen replaced by the foreign atom
            d = math.dist(parent['xyz'], h['xyz'])
            h['xyz'] = [parent['xyz'][i] + (h['xyz'][i] - parent['xyz'][i]) * dist / d for i in range(3)]
            clear = min(math.dist(h['xyz'], b['xyz']) for b in pdb.atoms if b is not h and b is not parent)
            if clear < 1.9:
                h['xyz'] = [parent['xyz'][i] + (h['xyz'][i] - parent['xyz'][i]) * d / dist for i in range(3)]
                continue
            h['name'], h['el'], h['damage'], h['true'] = name, el, 'extra', ''
            new = h
        else:
            new = pdb.add(parent, name, el, dist)
            if new is None:
                continue
        if el == 'O' and rng.random() < 0.5:
            pdb.add(new, 'HX1', 'H', 0.97)
        for a in atoms:
            a['damage'] = a['damage'] or 'extra-atoms'
        done.append('%s%d:+%s on %s' % (key[3], key[1], name, parent['name']))
    return done


def dmg_shuffle_order(pdb, rng):
    out = []
    for key, atoms in pdb.residues():
        atoms = list(atoms)
        rng.shuffle(atoms)
        for a in atoms:
            a['damage'] = a['damage'] or 'shuffle-order'
        out += atoms
    pdb.atoms = out
    return ['atom order shuffled inside every residue']


def dmg_unknown_resname(pdb, rng, k=1):
    done = []
    for key, atoms in _pick_residues(pdb, rng, k):
        for a in atoms:
            a['resname'] = 'XQZ'
            a['damage'] = 'unknown-resname'
        done.append('%s%d->XQZ' % (key[3], key[1]))
    return done


DAMAGE = {
    'as-shipped': lambda pdb, rng: ['nothing'],
    'del-side-subset': dmg_del_side_subset, 'del-n-h-ca': dmg_del_n_h_ca, 'del-all-h': dmg_del_all_h, 'del-beyond-cb': dmg_del_beyond_cb,
    'junk-all': dmg_junk_all, 'junk-h': dmg_junk_h, 'swap-equivalent': dmg_swap_equivalent, 'names-from-other': dmg_names_from_other,
    'extra-atoms': dmg_extra_atoms, 'shuffle-order': dmg_shuffle_order, 'unknown-resname': dmg_unknown_resname,
}
# what a family must show at least once over a run of the check (else the family was vacuous): a counter of `effects`
MUST_SHOW = {
    'del-side-subset': 'readded', 'del-n-h-ca': 'readded', 'del-all-h': 'readded', 'del-beyond-cb': 'readded',
    'junk-all': 'renamed', 'junk-h': 'renamed', 'swap-equivalent': 'renamed', 'names-from-other': 'renamed',
    'extra-atoms': 'marked', 'shuffle-order': 'judged', 'unknown-resname': 'dropped', 'as-shipped': 'judged',
    'mutate': 'removed', 'modify': 'readded',
}


# ----------------------------------------------------------------------------------------------------------------------
# projection of force-field objects
def block_record(block, name):
    """Block -> [name, names, els, edges]; None when atom names repeat / an element cannot be derived."""
    import networkx as nx
    from vermouth.graph_utils import add_element_attr
    keys = list(block.nodes)
    g = nx.Graph()
    g.add_nodes_from((k, dict(block.nodes[k])) for k in keys)
    try:
        add_element_attr(g)
    except ValueError:
        return None
    names = [g.nodes[k].get('atomname') for k in keys]
    if not all(isinstance(n, str) for n in names):
        return None
    pos = {k: i + 1 for i, k in enumerate(keys)}
    return {'name': str(name), 'names': names, 'els': [str(g.nodes[k]['element']) for k in keys],
            'edges': sorted(sorted((pos[a], pos[b])) for a, b in block.edges if a != b)}


def mod_record(mod, name):
    keys = list(mod.nodes)
    names = [mod.nodes[k].get('atomname') for k in keys]
    if not all(isinstance(n, str) for n in names):
        return None
    pos = {k: i + 1 for i, k in enumerate(keys)}
    els = []
    for k in keys:
        el = mod.nodes[k].get('element')
        if not isinstance(el, str):
            el = names[pos[k] - 1].lstrip('0123456789')[:1]
        els.append(el)
    return {'name': str(name), 'names': names, 'els': els, 'ptm': [bool(mod.nodes[k].get('PTM_atom', False)) for k in keys],
            'edges': sorted(sorted((pos[a], pos[b])) for a, b in mod.edges if a != b)}


# ----------------------------------------------------------------------------------------------------------------------
# the recorder
def _ikey(d):
    r = d.get('resid')
    return (str(d.get('chain')), int(r) if isinstance(r, int) else -999, str(d.get('insertion_code') or ''))


def project_in(mol):
    atoms = {}
    for k, d in mol.nodes(data=True):
        atoms[k] = {'name': d.get('atomname') if isinstance(d.get('atomname'), str) else '<%r>' % (d.get('atomname'),),
                    'el': str(d.get('element', '')), 'ikey': _ikey(d), 'resname': str(d.get('resname')),
                    'muts': [str(x) for x in (d.get('mutation') or [])], 'mods': [str(x) for x in (d.get('modification') or [])],
                    'uid': d.get('atomid') if isinstance(d.get('atomid'), int) else -1}
    edges = sorted(sorted((a, b)) for a, b in mol.edges if a != b)
    return atoms, edges


class _Stop(Exception):
    pass


class _Cap(logging.Handler):
    def __init__(self):
        super().__init__(level=logging.DEBUG)
        self.records = []

    def emit(self, record):
        if record.levelno >= logging.WARNING:
            self.records.append((record.levelname, getattr(record, 'type', 'general'), str(getattr(record.msg, 'fmt', record.msg))[:120]))


def repair_events(before, edges_in, out, ff, cert_of=None, info=None):
    """One 'repairx' event per residue of a molecule (+ one 'molecule' event).  before: project_in(molecule entering RepairGraph);
    out: the molecule RepairGraph returned.  cert_of(atom record) -> certified block-atom name or None."""
    info = info or {}
    residues, order = {}, []
    for k, a in before.items():
        rk = a['ikey'] + (a['resname'],)
        if rk not in residues:
            residues[rk] = []
            order.append(rk)
        residues[rk].append(k)
    # where new atoms belong: (chain, resid, icode, resname after the repair)
    home = {}
    for rk in order:
        a0 = before[residues[rk][0]]
        target = a0['muts'][0] if a0['muts'] else a0['resname']
        home.setdefault(rk[:3] + (target,), rk)
    fresh = {}
    problems = []
    for k, d in out.nodes(data=True):
        if k in before:
            continue
        hk = _ikey(d) + (str(d.get('resname')),)
        if hk in home:
            fresh.setdefault(home[hk], []).append(k)
        else:
            problems.append('new atom %r (%s %s) belongs to no residue of the input' % (k, d.get('resname'), d.get('atomname')))
    events = []
    resindex = {}
    for ri, rk in enumerate(order, 1):
        members = residues[rk]
        a0 = before[members[0]]
        same = all(before[k]['muts'] == a0['muts'] and before[k]['mods'] == a0['mods'] for k in members)
        target = a0['muts'][0] if a0['muts'] else a0['resname']
        blocks = []
        if target in ff.blocks:
            rec = block_record(ff.blocks[target], target)
            if rec:
                blocks.append(rec)
        modlib = []
        for m in a0['mods']:
            if m != 'none' and m in ff.modifications and m not in [x['name'] for x in modlib]:
                rec = mod_record(ff.modifications[m], m)
                if rec:
                    modlib.append(rec)
        mset = set(members)
        for k in members:
            resindex[k] = ri
        for k in fresh.get(rk, []):
            resindex[k] = ri
        outlist = []
        for k in members + fresh.get(rk, []):
            if k in out.nodes:
                d = out.nodes[k]
                nm = d.get('atomname')
                outlist.append({'id': k, 'name': nm if isinstance(nm, str) else '<%r>' % (nm,), 'ptm': bool(d.get('PTM_atom', False)),
                                'resname': str(d.get('resname'))})
        oset = {o['id'] for o in outlist}
        cert = []
        if cert_of:
            for k in members:
                nm = cert_of(before[k])
                if nm:
                    cert.append([k, nm])
        ev = {'kind': 'repairx', 'resname': a0['resname'], 'muts': a0['muts'], 'mods': a0['mods'], 'blocks': blocks, 'modlib': modlib,
              'R': {'nodes': [[k, before[k]['el']] for k in members],
                    'edges': [[a, b, 0] for a, b in edges_in if a in mset and b in mset]},
              'out': outlist, 'edges': sorted(sorted((a, b)) for a, b in out.edges if a in oset and b in oset and a != b),
              'cert': cert, 'exact': len(members) <= 7 and len(members) + len(fresh.get(rk, [])) <= 16,
              # information for the reader / the family counters (not seen by TLC)
              'where': '%s %s%s%s' % (rk[0], rk[3], rk[1], rk[2]), 'names_in': [before[k]['name'] for k in members],
              'uids': [before[k]['uid'] for k in members],
              'problems': ([] if same else ['atoms of one residue carry different requests']), 'info': info}
        events.append(ev)
    if problems and events:
        events[0]['problems'] = events[0]['problems'] + problems
    allk = list(before) + [k for ks in fresh.values() for k in ks]
    events.append({'kind': 'molecule', 'atoms': [{'id': k, 'res': resindex.get(k, 0), 'orig': k in before, 'present': k in out.nodes} for k in allk],
                   'inEdges': [list(e) for e in edges_in], 'outEdges': sorted(sorted((a, b)) for a, b in out.edges if a != b),
                   'where': 'molecule of %d atoms' % len(before), 'problems': [], 'info': info})
    return events


REPAIRX_FIELDS = ('kind', 'resname', 'muts', 'mods', 'blocks', 'modlib', 'R', 'out', 'edges', 'cert', 'exact')
MOLECULE_FIELDS = ('kind', 'atoms', 'inEdges', 'outEdges')
UNKNOWN_FIELDS = ('kind', 'mols', 'known', 'kept', 'warnings')


def slim(e):
    keys = {'repairx': REPAIRX_FIELDS, 'molecule': MOLECULE_FIELDS, 'unknown': UNKNOWN_FIELDS}[e['kind']]
    return {k: e[k] for k in keys}


class Recorder:
    """Interposes on RepairGraph.run_system / run_molecule for the duration of a `with` block."""
    def __init__(self, ff, cert_of=None, info=None, stop=True):
        self.ff, self.cert_of, self.info, self.stop = ff, cert_of, info or {}, stop
        self.events, self.runs, self.crash, self.raised, self.errors = [], [], '', '', []

    def __enter__(self):
        import vermouth.processors.repair_graph as rg
        self.rg = rg
        self.orig_sys, self.orig_mol = rg.RepairGraph.run_system, rg.RepairGraph.run_molecule
        rec = self

        def run_molecule(proc, molecule):
            before, edges_in = project_in(molecule)
            entry = {'before': before, 'edges': edges_in, 'out': None, 'exc': ''}
            rec.runs.append(entry)
            try:
                out = rec.orig_mol(proc, molecule)
            except Exception as exc:
                entry['exc'] = type(exc).__name__
                raise
            entry['out'] = out
            return out

        def run_system(proc, system):
            cap = _Cap()
            vlog = logging.getLogger('vermouth')
            vlog.addHandler(cap)
            try:
                result = rec.orig_sys(proc, system)
            except Exception as exc:
                rec.raised = type(exc).__name__
                raise
            finally:
                vlog.removeHandler(cap)
            if rec.ff is None:
                rec.ff = system.force_field
            rec.finish(system, cap, proc)
            if rec.stop:
                raise _Stop()
            return result
        rg.RepairGraph.run_system, rg.RepairGraph.run_molecule = run_system, run_molecule
        return self

    def __exit__(self, *exc):
        self.rg.RepairGraph.run_system, self.rg.RepairGraph.run_molecule = self.orig_sys, self.orig_mol
        return False

    def finish(self, system, cap, proc):
        kept_ids = {id(m) for m in system.molecules}
        kept, mols = [], []
        for i, run in enumerate(self.runs, 1):
            names = []
            seen = set()
            for a in run['before'].values():
                rk = a['ikey'] + (a['resname'],)
                if rk not in seen:
                    seen.add(rk)
                    names.append(a['muts'][0] if a['muts'] else a['resname'])
            mols.append(names)
            if run['out'] is not None and id(run['out']) in kept_ids:
                kept.append(i)
                self.events += repair_events(run['before'], run['edges'], run['out'], self.ff, self.cert_of, self.info)
        allnames = sorted({n for m in mols for n in m})
        self.events.append({'kind': 'unknown', 'mols': mols, 'known': [n for n in allnames if n in self.ff.blocks], 'kept': kept,
                            'warnings': sum(1 for lv, typ, msg in cap.records if typ == 'unknown-residue' and msg.startswith('Cannot recognize residue')),
                            'where': 'system of %d molecules' % len(mols), 'problems': [], 'info': self.info})
        self.errors = [r for r in cap.records if r[0] == 'ERROR']


# ----------------------------------------------------------------------------------------------------------------------
_STATE = {}


def _load():
    if 'ffs' in _STATE:
        return _STATE
    from pathlib import Path
    import importlib.machinery
    import importlib.util
    import vermouth
    import vermouth.forcefield
    data = Path(vermouth.DATA_PATH)
    _STATE['ffs'] = vermouth.forcefield.find_force_fields(data / 'force_fields')
    path = os.path.join(common.REPO, 'bin', 'martinize2')
    loader = importlib.machinery.SourceFileLoader('verif_martinize2_c04', path)
    spec = importlib.util.spec_from_loader('verif_martinize2_c04', loader)
    mod = importlib.util.module_from_spec(spec)
    vlog = logging.getLogger('vermouth')
    handlers = list(vlog.handlers)
    loader.exec_module(mod)                     # defines read_system / pdb_to_universal; entry() is not run
    for h in list(vlog.handlers):               # the script attaches its console handler at import time
        if h not in handlers:
            vlog.removeHandler(h)
    _STATE['m2'] = mod
    _STATE['baseline'] = {}
    return _STATE


def front_end(pdb, mods, muts, bonds_from_name=True, cert=None, info=None):
    """Real read_system + pdb_to_universal up to and including RepairGraph on the text of `pdb`.  Returns the Recorder."""
    from pathlib import Path
    st = _load()
    ff = st['ffs']['charmm']
    work = tlc.scratch('c04pdb_')
    vlog = logging.getLogger('vermouth')
    old = vlog.level
    vlog.setLevel(logging.WARNING)
    cert_of = (lambda a: cert.get(a['uid'])) if cert else None
    rec = Recorder(ff, cert_of, info)
    try:
        path = os.path.join(work, 'in.pdb')
        with open(path, 'w') as fh:
            fh.write(pdb.text())
        with rec:
            try:
                system = st['m2'].read_system(Path(path), ignore_resnames=(), modelidx=1)
                st['m2'].pdb_to_universal(system, delete_unknown=True, force_field=ff, modifications=[list(x) for x in mods],
                                          mutations=[list(x) for x in muts], bonds_from_name=bonds_from_name)
            except _Stop:
                pass
            except Exception as exc:      # noqa
                rec.crash = '%s: %s' % (type(exc).__name__, str(exc)[:200])
    finally:
        vlog.setLevel(old)
        shutil.rmtree(work, ignore_errors=True)        # pool workers do not run the atexit clean-up
    return rec


def baseline(structure):
    """uid -> canonical name the real RepairGraph gives each atom of the UNDAMAGED structure (the certificate), and the
    events of that run (family 'as-shipped', judged like every other)."""
    st = _load()
    if structure not in st['baseline']:
        pdb = load_structure(structure)
        rec = front_end(pdb, DEFAULT_MODS, [], info={'family': 'as-shipped', 'structure': structure, 'damage': ['nothing'], 'bonds': 'both'})
        names = {}
        for run in rec.runs:
            if run['out'] is None:
                continue
            for k, a in run['before'].items():
                if k in run['out'].nodes and not run['out'].nodes[k].get('PTM_atom') and isinstance(run['out'].nodes[k].get('atomname'), str):
                    names[a['uid']] = run['out'].nodes[k]['atomname']
        # as-shipped certificate: the atoms whose file name is a name RepairGraph kept
        for e in rec.events:
            if e['kind'] == 'repairx':
                e['cert'] = [[k, nm] for k, nm, uid in zip([n[0] for n in e['R']['nodes']], e['names_in'], e['uids']) if names.get(uid) == nm]
        st['baseline'][structure] = (names, rec.events, rec.crash)
    return st['baseline'][structure]


def effects(e):
    """Counters of what a judged residue shows (for the vacuity rule)."""
    if e['kind'] != 'repairx':
        return {'judged'}
    orig = {n[0] for n in e['R']['nodes']}
    out = {o['id']: o for o in e['out']}
    name_in = dict(zip([n[0] for n in e['R']['nodes']], e['names_in']))
    fx = {'judged'}
    if any(k not in orig for k in out):
        fx.add('readded')
    if any(o['ptm'] for o in out.values()) and not (e['muts'] or e['mods']):
        fx.add('marked')                      # (in a residue carrying a request the mark belongs to the atoms of the modification)
    if any(k not in out for k in orig):
        fx.add('removed')
    if any(k in orig and not o['ptm'] and o['name'] != name_in[k] for k, o in out.items()):
        fx.add('renamed')
    return fx


def run_case(case):
    """case = {'structure', 'family', 'seed', 'bonds': 'both'|'distance', 'mods'?, 'muts'?}.  Returns (events, summary)."""
    rng = random.Random(case['seed'])
    names, _, _ = baseline(case['structure'])
    pdb = load_structure(case['structure'])
    fam = case['family']
    damage = []
    for f in fam.split('+'):
        if f in DAMAGE:
            damage += DAMAGE[f](pdb, rng)
    info = {'family': fam, 'structure': case['structure'], 'damage': damage, 'bonds': case.get('bonds', 'both'), 'seed': case['seed'],
            'mods': case.get('mods', DEFAULT_MODS), 'muts': case.get('muts', [])}
    rec = front_end(pdb, case.get('mods', DEFAULT_MODS), case.get('muts', []), bonds_from_name=case.get('bonds', 'both') == 'both',
                    cert=names, info=info)
    touched = {a['uid'] for a in pdb.atoms if a['damage']}
    for e in rec.events:
        e['touched'] = e['kind'] != 'repairx' or bool(touched & set(e['uids'])) or bool(e['muts'] or e['mods'])
    return rec
