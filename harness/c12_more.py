"""C12, real data: editing histories recorded from REAL pipeline objects and judged by Trace_MoleculeEdit with the same
effect operators as the toy histories.

The objects: the coarse-grained molecules DoMapping + DoLinks produce for the tier-0 structures (front end of bin/martinize2
in-process, as harness/c01_real.py runs it), and residue blocks of the target force field (atom NAMES as keys).
One history = a seeded script over a world of three molecule cells, one block cell and one System:

    Load (two mapped chains, an empty molecule, a block)      ->  merge the two chains (merge_molecule / MergeChains /
    MergeAllMolecules)  ->  remove the atoms of one residue (list or generator)  ->  merge again  ->  take a subgraph
    (a residue range, keys repeated)  ->  instantiate the block (to_molecule) and merge it  ->  merge the block itself
    ->  copy, edit the copy  ->  add-or-replace / remove interactions with versions  ->  networkx copy, make_edges ...

Each call is one event with the projection of the whole world after it; TLC accepts the event iff the effect operator gives
exactly that world, the merge is conserving in its declarative form, and every logged cell satisfies NoDangling (every
interaction and bond refers to atoms still present).  Bookkeeping (citations, log entries, meta, nrexcl, force field, cache)
is noted, never rejected.

Also here: the table of shared objects (which mutable parts of a copy / subgraph / networkx copy / merge result /
instantiated block ARE the objects of the source), measured by identity on the real classes and written to the evidence -
a measurement, nothing is judged from it."""
import collections
import copy
import logging
import multiprocessing as mp
import os
import random

from . import common, tlc

TIER0 = 'vermouth/tests/data/integration_tests/tier-0'
QUICK_CASES = [('mini-protein3_trp-cage', 'dipro-termini', 'martini3001', 'TRP'),
               ('dipro-termini', 'mini-protein3_trp-cage', 'martini22', 'ARG'),
               ('mini-protein1_betasheet', 'dipro-termini', 'martini3001', 'LYS')]
MORE_CASES = [(a, b, ff, blk)
              for ff, blk in (('martini3001', 'PHE'), ('martini22', 'TYR'), ('elnedyn22', 'HIS'), ('martini3001', 'GLY'))
              for a, b in (('mini-protein3_trp-cage', 'mini-protein1_betasheet'), ('mini-protein1_betasheet', 'mini-protein3_trp-cage'),
                           ('mini-protein2_helix', 'dipro-termini'), ('dipro-termini', 'dipro-termini'))]
EDGE_TYPES = ('bonds', 'angles', 'dihedrals', 'cmap', 'constraints')
_CACHE = {}


def mapped(name, ff_name):
    """Coarse-grained molecules of one tier-0 structure: read_system, pdb_to_universal, DoMapping, DoAverageBead, DoLinks
    (real objects, the stages in the order of bin/martinize2)."""
    from pathlib import Path
    from . import c01_real
    from vermouth.processors import DoMapping, DoLinks, DoAverageBead
    from vermouth.system import System
    key = (name, ff_name)
    if key in _CACHE:
        return _CACHE[key]
    st = c01_real._load()
    ffs, maps, m2 = st['ffs'], st['maps'], st['m2']
    vlog = logging.getLogger('vermouth')
    old = vlog.level
    vlog.setLevel(logging.ERROR)
    try:
        system = m2.read_system(Path(os.path.join(common.REPO, TIER0, name, 'aa.pdb')))
        system = m2.pdb_to_universal(system, delete_unknown=True, force_field=ffs['charmm'],
                                     modifications=[['cter', 'C-ter'], ['nter', 'N-ter']])
        out = []
        for mol in system.molecules:
            cg = DoMapping(maps, ffs[ff_name], attribute_keep=('cgsecstruct', 'chain', 'secstruct'), attribute_must=('resname',),
                           attribute_stash=('resid',)).run_molecule(mol)
            one = System(force_field=ffs[ff_name])         # DoAverageBead reads the force field's bead-position rule
            one.molecules = [cg]
            DoAverageBead(ignore_missing_graphs=True).run_system(one)       # links may compute parameters from positions
            DoLinks().run_system(one)
            out.append(one.molecules[0])
    finally:
        vlog.setLevel(old)
    _CACHE[key] = out
    return out


def residues(m):
    res = collections.OrderedDict()
    for k, d in m.nodes(data=True):
        res.setdefault((d.get('chain'), d.get('resid')), []).append(k)
    return list(res.values())


def real_history(case, seed):
    """One scripted history on real pipeline objects. -> (events, types, block atom names)"""
    from . import c12
    from . import c01_real
    from vermouth.molecule import Molecule
    from vermouth.system import System
    from vermouth.processors.merge_all_molecules import MergeAllMolecules
    from vermouth.processors.merge_chains import MergeChains
    import networkx as nx
    rng = random.Random(seed)
    name_a, name_b, ff_name, block_name = case
    ff = c01_real._load()['ffs'][ff_name]
    a = mapped(name_a, ff_name)[0].copy()
    b = mapped(name_b, ff_name)[0].copy()
    for k, d in b.nodes(data=True):          # the second chain gets its own chain identifier
        d['chain'] = 'B'
    for k, d in a.nodes(data=True):
        d['chain'] = d.get('chain') or 'A'
    if rng.random() < 0.5:
        # what DoLinks leaves on a molecule for a link with a log entry (the disulfide-bridge message of the martini force fields)
        entry = 'Disulfide bridge found between residues {SC1[chain]}-{SC1[resname]}{SC1[resid]} and {>SC1[chain]}-{>SC1[resname]}{>SC1[resid]}'
        ks = list(b.nodes)
        b.log_entries[20][entry] += [{'SC1': ks[0], '>SC1': ks[-1]}]
    block = ff.blocks[block_name]          # the force field's own object (a deep copy would drag a second force field along)
    block_citations = set(block.citations)
    empty = Molecule(force_field=ff, nrexcl=a.nrexcl)
    system = System(force_field=ff)
    w = {'cells': {1: a, 2: b, 3: empty, 4: block}, 'system': system}
    cells = w['cells']
    types = sorted(set(a.interactions) | set(b.interactions) | set(block.interactions))
    rec = c12.Recorder(w, types, {4}, real=True)
    rec.load()

    def chain_tags(chains):
        tags = set()
        for c in (1, 2, 3):
            for _, d in cells[c].nodes(data=True):
                if d.get('chain') in chains:
                    tags.add('%s|%s' % (d.get('chain'), d.get('atomname')))
        return sorted(tags)

    def merge_chains(chains, d, all_chains=False):
        known = {id(x) for x in cells.values()}
        MergeChains(chains=[] if all_chains else list(chains), all_chains=all_chains).run_system(system)
        new = [x for x in system.molecules if id(x) not in known]
        if new:
            cells[d] = new[0]

    def free_cell():
        insys = {id(x) for x in system.molecules}
        free = [c for c in (3, 2, 1) if id(cells[c]) not in insys]
        return free[0] if free else None

    # 1. merge the two mapped chains, one of three ways
    how = ['merge', 'chains', 'all', 'chains-all'][seed % 4]
    if how == 'merge':
        rec.call({'ev': 'Merge', 'm': 1, 'n': 2}, lambda: cells[1].merge_molecule(cells[2]))
        big = 1
    else:
        rec.call({'ev': 'SetSys', 'm': 0, 'ks': [1, 2]}, lambda: setattr(system, 'molecules', [cells[1], cells[2]]))
        if how == 'all':
            rec.call({'ev': 'MergeAll', 'm': 0}, lambda: MergeAllMolecules().run_system(system))
            big = 1
        elif how == 'chains':
            chains = rng.choice([['A', 'B'], ['B', 'A', 'Z'], ['A']])
            rec.call({'ev': 'MergeChains', 'm': 3, 'at': chain_tags(chains)}, lambda: merge_chains(chains, 3))
            big = 3
        else:
            rec.call({'ev': 'MergeChainsAll', 'm': 3}, lambda: merge_chains([], 3, True))
            big = 3
    # 2. remove the atoms of one residue (sometimes the last one: the highest key goes)
    res = residues(cells[big])
    if res:
        victim = res[-1] if rng.random() < 0.4 else rng.choice(res)
        one = rng.random() < 0.5
        rec.call({'ev': 'RemoveNodesFrom', 'm': big, 'ks': list(victim), 'oneShot': one},
                 lambda: cells[big].remove_nodes_from((k for k in victim) if one else list(victim)))
    # 3. merge again (the other chain once more)
    other = 2 if big != 2 else 1
    rec.call({'ev': 'Merge', 'm': big, 'n': other}, lambda: cells[big].merge_molecule(cells[other]))
    # 4. a subgraph: a range of residues, some keys repeated, atoms in a shuffled order
    res = residues(cells[big])
    lo = rng.randrange(len(res))
    hi = min(len(res), lo + rng.randint(1, 4))
    ks = [k for r in res[lo:hi] for k in r]
    rng.shuffle(ks)
    ks += ks[:rng.randint(0, 2)]
    dst = next(c for c in (3, 2, 1) if c != big)
    rec.call({'ev': 'Subgraph', 'm': dst, 'src': big, 'ks': ks}, lambda: c12.store(w, dst, cells[big].subgraph(ks)))
    # 5. edit the subgraph: the source must not notice
    sk = list(cells[dst].nodes)
    if sk:
        k = rng.choice(sk)
        rec.call({'ev': 'RemoveNode', 'm': dst, 'k': k}, lambda: cells[dst].remove_node(k))
    sk = list(cells[dst].nodes)
    if len(sk) >= 2:
        at = rng.sample(sk, 2)
        v = rng.choice([0, 1])
        rec.call({'ev': 'AddOrReplace', 'm': dst, 'ty': 'bonds', 'at': at, 'v': v, 't': '1 0.47 1250', 'cs': ['verif-cite']},
                 lambda: cells[dst].add_or_replace_interaction('bonds', tuple(at), ['1', '0.47', '1250'], meta=({'version': v} if v else {}),
                                                               citations={'verif-cite'}))
    # 6. instantiate the block and merge it; merge the block itself
    third = next(c for c in (1, 2, 3) if c not in (big, dst))
    last = cells[big].nodes[max(cells[big].nodes)] if len(cells[big]) else {'resid': 0, 'charge_group': 0}
    off, dres, dcg = rng.choice([0, 1, 500]), rng.choice([0, last.get('resid', 0)]), rng.choice([0, 7])
    rec.call({'ev': 'ToMol', 'm': third, 'src': 4, 'k': off, 'r': dres, 'v': dcg},
             lambda: c12.store(w, third, cells[4].to_molecule(atom_offset=off, offset_resid=dres, offset_charge_group=dcg)))
    rec.call({'ev': 'Merge', 'm': big, 'n': third}, lambda: cells[big].merge_molecule(cells[third]))
    rec.call({'ev': 'Merge', 'm': big, 'n': 4}, lambda: cells[big].merge_molecule(cells[4]))
    if rng.random() < 0.3:
        rec.call({'ev': 'Merge', 'm': 4, 'n': big}, lambda: cells[4].merge_molecule(cells[big]))        # TypeError, nothing touched
    # 7. copy; edit the copy; remove an interaction with its version; networkx copy; make edges
    rec.call({'ev': 'Copy', 'm': dst, 'src': big}, lambda: c12.store(w, dst, cells[big].copy()))
    ck = list(cells[dst].nodes)
    if ck:
        k = max(ck) if rng.random() < 0.5 else rng.choice(ck)
        rec.call({'ev': 'RemoveNode', 'm': dst, 'k': k}, lambda: cells[dst].remove_node(k))
        rec.call({'ev': 'Merge', 'm': dst, 'n': third}, lambda: cells[dst].merge_molecule(cells[third]))
    for ty in types:
        lst = cells[big].interactions.get(ty)
        if lst and rng.random() < 0.6:
            it = rng.choice(lst)
            v = it.meta.get('version', 0)
            rec.call({'ev': 'RemoveInter', 'm': big, 'ty': ty, 'at': list(it.atoms), 'v': v},
                     lambda: cells[big].remove_interaction(ty, tuple(it.atoms), version=v))
            break
    rec.call({'ev': 'GraphCopy', 'm': third, 'src': big}, lambda: c12.store(w, third, nx.Graph.copy(cells[big])))
    rec.call({'ev': 'MakeEdges', 'm': dst}, lambda: cells[dst].make_edges_from_interactions())
    # 8. everything that is left into one system
    order = rng.sample([big, dst], 2)
    if rng.random() < 0.25:                 # the networkx copy has no force field and no nrexcl: the merge is refused there
        order.append(third)
    rec.call({'ev': 'SetSys', 'm': 0, 'ks': order}, lambda: setattr(system, 'molecules', [cells[i] for i in order]))
    rec.call({'ev': 'MergeAll', 'm': 0}, lambda: MergeAllMolecules().run_system(system))
    block.citations.clear()                # to_molecule hands out the block's own citation set: put it back as it was
    block.citations.update(block_citations)
    return rec.events, types, sorted(str(n) for n in block.nodes), ff_name


def _real_worker(job):
    from . import c12
    case, seeds, book = job
    vlog = logging.getLogger('vermouth')
    vlog.setLevel(logging.ERROR)
    hists = []
    for seed in seeds:
        events, types, names, ffn = real_history(case, seed)
        hists.append(events)
    states, gen, verdicts, partial = c12.judge_batch(hists, book, types=types, edge_types=[t for t in types if t in EDGE_TYPES],
                                                     cells=[1, 2, 3, 4], blocks=[4], names=names, sysff=ffn, timeout=3000)
    out = []
    for ti, (seed, events) in enumerate(zip(seeds, hists), 1):
        s = c12.summarise([events], {1: verdicts[ti]} if ti in verdicts else {}, partial)
        s.update(states=states if ti == 1 else 0, generated=gen if ti == 1 else 0)
        for r in s['rejected']:
            r['real'] = {'case': list(case), 'seed': seed}
        s['atoms'] = max(len(p[1]['nodes']) for e in events for p in e.get('post', ()))
        if seed == seeds[0]:
            s['sample'] = [{k: (v if k != 'ks' or len(v) < 12 else v[:12] + ['...']) for k, v in e.items() if k not in ('post', 'sys', 'parts')}
                           for e in events[:12]]
        out.append(s)
    return out


def sharing_table():
    """Which mutable parts of the result of an operation ARE objects of the source (identity on the real classes)."""
    import networkx as nx
    from vermouth.molecule import Molecule, Block
    src = Molecule(nrexcl=1)
    src.add_nodes_from([(0, {'resid': 1, 'charge_group': 1, 'atomname': 'A', 'graph': nx.Graph()}), (1, {'resid': 1, 'charge_group': 1, 'atomname': 'B'})])
    src.add_edge(0, 1, order=[1])
    src.add_interaction('bonds', (0, 1), ['1', '0.3'], meta={'comment': 'x'})
    src.meta['moltype'] = ['m']
    src.log_entries[30]['e {A}'].append({'A': 0})
    blk = Block(nrexcl=1)
    blk.add_nodes_from([('A', {'resid': 1, 'charge_group': 1, 'atomname': 'A', 'graph': nx.Graph()}), ('B', {'resid': 1, 'charge_group': 1, 'atomname': 'B'})])
    blk.add_edge('A', 'B', order=[1])
    blk.add_interaction('bonds', ('A', 'B'), ['1', '0.3'], meta={'comment': 'x'})
    blk.log_entries[30]['e {A}'] = []
    recv = Molecule(nrexcl=1)
    recv.add_node(5, resid=1, charge_group=1, atomname='Z')
    recv.merge_molecule(src)
    results = {'copy': (src.copy(), src, 0, (0, 1)), 'subgraph': (src.subgraph([0, 1]), src, 0, (0, 1)),
               'networkx Graph.copy': (nx.Graph.copy(src), src, 0, (0, 1)), 'merge_molecule (receiver vs newcomer)': (recv, src, 6, (6, 7)),
               'Block.to_molecule': (blk.to_molecule(), blk, 0, (0, 1))}
    table = {}
    for op, (res, s, k, e) in results.items():
        sk = 'A' if s is blk else 0
        se = ('A', 'B') if s is blk else (0, 1)
        row = {'node attribute dict': res.nodes[k] is s.nodes[sk],
               'nested attribute value': res.nodes[k].get('graph') is s.nodes[sk].get('graph'),
               'edge attribute dict': res.edges[e] is s.edges[se],
               'citations set': res.citations is s.citations,
               'meta dict': res.meta is s.meta,
               'nested meta value': bool(res.meta) and res.meta.get('moltype') is s.meta.get('moltype'),
               'log_entries': res.log_entries is s.log_entries}
        if res.interactions.get('bonds'):
            ri, si = res.interactions['bonds'][-1], s.interactions['bonds'][-1]
            row.update({'interaction list': res.interactions['bonds'] is s.interactions['bonds'], 'Interaction tuple': ri is si,
                        'interaction parameters list': ri.parameters is si.parameters, 'interaction meta dict': ri.meta is si.meta})
        else:
            row['interactions'] = 'none copied'
        table[op] = {k2: v for k2, v in row.items()}
    return table


def jobs(tier, seed, book):
    cases = QUICK_CASES if tier == 'quick' else QUICK_CASES + MORE_CASES
    nseeds = 3 if tier == 'quick' else 10
    out = [('real', case, [seed * 7919 + 31 * ci + s for s in range(nseeds)], book) for ci, case in enumerate(cases)]
    return out, 'histories of real pipeline molecules'          # one worker per case: force fields loaded once, one TLC run


def finish(tier, sums, label, ev, vd):
    from . import c12
    by_event = c12.absorb(sums, ev, vd, '%d %s (%d-%d atoms)' % (len(sums), label, min(s['atoms'] for s in sums), max(s['atoms'] for s in sums)),
                          kind='real-history-rejected')
    need = {'Load', 'Merge', 'RemoveNodesFrom', 'Subgraph', 'ToMol', 'Copy', 'RemoveNode', 'GraphCopy', 'MakeEdges', 'SetSys', 'MergeAll',
            'MergeChains', 'MergeChainsAll', 'RemoveInter', 'AddOrReplace'}
    if need - set(by_event) and not vd.violations:          # (a rejected history ends at the rejected event)
        raise tlc.MachineryError('real histories: no accepted event of kind %s' % sorted(need - set(by_event)))
    try:
        ev.extra['shared_objects_observed'] = sharing_table()
    except Exception as exc:       # a measurement on fixed objects: a broken implementation may not even get that far
        ev.extra['shared_objects_observed'] = {'not measured': repr(exc)}


def replay(scenario):
    from . import c12
    case, seed = tuple(scenario['real']['case']), scenario['real']['seed']
    events, types, names, ffn = real_history(case, seed)
    for i, e in enumerate(events, 1):
        print(i, {k: (v if not isinstance(v, list) or len(v) < 16 else v[:16] + ['...']) for k, v in e.items() if k not in ('post', 'sys', 'parts')},
              'atoms per cell', [len(p[1]['nodes']) for p in e['post']], 'system', e['sys'])
    print('rejected event index', scenario.get('rejected_event_index'), scenario.get('why'))
    return 0


def selftest(seed, book):
    """A corrupted recording of a real history must be rejected at that event (one case per family of events)."""
    from . import c12
    events, types, names, ffn = real_history(QUICK_CASES[0], seed + 5)
    hists, expect = [events], [None]
    for kind, what in (('Merge', 'cg'), ('RemoveNodesFrom', 'dangling'), ('Subgraph', 'extra'), ('ToMol', 'key'), ('MergeAll', 'resid')):
        idx = max(i for i, e in enumerate(events) if e['ev'] == kind and e['err'] == 'none' and (e['ev'] != 'Merge' or e['m'] != 4))
        h = copy.deepcopy(events[:idx + 1])
        e = h[idx]
        tgt = e['m'] or e['sys'][0]
        p = dict((c, q) for c, q in e['post'])[tgt]
        if what == 'cg':
            p['nodes'][-1]['cg'] += 1
        elif what == 'resid':
            p['nodes'][-1]['resid'] += 1
        elif what == 'key':
            p['nodes'][0]['key'] += 1000
            for t in types:
                for it in p['inter'][t]:
                    it['atoms'] = [x + 1000 if x == p['nodes'][0]['key'] - 1000 else x for x in it['atoms']]
            p['edges'] = sorted(sorted(x + 1000 if x == p['nodes'][0]['key'] - 1000 else x for x in ed) for ed in p['edges'])
        elif what == 'extra':
            src = dict((c, q) for c, q in e['post'])[e['src']]
            inside = {n['key'] for n in p['nodes']}
            t, it = next((t, it) for t in types for it in src['inter'][t] if not set(it['atoms']) <= inside)
            p['inter'][t].append(it)                     # an interaction reaching outside the subgraph: dangling on the real object
        elif what == 'dangling':
            gone = e['ks'][0]
            keep = next(n['key'] for n in p['nodes'])
            p['inter'][types[0]].append({'atoms': [keep, gone], 'ver': 0, 'tag': 'x', 'edge': True})
        hists.append(h)
        expect.append((kind, what, idx + 1))
    _, _, verdicts, partial = c12.judge_batch(hists, book, types=types, edge_types=[t for t in types if t in EDGE_TYPES],
                                              cells=[1, 2, 3, 4], blocks=[4], names=names, sysff=ffn)
    assert not partial
    assert verdicts[1][:2] == (len(events), 'ok'), verdicts[1][:2]
    print('selftest C12: real history (%d events, up to %d atoms) accepted' % (len(events), max(len(p[1]['nodes']) for e in events for p in e['post'])))
    for ti, ex in enumerate(expect[1:], 2):
        reached, why, _ = verdicts[ti]
        assert reached == ex[2] - 1 and why != 'ok', (ex, reached, why)
        print('selftest C12: real history, %s tampered (%s): rejected at event %d: %s' % (ex[0], ex[1], ex[2], why[:70]))
    return 0
