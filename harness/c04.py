"""C04 - atoms are identified by connectivity, not by the names in the input  (+ the "after repair" clause of C19).

spec/SubIso.tla   induced embeddings / maximum common induced subgraph (shared with C06)
spec/Repair.tla   JudgeRepair: names unique; the map recognised atom -> block atom is an element- and bond-preserving (induced)
                  embedding; as many atoms recognised as a largest common subgraph (exactly for small residues, at least the
                  planted common part for large ones); every block atom present afterwards and bonded as in the block;
                  unrecognised atoms flagged (or, for a requested mutation, removed) - and nothing else

code -> spec: (a) random small blocks over {C, O, H} (trees and rings, 3-6 atoms): exact judgement; (b) every block with 3-40
atoms of the shipped atomistic force fields; both in presentations {names scrambled / junk names / names permuted, keys permuted
and sparse, k atoms deleted, extra atoms attached, requested mutation (also requested twice)}; several residues share one
molecule (and therefore one symmetry cache, as in a real run)."""
import multiprocessing as mp
import os
import random

from . import common, tlc

PID = 'C04'
ELEMENTS = {}


def ecode(el):
    return ELEMENTS.setdefault(el, len(ELEMENTS) + 1)


def block_graph(block):
    """Reference block as (names, elements, edges over indices 1..n); None if unusable."""
    from vermouth.graph_utils import add_element_attr
    import networkx as nx
    names = list(block.nodes)
    if len(set(block.nodes[n].get('atomname') for n in names)) != len(names):
        return None
    g = nx.Graph()
    g.add_nodes_from((n, dict(block.nodes[n])) for n in names)
    g.add_edges_from(block.edges)
    try:
        add_element_attr(g)
    except ValueError:
        return None
    if not nx.is_connected(g):
        return None
    idx = {n: i + 1 for i, n in enumerate(names)}
    return {'names': [g.nodes[n]['atomname'] for n in names], 'elements': [g.nodes[n]['element'] for n in names],
            'edges': [[idx[a], idx[b]] for a, b in g.edges]}


def present(bg, rng, key0, opts):
    """One presentation of a residue built from block graph bg. Returns atoms [(key, name, element, origin)], edges."""
    n = len(bg['names'])
    keep = set(range(1, n + 1))
    import networkx as nx
    if opts['delete']:
        k = rng.randint(1, max(1, min(opts['delete'], n - 2)))
        for _ in range(k):
            cand = sorted(keep)
            if len(cand) <= 2:
                break
            keep.discard(rng.choice(cand))
    order = sorted(keep)
    if opts['permute']:
        rng.shuffle(order)
    keys = {}
    k = key0
    for i in order:
        keys[i] = k
        k += rng.choice([1, 1, 2]) if opts['sparse'] else 1
    if opts['permute']:
        vals = list(keys.values())
        rng.shuffle(vals)
        keys = dict(zip(keys, vals))
    names = {i: bg['names'][i - 1] for i in keep}
    if opts['names'] == 'scramble':
        vals = list(names.values())
        rng.shuffle(vals)
        names = dict(zip(names, vals))
    elif opts['names'] == 'junk':
        names = {i: 'X%d' % j for j, i in enumerate(sorted(keep))}
    elif opts['names'] == 'allnames':            # names taken from the whole block, including those of deleted atoms
        pool = list(bg['names'])
        rng.shuffle(pool)
        names = {i: pool[j] for j, i in enumerate(sorted(keep))}
    atoms = [(keys[i], names[i], bg['elements'][i - 1], i) for i in order]
    edges = [[keys[a], keys[b]] for a, b in bg['edges'] if a in keep and b in keep]
    nextkey = max(keys.values()) + 1
    for _ in range(opts['extra']):
        anchor = rng.choice(sorted(keep))
        el = rng.choice(['O', 'H', 'P', 'C'])
        atoms.append((nextkey, rng.choice(['OX1', 'HZ9', 'P', 'CQ', bg['names'][0]]), el, 0))
        edges.append([keys[anchor], nextkey])
        nextkey += 1
    return atoms, edges, len(keep), nextkey


def run_molecule(residues, ff):
    """residues: list of dict(resname, atoms, edges, mutation). Real RepairGraph on one molecule holding all of them."""
    from vermouth.molecule import Molecule
    from vermouth.processors.repair_graph import RepairGraph
    mol = Molecule(force_field=ff)
    for ri, res in enumerate(residues, 1):
        for key, name, el, origin in res['atoms']:
            attrs = dict(atomname=name, element=el, resname=res['resname'], resid=ri, chain='A')
            if res.get('mutation'):
                attrs['mutation'] = list(res['mutation'])
            mol.add_node(key, **attrs)
        mol.add_edges_from(res['edges'])
    import logging

    class _Cap(logging.Handler):
        def __init__(self):
            super().__init__(level=logging.ERROR)
            self.n = 0

        def emit(self, record):
            if "Can't find isomorphism" in str(getattr(record.msg, 'fmt', record.msg)):
                self.n += 1
    cap = _Cap()
    logger = logging.getLogger('vermouth')
    logger.addHandler(cap)
    try:
        out = RepairGraph(include_graph=False).run_molecule(mol)
    finally:
        logger.removeHandler(cap)
    out.graph_verif_no_isomorphism_errors = cap.n
    return out


def events_for(residues, out, bgs, exact):
    events = []
    for ri, res in enumerate(residues, 1):
        bg = bgs[res['target']]
        name_idx = {nm: i + 1 for i, nm in enumerate(bg['names'])}
        originals = [a[0] for a in res['atoms']]
        assigned, flagged, removed, added, problems = [], [], [], [], []
        for key in originals:
            if key not in out:
                removed.append(key)
                continue
            d = out.nodes[key]
            if d.get('PTM_atom'):
                flagged.append(key)
            elif d.get('atomname') in name_idx:
                assigned.append([key, name_idx[d['atomname']]])
            else:
                problems.append('atom %s neither flagged nor given a block name (%r)' % (key, d.get('atomname')))
        members = [k for k, d in out.nodes(data=True) if d.get('resid') == ri]
        for key in members:
            if key not in originals:
                nm = out.nodes[key].get('atomname')
                if nm in name_idx:
                    added.append([key, name_idx[nm]])
                else:
                    problems.append('added atom %s has no block name (%r)' % (key, nm))
        mset = set(members)
        edges = [[a, b] for a, b in out.edges if a in mset and b in mset]
        if not ({a[2] for a in res['atoms']} & set(bg['elements'])) or \
                (not assigned and not added and not flagged and not removed and getattr(out, 'graph_verif_no_isomorphism_errors', 0)):
            # nothing in common with the reference block: vermouth reports an ERROR (which blocks the output) and leaves
            # the residue alone; the statement says nothing about this case
            events.append({'kind': 'inconclusive', 'what': ['no common atom with the reference', res['resname'], res['target']]})
            continue
        ev = {'kind': 'repair',
              'Ref': {'nodes': [[i + 1, ecode(el)] for i, el in enumerate(bg['elements'])], 'edges': [e + [0] for e in bg['edges']]},
              'R': {'nodes': [[a[0], ecode(a[2])] for a in res['atoms']], 'edges': [e + [0] for e in res['edges']]},
              'assigned': assigned, 'flagged': flagged, 'removed': removed, 'added': added, 'edges': edges,
              'exact': bool(exact), 'planted': res['planted'], 'mutated': bool(res.get('mutation')),
              'block': res['target'], 'presentation': res['opts'], 'problems': problems,
              'names_in': [a[1] for a in res['atoms']]}
        events.append(ev)
    return events


def random_block(rng, name):
    """A small synthetic block: random tree over C/O/H (+ sometimes one ring closure)."""
    n = rng.randint(3, 6)
    els = [rng.choice(['C', 'C', 'O', 'H']) for _ in range(n)]
    edges = [[rng.randint(1, i), i + 1] for i in range(1, n)]
    if n >= 4 and rng.random() < 0.4:
        a, b = rng.sample(range(1, n + 1), 2)
        if [min(a, b), max(a, b)] not in [[min(x), max(x)] for x in edges]:
            edges.append([min(a, b), max(a, b)])
    return {'names': ['%s%d' % (els[i], i) for i in range(n)], 'elements': els, 'edges': edges, 'name': name}


def make_ff(bgs):
    from vermouth.forcefield import ForceField
    from vermouth.molecule import Block
    ff = ForceField(name='verif_c04')
    for name, bg in bgs.items():
        b = Block(force_field=ff)
        b.name = name
        for nm, el in zip(bg['names'], bg['elements']):
            b.add_node(nm, atomname=nm, element=el, resname=name)
        b.add_edges_from((bg['names'][a - 1], bg['names'][b2 - 1]) for a, b2 in bg['edges'])
        ff.blocks[name] = b
    return ff


OPTS = [
    dict(names='keep', permute=False, sparse=False, delete=0, extra=0),
    dict(names='scramble', permute=False, sparse=False, delete=0, extra=0),
    dict(names='junk', permute=True, sparse=True, delete=0, extra=0),
    dict(names='scramble', permute=True, sparse=True, delete=2, extra=0),
    dict(names='allnames', permute=True, sparse=False, delete=3, extra=0),
    dict(names='keep', permute=True, sparse=True, delete=0, extra=1),
    dict(names='scramble', permute=True, sparse=True, delete=1, extra=2),
    dict(names='junk', permute=False, sparse=False, delete=2, extra=1),
    dict(names='junk', permute=False, sparse=False, delete=0, extra=0),
]


def _synthetic_chunk(args):
    n, seed = args
    rng = random.Random(seed)
    out_events = []
    for _ in range(n):
        bgs = {'B%d' % i: random_block(rng, 'B%d' % i) for i in range(1, 4)}
        if rng.random() < 0.6:
            # B2: the same skeleton as B1 with one element changed (e.g. ASP / ASN): presented with meaningless names in the
            # same order, the two residues differ only in the elements - and in the symmetries that follow from them
            twin = dict(bgs['B1'], elements=list(bgs['B1']['elements']), name='B2')
            j = rng.randrange(len(twin['elements']))
            twin['elements'][j] = rng.choice([e for e in ['C', 'O', 'N', 'H'] if e != twin['elements'][j]])
            twin['names'] = ['%s%d' % (el, i) for i, el in enumerate(twin['elements'])]
            bgs['B2'] = twin
        ff = make_ff(bgs)
        residues = []
        key0 = rng.choice([0, 3])
        for r in range(rng.randint(1, 3)):
            src = rng.choice(sorted(bgs))
            opts = dict(rng.choice(OPTS))
            target = src
            mutation = None
            if rng.random() < 0.2:
                target = rng.choice(sorted(bgs))
                mutation = [target] * rng.choice([1, 2])
                opts = dict(opts, extra=0)
            atoms, edges, kept, key0 = present(bgs[src], rng, key0, opts)
            residues.append({'resname': src, 'target': target, 'atoms': atoms, 'edges': edges, 'mutation': mutation, 'opts': opts,
                             'planted': kept if target == src else 0})
        try:
            out = run_molecule(residues, ff)
            out_events += events_for(residues, out, bgs, exact=True)
        except Exception as exc:      # noqa
            out_events.append({'kind': 'repair', 'crash': 'RepairGraph raised %r on %r' % (exc, [(r['resname'], r['opts'], r['mutation']) for r in residues]),
                               'Ref': {'nodes': [], 'edges': []}, 'R': {'nodes': [], 'edges': []}, 'assigned': [], 'flagged': [],
                               'removed': [], 'added': [], 'edges': [], 'exact': False, 'planted': 0, 'mutated': False, 'problems': []})
    return out_events


_REAL = None


def real_blocks():
    global _REAL
    if _REAL is None:
        from . import c04_real
        ffs = c04_real._load()['ffs']
        _REAL = {}
        for ffname in ('charmm', 'amber', 'gromos54a7', 'universal'):
            if ffname not in ffs:
                continue
            _FFS[ffname] = ffs[ffname]
            for name, block in ffs[ffname].blocks.items():
                if 3 <= len(block) <= 40:
                    bg = block_graph(block)
                    if bg:
                        _REAL[(ffname, name)] = bg
    return _REAL


_FFS = {}
CRASH_EVENT = {'kind': 'repair', 'Ref': {'nodes': [], 'edges': []}, 'R': {'nodes': [], 'edges': []}, 'assigned': [], 'flagged': [],
               'removed': [], 'added': [], 'edges': [], 'exact': False, 'planted': 0, 'mutated': False, 'problems': []}


def _real_task(conn, pair, seed):
    """One molecule made of the given real blocks; runs in its own process so that a runaway match can be killed."""
    rng = random.Random(seed)
    blocks = real_blocks()
    ffname = pair[0][0]
    ff = _FFS[ffname]
    residues, bgs, key0 = [], {}, 0
    for p in pair:
        bg = blocks[p]
        bgs[p[1]] = bg
        opts = dict(rng.choice(OPTS[:5] if len(bg['names']) > 20 else OPTS))
        if len(bg['names']) > 25:
            opts['delete'] = min(opts['delete'], 1)
        atoms, edges, kept, key0 = present(bg, rng, key0, opts)
        residues.append({'resname': p[1], 'target': p[1], 'atoms': atoms, 'edges': edges, 'mutation': None, 'opts': opts, 'planted': kept})
    try:
        out = run_molecule(residues, ff)
        evs = events_for(residues, out, bgs, exact=False)
        for e in evs:
            e['block'] = '%s/%s' % (ffname, e['block'])
        conn.send(evs)
    except Exception as exc:      # noqa
        conn.send([dict(CRASH_EVENT, crash='RepairGraph raised %r on %r' % (exc, pair))])
    conn.close()


def _struct_task(conn, case):
    """One real structure in one damaged presentation through the real front end (harness/c04_real.py)."""
    from . import c04_real
    try:
        rec = c04_real.run_case(case)
        evs = rec.events
        if rec.crash:
            evs = evs + [dict(CRASH_EVENT, crash='the front end raised %s on %r' % (rec.crash, case), info={'family': case['family']})]
        conn.send(evs)
    except Exception as exc:      # noqa
        import traceback
        conn.send([{'kind': 'inconclusive', 'what': ['harness error in a real-structure case', repr(case), traceback.format_exc()[-400:]], 'harness_error': True}])
    conn.close()


def run_killable(target, args, limit, what):
    """Run target(conn, *args) in its own forked process; a task exceeding `limit` seconds is killed and counted as inconclusive
    (the matcher is worst-case exponential and part of its work happens inside uninterruptible C calls)."""
    import shutil
    import tempfile
    import time
    ctx = mp.get_context('fork')
    parent, child = ctx.Pipe(duplex=False)
    taskdir = tempfile.mkdtemp(prefix='c04task_')          # the child's temporary files live here: a killed child cannot clean up itself
    proc = ctx.Process(target=_in_taskdir, args=(taskdir, target, child) + tuple(args))
    proc.start()
    child.close()
    t0 = time.time()
    try:
        while True:
            if parent.poll(0.02):
                try:
                    out = parent.recv()
                except EOFError:
                    out = [{'kind': 'inconclusive', 'what': what + ['worker died']}]
                proc.join()
                return out
            if not proc.is_alive():
                if parent.poll(0.05):
                    continue
                return [{'kind': 'inconclusive', 'what': what + ['worker died']}]
            if time.time() - t0 > limit:
                proc.kill()
                proc.join()
                return [{'kind': 'inconclusive', 'what': what + ['time limit']}]
    finally:
        parent.close()
        shutil.rmtree(taskdir, ignore_errors=True)


def _in_taskdir(taskdir, target, *args):
    import tempfile
    tempfile.tempdir = taskdir
    os.environ['TMPDIR'] = taskdir
    target(*args)


REPAIR_FIELDS = ('kind', 'Ref', 'R', 'assigned', 'flagged', 'removed', 'added', 'edges', 'exact', 'planted', 'mutated')


def _slim(e):
    if e['kind'] == 'repair':
        return {k: e[k] for k in REPAIR_FIELDS}
    from . import c04_real
    return c04_real.slim(e)


def judge_batch(events):
    """TLC on one batch -> (distinct, generated, {index: (verdict, note)})."""
    import shutil
    work = tlc.scratch('c04_')
    try:
        tf = tlc.write_json(work, 'trace.json', [_slim(e) for e in events])
        res = tlc.run('Trace_Repair', 'SPECIFICATION Spec\n', dump=True, env={'TRACE_FILE': tf}, workdir=work, workers=1, timeout=3400)
        verdicts = {st['tid']: (st['verdict'], st['note']) for st in res.states() if st['verdict'] != 'pending'}
        return res.distinct, res.generated, verdicts
    finally:
        shutil.rmtree(work, ignore_errors=True)


def _label(e):
    if e['kind'] != 'repair':
        return 'real:' + (e.get('info') or {}).get('family', '?')
    o = e.get('presentation') or {}
    return 'mutation' if e['mutated'] else '%s%s%s%s' % (o.get('names'), '+perm' if o.get('permute') else '',
                                                         '+del' if o.get('delete') else '', '+extra' if o.get('extra') else '')


def _nt_hash(case):
    import hashlib
    import json
    return hashlib.sha1(json.dumps(common.jsonable(case), sort_keys=True).encode()).hexdigest()[:16]


class Summary:
    """What a worker returns: counts, hashes of non-trivial cases, the (few) rejected events - never the events themselves."""
    def __init__(self):
        self.states = self.transitions = self.traces = self.events = 0
        self.nontrivial = set()
        self.fam = {}
        self.effects = {}            # family -> {effect: count}
        self.notes = {}
        self.unjudged = {}
        self.violations = []         # (kind, scenario, detail), at most 20
        self.nviol = 0
        self.inconclusive = 0
        self.inconclusive_examples = []
        self.harness_errors = []
        self.samples = {}

    def merge(self, o):
        for k in ('states', 'transitions', 'traces', 'events', 'nviol', 'inconclusive'):
            setattr(self, k, getattr(self, k) + getattr(o, k))
        self.nontrivial |= o.nontrivial
        for name in ('fam', 'notes', 'unjudged'):
            d = getattr(self, name)
            for k, v in getattr(o, name).items():
                d[k] = d.get(k, 0) + v
        for f, d in o.effects.items():
            t = self.effects.setdefault(f, {})
            for k, v in d.items():
                t[k] = t.get(k, 0) + v
        self.violations += o.violations
        self.inconclusive_examples = (self.inconclusive_examples + o.inconclusive_examples)[:8]
        self.harness_errors += o.harness_errors
        for k, v in o.samples.items():
            self.samples.setdefault(k, v)

    def violation(self, kind, scenario, detail):
        self.nviol += 1
        if len(self.violations) < 20:
            self.violations.append((kind, scenario, detail))


def judge_into(events, sm):
    """Judge a list of events (any kinds) and fold the result into the summary `sm`."""
    from . import c04_real
    for e in events:
        if e['kind'] == 'inconclusive':
            if e.get('harness_error'):
                sm.harness_errors.append(e['what'])
            sm.inconclusive += 1
            if "'structure'" in str(e['what'][0]):
                sm.notes['inconclusive-real-structure-case'] = sm.notes.get('inconclusive-real-structure-case', 0) + 1
            if len(sm.inconclusive_examples) < 8:
                sm.inconclusive_examples.append(e['what'])
    events = [e for e in events if e['kind'] != 'inconclusive']
    sm.events += len(events)
    rest = []
    for e in events:
        if e.get('crash') or e.get('problems'):
            sm.traces += 1
            sm.violation('repair-failed', {k: e[k] for k in e if k not in ('Ref', 'R')}, e.get('crash') or '; '.join(e['problems']))
        else:
            rest.append(e)
    if not rest:
        return
    d, g, verdicts = judge_batch(rest)
    sm.states += d
    sm.transitions += g
    for i, e in enumerate(rest, 1):
        sm.traces += 1
        v, note = verdicts.get(i, ('no-verdict', '-'))
        label = _label(e)
        sm.fam[label] = sm.fam.get(label, 0) + 1
        if e['kind'] == 'repair':
            if len(e['R']['nodes']) >= 3:
                sm.nontrivial.add(_nt_hash([e.get('block'), e['R'], e.get('names_in')]))
            if (e.get('presentation') or {}).get('delete') and e.get('added'):
                sm.samples.setdefault('block', {'kind': 'recorded repair judged by TLC', 'block': e['block'], 'presentation': e['presentation'],
                                                'names_in': e['names_in'], 'assigned': e['assigned'], 'added': e['added'], 'flagged': e['flagged']})
        else:
            fam = (e.get('info') or {}).get('family', '?')
            if e['kind'] == 'repairx':
                sm.notes[note] = sm.notes.get(note, 0) + 1
                if e.get('touched') and len(e['R']['nodes']) >= 3:
                    sm.nontrivial.add(_nt_hash([e['info'].get('structure'), e['where'], e['R'], e['names_in'], e['muts'], e['mods']]))
                if v == 'ok' and e.get('touched'):
                    fx = sm.effects.setdefault(fam, {})
                    for k in c04_real.effects(e):
                        fx[k] = fx.get(k, 0) + 1
                    if e['muts'] and [m for m in e['mods'] if m != 'none']:
                        fx['mutated-terminus'] = fx.get('mutated-terminus', 0) + 1
                    if 'readded' in c04_real.effects(e) and 'renamed' in c04_real.effects(e):
                        sm.samples.setdefault('real', {'kind': 'recorded repair of a real residue judged by TLC', 'where': e['where'], 'case': e['info'],
                                                       'names_in': e['names_in'], 'out': [[o['name'], o['ptm']] for o in e['out']], 'verdict rests on': note})
            elif e['kind'] == 'unknown' and v == 'ok':
                fx = sm.effects.setdefault(fam, {})
                fx['judged'] = fx.get('judged', 0) + 1
                if len(e['kept']) < len(e['mols']):
                    fx['dropped'] = fx.get('dropped', 0) + 1
        if v.startswith('unjudged:'):
            sm.unjudged[v] = sm.unjudged.get(v, 0) + 1
        elif v != 'ok':
            e['verdict'] = v
            sm.violation('trace-rejected', e, '%s %s %s: %s' % (e.get('block') or e.get('where'), label,
                                                                 (e.get('info') or {}).get('damage', ''), v))


def _worker(tasks, results, limits, wid):
    """Pulls tasks until the queue is empty, runs them, judges its own events in batches, returns one Summary."""
    import queue
    sm = Summary()
    buf = []
    try:
        while True:
            try:
                task = tasks.get(timeout=0.2)
            except queue.Empty:
                break
            if task[0] == 'syn':
                buf += _synthetic_chunk((task[1], task[2]))
            elif task[0] == 'pair':
                buf += run_killable(_real_task, (task[1], task[2]), limits[0], [list(p) for p in task[1]])
            elif task[0] == 'struct':
                buf += run_killable(_struct_task, (task[1],), limits[1], [repr(task[1])])
            elif task[0] == 'events':
                buf += task[1]
            if len(buf) >= 250:
                judge_into(buf, sm)
                buf = []
        if buf:
            judge_into(buf, sm)
        results.put(('ok', wid, sm))
    except tlc.MachineryError as exc:
        results.put(('machinery', wid, str(exc)[-3000:]))
    except Exception:      # noqa
        import traceback
        results.put(('machinery', wid, traceback.format_exc()[-3000:]))


def run_tasks(tasks, limits):
    """Distribute tasks over NCPU worker processes (non-daemonic: they fork killable children); collect the summaries."""
    import queue
    import time
    ctx = mp.get_context('fork')
    tq, rq = ctx.Queue(), ctx.Queue()
    for t in tasks:
        tq.put(t)
    n = min(tlc.NCPU, max(1, len(tasks)))
    procs = [ctx.Process(target=_worker, args=(tq, rq, limits, i)) for i in range(n)]
    for p in procs:
        p.start()
    total = Summary()
    got = 0
    dead_since = None
    while got < n:
        try:
            kind, wid, payload = rq.get(timeout=0.5)
        except queue.Empty:
            if all(not p.is_alive() for p in procs):
                dead_since = dead_since or time.time()
                if time.time() - dead_since > 5:
                    raise tlc.MachineryError('%d of %d C04 workers ended without a result' % (n - got, n))
            continue
        got += 1
        if kind != 'ok':
            for p in procs:
                p.is_alive() and p.kill()
            raise tlc.MachineryError('C04 worker %s failed: %s' % (wid, payload))
        total.merge(payload)
    for p in procs:
        p.join()
    return total


def struct_cases(tier, rng):
    """Real structures x damage families x bond modes (+ requests).  Every family appears in the quick tier."""
    from . import c04_real
    quick = tier == 'quick'
    fams = [f for f in c04_real.DAMAGE if f != 'as-shipped']
    structures = ['dipro', 'trpcage'] if quick else ['dipro', 'trpcage', 'sheet', 'helix', 'hst5', 'villin', '3i40', 'bpti', 'dipro+trpcage']
    cases = []
    for si, s in enumerate(structures):
        for fi, f in enumerate(fams):
            reps = 1 if quick else 3
            for r in range(reps):
                if quick and s == 'dipro' and (fi % 2):
                    continue
                bonds = 'distance' if (f in ('junk-all', 'junk-h', 'swap-equivalent', 'names-from-other') and (r + fi + si) % 2 == 0) else 'both'
                cases.append({'structure': s, 'family': f, 'seed': rng.randrange(10 ** 6), 'bonds': bonds})
        for combo in (['shuffle-order+junk-all+del-side-subset', 'junk-h+del-n-h-ca+extra-atoms'] if quick else
                      ['shuffle-order+junk-all+del-side-subset', 'junk-h+del-n-h-ca+extra-atoms', 'del-all-h+swap-equivalent+shuffle-order',
                       'names-from-other+del-beyond-cb', 'junk-all+extra-atoms', 'del-all-h+junk-all']):
            cases.append({'structure': s, 'family': combo, 'seed': rng.randrange(10 ** 6), 'bonds': rng.choice(['both', 'distance'])})
    # two chains, one with a residue name no block has: that molecule goes, the other stays
    cases.append({'structure': 'dipro+trpcage', 'family': 'unknown-resname', 'seed': rng.randrange(10 ** 6), 'bonds': 'both'})
    # requests: the reference is the requested block + modifications
    # (the matcher needs minutes for a large residue with hydrogens against a small block, e.g. TRP -> ALA: not generated)
    req = [('trpcage', [['A-SER14', 'ALA'], ['A-ASP9', 'GLY']], None, 'mutate'), ('trpcage', [['GLY', 'ALA'], ['A-PRO12', 'GLY']], None, 'mutate'),
           ('trpcage', [['TYR3', 'PHE'], ['TYR3', 'PHE']], None, 'mutate'),
           ('trpcage', [], [['ASP9', 'ASP-HD2'], ['A-LYS8', 'LYS-LSN'], ['cter', 'COOH-ter'], ['nter', 'NH2-ter']], 'modify'),
           ('dipro', [['PRO2', 'ALA']], [['nter', 'none'], ['cter', 'C-ter']], 'mutate'),
           # terminal residues: the reference is the target block patched with the terminus (once left OXT / HN2 / HN3 under the old name)
           ('trpcage', [['A-SER20', 'GLY'], ['A-ASN1', 'ALA']], None, 'mutate'), ('dipro', [['PRO2', 'GLY']], None, 'mutate')]
    if not quick:
        req += [('sheet', [['THR', 'VAL'], ['A-SER', 'CYS']], None, 'mutate'), ('helix', [['ALA', 'SER'], ['A-GLU', 'GLN']], None, 'mutate'),
                ('hst5', [['SER', 'THR'], ['GLY', 'ALA']], None, 'mutate'), ('hst5', [], [['LYS', 'LYS-LSN'], ['cter', 'COOH-ter'], ['nter', 'N-ter']], 'modify'),
                ('villin', [['A-PHE', 'TYR'], ['LEU', 'ILE']], None, 'mutate'), ('3i40', [['B-', 'GLY']], None, 'mutate'),
                ('3i40', [['A-CYS', 'SER'], ['B-CYS', 'ALA']], [['A-nter', 'NH2-ter'], ['cter', 'COOH-ter']], 'mutate'),
                ('helix', [], [['GLU', 'GLU-HE1'], ['A-ASP', 'ASP-HD1'], ['cter', 'C-ter'], ['nter', 'N-ter']], 'modify')]
    for s, muts, mods, fam in req:
        for damage in (('',) if quick else ('', 'junk-all', 'del-all-h', 'shuffle-order+junk-h')):
            case = {'structure': s, 'family': fam + ('+' + damage if damage else ''), 'seed': rng.randrange(10 ** 6),
                    'bonds': 'distance' if 'junk' in damage else 'both', 'muts': muts}
            if mods is not None:
                case['mods'] = mods
            cases.append(case)
    return cases, structures


def run(tier, seed, ev, vd):
    from . import c04_real
    ev.rule = ('synthetic blocks (3-6 atoms over C/O/H, trees and rings) judged exactly; every connected block with 3-40 uniquely '
               'named atoms of charmm / amber / gromos54a7 / universal, each in presentations from 8 option sets, 1-3 residues per '
               'molecule (shared symmetry cache); REAL STRUCTURES through read_system + MakeBonds + AnnotateMutMod + RepairGraph in '
               'damaged presentations (11 damage families and combinations, both bond modes, requested mutations / modifications). '
               'Non-trivial = residue with >= 3 atoms (real structures: a residue the damage or a request touched); distinct by '
               '(block or structure and residue, presented residue, input names, requests).')
    ev.assumptions = ['elements of block atoms are derived with vermouth.graph_utils.add_element_attr when the block does not give them',
                      'for residues above 7 atoms the size of the largest common subgraph is bounded from below by a common subgraph '
                      'known by construction (shipped blocks) or by a certificate TLC verifies (real structures: the names the real '
                      'RepairGraph gives the undamaged structure); where MakeBonds trusted a wrong atom name the certificate does not '
                      'verify and no lower bound is used (counted as "nocert" in the evidence)',
                      'residues whose missing part is disconnected from everything present are not generated',
                      'a requested modification that does not fit the block (an anchor atom the block does not have) and the same '
                      'modification requested twice (reference atom names repeat) are unspecified: not generated, verdict "unjudged"',
                      'matcher runs beyond the time limit are inconclusive, never violations',
                      'elements come from the element column of the PDB text (always written), not from the damaged names']
    quick = tier == 'quick'
    rng = random.Random(seed)
    blocks = sorted(real_blocks())                     # loads the force fields and bin/martinize2 once, before any fork
    cases, structures = struct_cases(tier, rng)
    base_events = []
    broken = set()
    for s in sorted(set(structures) | {c['structure'] for c in cases}):
        names, evs, crash = c04_real.baseline(s)
        for e in evs:
            e['touched'] = True
        base_events += evs
        if crash:       # the shipped structure itself makes the front end raise: reported like any other failed repair
            base_events.append(dict(CRASH_EVENT, crash='the front end raised %s on the undamaged structure %s' % (crash, s), info={'family': 'as-shipped'}))
        if crash or not names:
            if not evs and not crash:
                raise tlc.MachineryError('the undamaged structure %s gives no recorded RepairGraph run' % s)
            broken.add(s)       # its molecules were dropped / the run failed: the events above say so; no certificate, no damaged cases
    cases = [c for c in cases if c['structure'] not in broken]
    nsyn = 480 if quick else 12000
    if quick:
        blocks = rng.sample(blocks, min(len(blocks), 96))
        blocks.sort()
    reps = 1 if quick else 4
    tasks = [('struct', c) for c in cases]
    for r in range(reps):
        order = list(blocks)
        rng.shuffle(order)
        order.sort(key=lambda k: k[0])               # residues of one molecule come from one force field
        for i in range(0, len(order), 2):
            pair = [p for p in order[i:i + 2] if p[0] == order[i][0]]
            tasks.append(('pair', pair, seed * 7919 + len(tasks)))
    per = 30 if quick else 150
    tasks += [('syn', per, seed * 613 + i) for i in range(nsyn // per)]
    tasks += [('events', chunk) for chunk in common.chunks(base_events, 4)]
    sm = run_tasks(tasks, (6 if quick else 20, 25 if quick else 90))
    if sm.harness_errors:
        raise tlc.MachineryError('harness error in %d real-structure cases, e.g. %s' % (len(sm.harness_errors), sm.harness_errors[0]))
    ev.states += sm.states
    ev.transitions += sm.transitions
    ev.traces += sm.traces
    ev.evaluations += sm.traces
    ev.nontrivial |= sm.nontrivial
    for kind, scenario, detail in sm.violations:
        vd.violation(kind, scenario, detail)
    # vacuity: every damage family must have shown its effect in an accepted, judged residue
    missing = []
    for c in cases:
        for f in c['family'].split('+'):
            want = c04_real.MUST_SHOW.get(f)
            if want and not any(fx.get(want) for fam, fx in sm.effects.items() if f in fam.split('+')):
                missing.append('%s (no judged residue shows "%s")' % (f, want))
    if missing and not sm.nviol:
        raise tlc.MachineryError('vacuous real-structure families: %s; effects seen: %s' % (sorted(set(missing)), sm.effects))
    if not any(fx.get('mutated-terminus') for fx in sm.effects.values()) and not sm.nviol:
        raise tlc.MachineryError('no mutated terminal residue (mutation + modification on one residue) was judged')
    if not sm.notes.get('cert') and not sm.nviol:
        raise tlc.MachineryError('no certificate of a common subgraph was accepted by TLC: the lower bound was never exercised')
    ev.extra['events_by_presentation'] = sm.fam
    ev.extra['real_blocks_used'] = len(blocks)
    ev.extra['real_structure_cases'] = len(cases)
    ev.extra['real_structure_effects_in_accepted_residues'] = sm.effects
    ev.extra['real_structure_lower_bound'] = sm.notes
    ev.extra['unjudged'] = sm.unjudged
    ev.extra['inconclusive_matcher_timeouts'] = sm.inconclusive
    ev.extra['inconclusive_examples'] = sm.inconclusive_examples
    ev.tlc_runs.append({'run': 'TRACE Trace_Repair', 'events': sm.events})
    for s in sm.samples.values():
        ev.sample(s)


def replay(sc):
    info = sc.get('info') or {}
    if sc.get('kind') in ('repairx', 'molecule', 'unknown') and info.get('structure'):
        from . import c04_real
        c04_real._load()
        if info.get('family') == 'as-shipped':
            events = c04_real.baseline(info['structure'])[1]
        else:
            case = {'structure': info['structure'], 'family': info['family'], 'seed': info['seed'], 'bonds': info['bonds'], 'mods': info['mods'], 'muts': info['muts']}
            events = c04_real.run_case(case).events
        events = [e for e in events if e['kind'] == sc['kind'] and e.get('where') == sc.get('where')]
        d, g, verdicts = judge_batch(events)
        for i, e in enumerate(events, 1):
            print('now:', e['where'], info.get('damage'), verdicts.get(i))
            if e['kind'] == 'repairx':
                print('  names in :', e['names_in'])
                print('  names out:', [(o['name'], o['ptm']) for o in e['out']])
        return 0
    print({k: sc[k] for k in sc if k not in ('Ref', 'R')})
    return 0


def judge_events(events, ev, vd):
    """In-process judgement of a short list (selftest)."""
    sm = Summary()
    judge_into(events, sm)
    ev.traces += sm.traces
    ev.evaluations += sm.traces
    for kind, scenario, detail in sm.violations:
        vd.violation(kind, scenario, detail)
    return sm


def selftest(seed):
    import copy
    import os
    from . import c04_real
    events = [e for e in _synthetic_chunk((30, seed)) if not e.get('crash') and not e.get('problems') and len(e['assigned']) >= 3 and not e['mutated']]
    good = events[0]
    b1 = copy.deepcopy(events[1])
    b1['assigned'][0][1], b1['assigned'][1][1] = b1['assigned'][1][1], b1['assigned'][0][1]      # two names swapped
    b2 = copy.deepcopy(events[2])
    b2['flagged'] = b2['flagged'] + [b2['assigned'][0][0]]
    ev = common.Evidence(PID, 'quick', seed)
    vd = common.Verdicts(PID, ev)
    judge_events([good, b1, b2], ev, vd)
    assert len(vd.violations) == 2, vd.violations
    print('selftest C04: tampered repairs rejected:', [d.split(': ')[-1] for k, p, d in vd.violations])
    for k, p, d in vd.violations:
        os.path.exists(p) and os.remove(p)
    # real structures: one recorded run per family of tampering
    c04_real._load()
    c04_real.baseline('trpcage')
    for attempt in range(6):
        case = {'structure': 'trpcage', 'family': 'junk-all+del-side-subset+extra-atoms', 'seed': seed + 5 + attempt, 'bonds': 'distance',
                'muts': [['A-SER14', 'ALA']]}
        events = run_killable(_struct_task, (case,), 60, ['selftest case'])
        rx = [e for e in events if e['kind'] == 'repairx']
        plain = [e for e in rx if not e['muts'] and not e['mods']]
        if rx and all(any(want in c04_real.effects(e) for e in plain) for want in ('readded', 'marked', 'renamed')):
            break
    else:
        raise tlc.MachineryError('selftest: no real-structure case completed with all effects')
    class rec:      # noqa
        pass
    rec.events = events
    plain = [e for e in rx if not e['muts'] and not e['mods']]
    readd = next(e for e in plain if 'readded' in c04_real.effects(e))
    marked = next(e for e in plain if 'marked' in c04_real.effects(e))
    renamed = next(e for e in plain if 'renamed' in c04_real.effects(e))
    mutated = next(e for e in rx if e['muts'])
    term = next(e for e in rx if e['mods'])
    mol = next(e for e in rec.events if e['kind'] == 'molecule')
    unk = next(e for e in rec.events if e['kind'] == 'unknown')
    tampered = []

    def tamper(e, what, fn):
        t = copy.deepcopy(e)
        fn(t)
        t['info'] = dict(t['info'], family='selftest:' + what)
        tampered.append((what, t))
    orig = lambda e: {n[0] for n in e['R']['nodes']}                                       # noqa
    tamper(readd, 're-added atom dropped', lambda t: t['out'].remove(next(o for o in t['out'] if o['id'] not in orig(t))))
    tamper(readd, 'bond of a re-added atom moved', lambda t: t['edges'].remove(next(ed for ed in t['edges'] if not set(ed) <= orig(t))))
    tamper(marked, 'unknown atom not marked', lambda t: next(o for o in t['out'] if o['ptm']).update(ptm=False, name=t['blocks'][0]['names'][0]))
    tamper(marked, 'unknown atom given a junk name and not marked', lambda t: next(o for o in t['out'] if o['ptm']).update(ptm=False))

    def swap_names(t):
        rec_ = [o for o in t['out'] if not o['ptm']]
        a = next(o for o in rec_ if o['name'] == 'CA')
        b = next(o for o in rec_ if o['name'] == 'C')
        a['name'], b['name'] = b['name'], a['name']
    tamper(renamed, 'two canonical names exchanged', swap_names)
    tamper(renamed, 'input name kept', lambda t: next(o for o, nm in zip(t['out'], t['names_in']) if o['name'] != nm and not o['ptm']).update(name='X1'))
    tamper(renamed, 'recognised atom marked', lambda t: next(o for o in t['out'] if not o['ptm']).update(ptm=True))
    tamper(mutated, 'old side-chain atom kept', lambda t: t['out'].append({'id': next(k for k in orig(t) if k not in {o['id'] for o in t['out']}),
                                                                           'name': 'CG', 'ptm': True, 'resname': 'ALA'}))
    tamper(mutated, 'residue name not changed', lambda t: [o.update(resname=t['resname']) for o in t['out']])
    tamper(term, 'atom of the requested modification missing', lambda t: t['out'].remove(next(o for o in t['out'] if o['ptm'])))
    tamper(mol, 'bond between two residues lost', lambda t: t['outEdges'].remove(next(ed for ed in t['outEdges'] if ed in t['inEdges'] and
                                                                                      len({a['res'] for a in t['atoms'] if a['id'] in ed}) == 2)))
    tamper(unk, 'molecule dropped', lambda t: t['kept'].pop())
    ev = common.Evidence(PID, 'quick', seed)
    vd = common.Verdicts(PID, ev)
    sm = judge_events([readd, marked, renamed, mutated, term, mol, unk], ev, vd)
    assert not vd.violations and not sm.unjudged, (vd.violations, sm.unjudged)
    for what, t in tampered:
        ev = common.Evidence(PID, 'quick', seed)
        vd = common.Verdicts(PID, ev)
        judge_events([t], ev, vd)
        assert len(vd.violations) == 1, (what, vd.violations)
        print('selftest C04 (real structure): %-48s -> %s' % (what, vd.violations[0][2].split(': ')[-1]))
        for k, p, d in vd.violations:
            os.path.exists(p) and os.remove(p)
    return 0
