"""C04 - atoms are identified by connectivity, not by the names in the input  (+ the "after repair" clause of C19).

spec/SubIso.tla   induced embeddings / maximum common induced subgraph (shared with C06)
spec/Repair.tla   JudgeRepair: names unique; the map recognised atom -> block atom is an element- and bond-preserving (induced)
                  embedding; as many atoms recognised as a largest common subgraph (exactly for small residues, at least the
                  planted common part for large ones); every block atom present afterwards and bonded as in the block;
                  unrecognised atoms flagged (or, for a requested mutation, removed) - and nothing else

code -> spec: (a) random small blocks over {C, O, H} (trees and rings, 3-6 atoms): exact judgement; (b) every block with 3-40
atoms of the shipped atomistic force fields; both in presentations {names scrambled / junk names / names permuted, keys permuted
and sparse, k atoms deleted, extra atoms attached, requested mutation (also requested twice)}; several residues share one
molecule (and therefore one symmetry cache, as in a real run)."""
import multiprocessing as mp
import random

from . import common, tlc

PID = 'C04'
ELEMENTS = {}


def ecode(el):
    return ELEMENTS.setdefault(el, len(ELEMENTS) + 1)


def block_graph(block):
    """Reference block as (names, elements, edges over indices 1..n); None if unusable."""
    from vermouth.graph_utils import add_element_attr
    import networkx as nx
    names = list(block.nodes)
    if len(set(block.nodes[n].get('atomname') for n in names)) != len(names):
        return None
    g = nx.Graph()
    g.add_nodes_from((n, dict(block.nodes[n])) for n in names)
    g.add_edges_from(block.edges)
    try:
        add_element_attr(g)
    except ValueError:
        return None
    if not nx.is_connected(g):
        return None
    idx = {n: i + 1 for i, n in enumerate(names)}
    return {'names': [g.nodes[n]['atomname'] for n in names], 'elements': [g.nodes[n]['element'] for n in names],
            'edges': [[idx[a], idx[b]] for a, b in g.edges]}


def present(bg, rng, key0, opts):
    """One presentation of a residue built from block graph bg. Returns atoms [(key, name, element, origin)], edges."""
    n = len(bg['names'])
    keep = set(range(1, n + 1))
    import networkx as nx
    if opts['delete']:
        k = rng.randint(1, max(1, min(opts['delete'], n - 2)))
        for _ in range(k):
            cand = sorted(keep)
            if len(cand) <= 2:
                break
            keep.discard(rng.choice(cand))
    order = sorted(keep)
    if opts['permute']:
        rng.shuffle(order)
    keys = {}
    k = key0
    for i in order:
        keys[i] = k
        k += rng.choice([1, 1, 2]) if opts['sparse'] else 1
    if opts['permute']:
        vals = list(keys.values())
        rng.shuffle(vals)
        keys = dict(zip(keys, vals))
    names = {i: bg['names'][i - 1] for i in keep}
    if opts['names'] == 'scramble':
        vals = list(names.values())
        rng.shuffle(vals)
        names = dict(zip(names, vals))
    elif opts['names'] == 'junk':
        names = {i: 'X%d' % j for j, i in enumerate(sorted(keep))}
    elif opts['names'] == 'allnames':            # names taken from the whole block, including those of deleted atoms
        pool = list(bg['names'])
        rng.shuffle(pool)
        names = {i: pool[j] for j, i in enumerate(sorted(keep))}
    atoms = [(keys[i], names[i], bg['elements'][i - 1], i) for i in order]
    edges = [[keys[a], keys[b]] for a, b in bg['edges'] if a in keep and b in keep]
    nextkey = max(keys.values()) + 1
    for _ in range(opts['extra']):
        anchor = rng.choice(sorted(keep))
        el = rng.choice(['O', 'H', 'P', 'C'])
        atoms.append((nextkey, rng.choice(['OX1', 'HZ9', 'P', 'CQ', bg['names'][0]]), el, 0))
        edges.append([keys[anchor], nextkey])
        nextkey += 1
    return atoms, edges, len(keep), nextkey


def run_molecule(residues, ff):
    """residues: list of dict(resname, atoms, edges, mutation). Real RepairGraph on one molecule holding all of them."""
    from vermouth.molecule import Molecule
    from vermouth.processors.repair_graph import RepairGraph
    mol = Molecule(force_field=ff)
    for ri, res in enumerate(residues, 1):
        for key, name, el, origin in res['atoms']:
            attrs = dict(atomname=name, element=el, resname=res['resname'], resid=ri, chain='A')
            if res.get('mutation'):
                attrs['mutation'] = list(res['mutation'])
            mol.add_node(key, **attrs)
        mol.add_edges_from(res['edges'])
    import logging

    class _Cap(logging.Handler):
        def __init__(self):
            super().__init__(level=logging.ERROR)
            self.n = 0

        def emit(self, record):
            if "Can't find isomorphism" in str(getattr(record.msg, 'fmt', record.msg)):
                self.n += 1
    cap = _Cap()
    logger = logging.getLogger('vermouth')
    logger.addHandler(cap)
    try:
        out = RepairGraph(include_graph=False).run_molecule(mol)
    finally:
        logger.removeHandler(cap)
    out.graph_verif_no_isomorphism_errors = cap.n
    return out


def events_for(residues, out, bgs, exact):
    events = []
    for ri, res in enumerate(residues, 1):
        bg = bgs[res['target']]
        name_idx = {nm: i + 1 for i, nm in enumerate(bg['names'])}
        originals = [a[0] for a in res['atoms']]
        assigned, flagged, removed, added, problems = [], [], [], [], []
        for key in originals:
            if key not in out:
                removed.append(key)
                continue
            d = out.nodes[key]
            if d.get('PTM_atom'):
                flagged.append(key)
            elif d.get('atomname') in name_idx:
                assigned.append([key, name_idx[d['atomname']]])
            else:
                problems.append('atom %s neither flagged nor given a block name (%r)' % (key, d.get('atomname')))
        members = [k for k, d in out.nodes(data=True) if d.get('resid') == ri]
        for key in members:
            if key not in originals:
                nm = out.nodes[key].get('atomname')
                if nm in name_idx:
                    added.append([key, name_idx[nm]])
                else:
                    problems.append('added atom %s has no block name (%r)' % (key, nm))
        mset = set(members)
        edges = [[a, b] for a, b in out.edges if a in mset and b in mset]
        if not ({a[2] for a in res['atoms']} & set(bg['elements'])) or \
                (not assigned and not added and not flagged and not removed and getattr(out, 'graph_verif_no_isomorphism_errors', 0)):
            # nothing in common with the reference block: vermouth reports an ERROR (which blocks the output) and leaves
            # the residue alone; the statement says nothing about this case
            events.append({'kind': 'inconclusive', 'what': ['no common atom with the reference', res['resname'], res['target']]})
            continue
        ev = {'kind': 'repair',
              'Ref': {'nodes': [[i + 1, ecode(el)] for i, el in enumerate(bg['elements'])], 'edges': [e + [0] for e in bg['edges']]},
              'R': {'nodes': [[a[0], ecode(a[2])] for a in res['atoms']], 'edges': [e + [0] for e in res['edges']]},
              'assigned': assigned, 'flagged': flagged, 'removed': removed, 'added': added, 'edges': edges,
              'exact': bool(exact), 'planted': res['planted'], 'mutated': bool(res.get('mutation')),
              'block': res['target'], 'presentation': res['opts'], 'problems': problems,
              'names_in': [a[1] for a in res['atoms']]}
        events.append(ev)
    return events


def random_block(rng, name):
    """A small synthetic block: random tree over C/O/H (+ sometimes one ring closure)."""
    n = rng.randint(3, 6)
    els = [rng.choice(['C', 'C', 'O', 'H']) for _ in range(n)]
    edges = [[rng.randint(1, i), i + 1] for i in range(1, n)]
    if n >= 4 and rng.random() < 0.4:
        a, b = rng.sample(range(1, n + 1), 2)
        if [min(a, b), max(a, b)] not in [[min(x), max(x)] for x in edges]:
            edges.append([min(a, b), max(a, b)])
    return {'names': ['%s%d' % (els[i], i) for i in range(n)], 'elements': els, 'edges': edges, 'name': name}


def make_ff(bgs):
    from vermouth.forcefield import ForceField
    from vermouth.molecule import Block
    ff = ForceField(name='verif_c04')
    for name, bg in bgs.items():
        b = Block(force_field=ff)
        b.name = name
        for nm, el in zip(bg['names'], bg['elements']):
            b.add_node(nm, atomname=nm, element=el, resname=name)
        b.add_edges_from((bg['names'][a - 1], bg['names'][b2 - 1]) for a, b2 in bg['edges'])
        ff.blocks[name] = b
    return ff


OPTS = [
    dict(names='keep', permute=False, sparse=False, delete=0, extra=0),
    dict(names='scramble', permute=False, sparse=False, delete=0, extra=0),
    dict(names='junk', permute=True, sparse=True, delete=0, extra=0),
    dict(names='scramble', permute=True, sparse=True, delete=2, extra=0),
    dict(names='allnames', permute=True, sparse=False, delete=3, extra=0),
    dict(names='keep', permute=True, sparse=True, delete=0, extra=1),
    dict(names='scramble', permute=True, sparse=True, delete=1, extra=2),
    dict(names='junk', permute=False, sparse=False, delete=2, extra=1),
    dict(names='junk', permute=False, sparse=False, delete=0, extra=0),
]


def _synthetic_chunk(args):
    n, seed = args
    rng = random.Random(seed)
    out_events = []
    for _ in range(n):
        bgs = {'B%d' % i: random_block(rng, 'B%d' % i) for i in range(1, 4)}
        if rng.random() < 0.6:
            # B2: the same skeleton as B1 with one element changed (e.g. ASP / ASN): presented with meaningless names in the
            # same order, the two residues differ only in the elements - and in the symmetries that follow from them
            twin = dict(bgs['B1'], elements=list(bgs['B1']['elements']), name='B2')
            j = rng.randrange(len(twin['elements']))
            twin['elements'][j] = rng.choice([e for e in ['C', 'O', 'N', 'H'] if e != twin['elements'][j]])
            twin['names'] = ['%s%d' % (el, i) for i, el in enumerate(twin['elements'])]
            bgs['B2'] = twin
        ff = make_ff(bgs)
        residues = []
        key0 = rng.choice([0, 3])
        for r in range(rng.randint(1, 3)):
            src = rng.choice(sorted(bgs))
            opts = dict(rng.choice(OPTS))
            target = src
            mutation = None
            if rng.random() < 0.2:
                target = rng.choice(sorted(bgs))
                mutation = [target] * rng.choice([1, 2])
                opts = dict(opts, extra=0)
            atoms, edges, kept, key0 = present(bgs[src], rng, key0, opts)
            residues.append({'resname': src, 'target': target, 'atoms': atoms, 'edges': edges, 'mutation': mutation, 'opts': opts,
                             'planted': kept if target == src else 0})
        try:
            out = run_molecule(residues, ff)
            out_events += events_for(residues, out, bgs, exact=True)
        except Exception as exc:      # noqa
            out_events.append({'kind': 'repair', 'crash': 'RepairGraph raised %r on %r' % (exc, [(r['resname'], r['opts'], r['mutation']) for r in residues]),
                               'Ref': {'nodes': [], 'edges': []}, 'R': {'nodes': [], 'edges': []}, 'assigned': [], 'flagged': [],
                               'removed': [], 'added': [], 'edges': [], 'exact': False, 'planted': 0, 'mutated': False, 'problems': []})
    return out_events


_REAL = None


def real_blocks():
    global _REAL
    if _REAL is None:
        import vermouth.forcefield
        _REAL = {}
        for ffname in ('charmm', 'amber', 'gromos54a7', 'universal'):
            try:
                ff = vermouth.forcefield.get_native_force_field(ffname)
            except Exception:      # noqa
                continue
            for name, block in ff.blocks.items():
                if 3 <= len(block) <= 40:
                    bg = block_graph(block)
                    if bg:
                        _REAL[(ffname, name)] = bg
    return _REAL


_FFS = {}


def _real_task(conn, pair, seed):
    """One molecule made of the given real blocks; runs in its own process so that a runaway match can be killed."""
    rng = random.Random(seed)
    blocks = real_blocks()
    ffname = pair[0][0]
    ff = _FFS[ffname]
    residues, bgs, key0 = [], {}, 0
    for p in pair:
        bg = blocks[p]
        bgs[p[1]] = bg
        opts = dict(rng.choice(OPTS[:5] if len(bg['names']) > 20 else OPTS))
        if len(bg['names']) > 25:
            opts['delete'] = min(opts['delete'], 1)
        atoms, edges, kept, key0 = present(bg, rng, key0, opts)
        residues.append({'resname': p[1], 'target': p[1], 'atoms': atoms, 'edges': edges, 'mutation': None, 'opts': opts, 'planted': kept})
    try:
        out = run_molecule(residues, ff)
        evs = events_for(residues, out, bgs, exact=False)
        for e in evs:
            e['block'] = '%s/%s' % (ffname, e['block'])
        conn.send(evs)
    except Exception as exc:      # noqa
        conn.send([{'kind': 'repair', 'crash': 'RepairGraph raised %r on %r' % (exc, pair),
                    'Ref': {'nodes': [], 'edges': []}, 'R': {'nodes': [], 'edges': []}, 'assigned': [], 'flagged': [],
                    'removed': [], 'added': [], 'edges': [], 'exact': False, 'planted': 0, 'mutated': False, 'problems': []}])
    conn.close()


def run_real(pairs, seed, limit):
    """Run every task in its own forked process, at most NCPU at a time; a task exceeding `limit` seconds is killed and counted
    as inconclusive (the matcher is worst-case exponential and part of its work happens inside uninterruptible C calls)."""
    import time
    import vermouth.forcefield
    real_blocks()
    for ffname in {p[0][0] for p in pairs}:
        _FFS.setdefault(ffname, vermouth.forcefield.get_native_force_field(ffname))
    ctx = mp.get_context('fork')
    pending = list(enumerate(pairs))
    running = {}
    out_events = []
    while pending or running:
        while pending and len(running) < tlc.NCPU:
            i, pair = pending.pop()
            parent, child = ctx.Pipe(duplex=False)
            proc = ctx.Process(target=_real_task, args=(child, pair, seed * 7919 + i))
            proc.start()
            child.close()
            running[i] = (proc, parent, time.time(), pair)
        time.sleep(0.02)
        for i in list(running):
            proc, parent, t0, pair = running[i]
            if parent.poll():
                try:
                    out_events += parent.recv()
                except EOFError:
                    out_events.append({'kind': 'inconclusive', 'what': [list(p) for p in pair] + ['worker died']})
                proc.join()
                del running[i]
            elif not proc.is_alive():
                out_events.append({'kind': 'inconclusive', 'what': [list(p) for p in pair] + ['worker died']})
                del running[i]
            elif time.time() - t0 > limit:
                proc.kill()
                proc.join()
                out_events.append({'kind': 'inconclusive', 'what': [list(p) for p in pair]})
                del running[i]
    return out_events


def _judge(shard):
    work = tlc.scratch('c04_')
    keys = ('kind', 'Ref', 'R', 'assigned', 'flagged', 'removed', 'added', 'edges', 'exact', 'planted', 'mutated')
    tf = tlc.write_json(work, 'trace.json', [{k: e[k] for k in keys} for e in shard])
    res = tlc.run('Trace_Repair', 'SPECIFICATION Spec\n', dump=True, env={'TRACE_FILE': tf}, workdir=work, workers=1, timeout=3400)
    return res.distinct, res.generated, {st['tid']: st['verdict'] for st in res.states() if st['verdict'] != 'pending'}


def judge_events(events, ev, vd):
    inconclusive = [e for e in events if e['kind'] == 'inconclusive']
    ev.extra['inconclusive_matcher_timeouts'] = len(inconclusive)
    ev.extra['inconclusive_examples'] = [e['what'] for e in inconclusive[:5]]
    events = [e for e in events if e['kind'] != 'inconclusive']
    direct = [e for e in events if e.get('crash') or e.get('problems')]
    rest = [e for e in events if not (e.get('crash') or e.get('problems'))]
    for e in direct:
        ev.traces += 1
        ev.evaluations += 1
        vd.violation('repair-failed', {k: e[k] for k in e if k not in ('Ref', 'R')}, e.get('crash') or '; '.join(e['problems']))
    shards = common.chunks(rest, tlc.NCPU)
    with mp.Pool(len(shards)) as pool:
        outs = pool.map(_judge, shards)
    fam = {}
    for shard, (d, g, verdicts) in zip(shards, outs):
        ev.states += d
        ev.transitions += g
        for i, e in enumerate(shard, 1):
            ev.traces += 1
            ev.evaluations += 1
            v = verdicts.get(i, 'no-verdict')
            o = e.get('presentation') or {}
            label = 'mutation' if e['mutated'] else '%s%s%s%s' % (o.get('names'), '+perm' if o.get('permute') else '',
                                                                 '+del' if o.get('delete') else '', '+extra' if o.get('extra') else '')
            fam[label] = fam.get(label, 0) + 1
            if len(e['R']['nodes']) >= 3:
                ev.nontrivial_case([e.get('block'), e['R'], e.get('names_in')])
            if v != 'ok':
                vd.violation('trace-rejected', e, '%s %s: %s' % (e.get('block'), label, v))
    return fam


def run(tier, seed, ev, vd):
    ev.rule = ('synthetic blocks (3-6 atoms over C/O/H, trees and rings) judged exactly, and every connected block with 3-40 uniquely '
               'named atoms of charmm / amber / gromos54a7 / universal, each in presentations from 8 option sets; 1-3 residues per '
               'molecule (shared symmetry cache). Non-trivial = residue with >= 3 atoms; distinct by (block, presented residue).')
    ev.assumptions = ['elements of block atoms are derived with vermouth.graph_utils.add_element_attr when the block does not give them',
                      'for residues above 7 atoms the size of the largest common subgraph is bounded from below by the planted common '
                      'part instead of being computed exactly', 'modifications requested with -modify are not generated here (C14)',
                      'residues whose missing part is disconnected from everything present are not generated']
    quick = tier == 'quick'
    nsyn = 480 if quick else 12000
    blocks = sorted(real_blocks())
    rng = random.Random(seed)
    if quick:
        blocks = rng.sample(blocks, min(len(blocks), 96))
        blocks.sort()
    reps = 1 if quick else 4
    with mp.Pool(tlc.NCPU) as pool:
        syn = pool.map(_synthetic_chunk, [(nsyn // tlc.NCPU, seed * 613 + i) for i in range(tlc.NCPU)])
    pairs = []
    for r in range(reps):
        order = list(blocks)
        rng.shuffle(order)
        order.sort(key=lambda k: k[0])               # residues of one molecule come from one force field
        for i in range(0, len(order), 2):
            pair = [p for p in order[i:i + 2] if p[0] == order[i][0]]
            pairs.append(pair)
    real = run_real(pairs, seed, 6 if quick else 20)
    events = [e for p in syn for e in p] + real
    fam = judge_events(events, ev, vd)
    ev.extra['events_by_presentation'] = fam
    ev.extra['real_blocks_used'] = len(blocks)
    ev.tlc_runs.append({'run': 'TRACE Trace_Repair', 'events': len(events)})
    e0 = next(e for e in events if e['kind'] == 'repair' and (e.get('presentation') or {}).get('delete') and e.get('added'))
    ev.sample({'kind': 'recorded repair judged by TLC', 'block': e0['block'], 'presentation': e0['presentation'], 'names_in': e0['names_in'],
               'assigned': e0['assigned'], 'added': e0['added'], 'flagged': e0['flagged']})


def replay(sc):
    print({k: sc[k] for k in sc if k not in ('Ref', 'R')})
    return 0


def selftest(seed):
    import copy
    events = [e for e in _synthetic_chunk((30, seed)) if not e.get('crash') and not e.get('problems') and len(e['assigned']) >= 3 and not e['mutated']]
    good = events[0]
    b1 = copy.deepcopy(events[1])
    b1['assigned'][0][1], b1['assigned'][1][1] = b1['assigned'][1][1], b1['assigned'][0][1]      # two names swapped
    b2 = copy.deepcopy(events[2])
    b2['flagged'] = b2['flagged'] + [b2['assigned'][0][0]]
    ev = common.Evidence(PID, 'quick', seed)
    vd = common.Verdicts(PID, ev)
    judge_events([good, b1, b2], ev, vd)
    assert len(vd.violations) >= 1, vd.violations
    print('selftest C04: tampered repairs rejected:', [d.split(': ')[-1] for k, p, d in vd.violations])
    import os
    for k, p, d in vd.violations:
        os.path.exists(p) and os.remove(p)
    return 0
