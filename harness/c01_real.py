"""C01, generic form: projection of REAL vermouth objects (Molecule, Mapping of type block / modification) to the generic
records of spec/Mapping.tla (operators G*), recorder of one DoMapping run with apply_block_mapping AND apply_mod_mapping
interposed, and the real-data family: the martinize2 front end run in-process on the tier-0 structures with the shipped
force fields and mappings.

Nothing here decides anything: which mapping fits where, the order, the output and the warnings are computed by TLC
(Trace_Mapping!JudgeMapX).  Python projects attributes to canonical strings (numbers that compare equal in Python get equal
strings), renumbers mapping nodes by position (from-nodes in breadth-first order so that TLC's candidate filter can follow
bonds - a presentation choice without meaning), and scales the float weights to integers over one common denominator per
run (tolerance 1e-9, part of the verdict)."""
import logging
import math
import os
import shutil
from fractions import Fraction

from . import tlc

TIER0 = 'vermouth/tests/data/integration_tests/tier-0'
# (directory, target force field, modification requests as bin/martinize2 builds them from the test's command line)
REAL_CASES = [
    ('dipro-termini', 'martini3001', [['cter', 'COOH-ter'], ['nter', 'NH2-ter']]),
    ('mini-protein1_betasheet', 'martini22', [['cter', 'C-ter'], ['nter', 'N-ter']]),
    ('mini-protein2_helix', 'elnedyn21', [['nter', 'NH2-ter'], ['cter', 'COOH-ter']]),
    ('mini-protein3_trp-cage', 'elnedyn22', [['cter', 'C-ter'], ['nter', 'N-ter']]),
]
# thorough: the same structures towards the other shipped target force fields, and a phosphorylated tyrosine
REAL_MORE = [
    ('dipro-termini', 'martini22', [['cter', 'C-ter'], ['nter', 'N-ter']]),
    ('dipro-termini', 'elnedyn22', [['cter', 'COOH-ter'], ['nter', 'NH2-ter']]),
    ('mini-protein1_betasheet', 'martini3001', [['cter', 'C-ter'], ['nter', 'N-ter']]),
    ('mini-protein1_betasheet', 'elnedyn22p', [['cter', 'COOH-ter'], ['nter', 'NH2-ter']]),
    ('mini-protein2_helix', 'martini3001', [['cter', 'C-ter'], ['nter', 'N-ter']]),
    ('mini-protein2_helix', 'martini22p', [['cter', 'C-ter'], ['nter', 'N-ter']]),
    ('mini-protein3_trp-cage', 'martini3001', [['cter', 'COOH-ter'], ['nter', 'NH2-ter']]),
    ('mini-protein3_trp-cage', 'martini30b32', [['cter', 'C-ter'], ['nter', 'N-ter']]),
    ('mini-protein3_trp-cage', 'martini3IDP', [['cter', 'C-ter'], ['nter', 'N-ter']]),
]
PTYR_CASE = ('mini-protein3_trp-cage+TYRPHOS', 'martini22', [['cter', 'C-ter'], ['nter', 'N-ter']])


class Unsupported(Exception):
    """An object the generic form cannot express (stated in ev.assumptions); never a violation."""


def canon(v):
    """Canonical string of an attribute value: Python-equal numbers get equal strings."""
    if v is None:
        return 'None'
    if isinstance(v, (bool, int, float)):
        return 'n:%r' % float(v)
    if isinstance(v, str):
        return 's:' + v
    from vermouth.molecule import LinkPredicate
    if isinstance(v, LinkPredicate):
        raise Unsupported('LinkPredicate in a mapping from-node')
    return 'o:' + repr(v)


def modname(m):
    n = getattr(m, 'name', None)
    return n if isinstance(n, str) else '+'.join(str(x) for x in (n or ('?',)))


def _name_of(d):
    n = d.get('_old_atomname', d.get('atomname'))
    return n if isinstance(n, str) else '<%r>' % (n,)


def _bfs_order(graph):
    order, seen = [], set()
    for start in graph.nodes:
        if start in seen:
            continue
        queue = [start]
        seen.add(start)
        while queue:
            n = queue.pop(0)
            order.append(n)
            for nb in graph[n]:
                if nb not in seen:
                    seen.add(nb)
                    queue.append(nb)
    return order


def abstract_mapping(mp):
    """vermouth.map_parser.Mapping -> generic record (weights still Fractions / floats: scaled by scale_event)."""
    if mp.type not in ('block', 'modification'):
        raise Unsupported('mapping type %r' % (mp.type,))
    ismod = mp.type == 'modification'
    bf, bt = mp.block_from, mp.block_to
    if len(bf.nodes) == 0:
        raise Unsupported('mapping %r without from-nodes' % (mp.names,))
    names = [str(n) for n in mp.names]
    if ismod and (not names or len(set(names)) != len(names)):
        raise Unsupported('modification mapping with empty / repeated names %r' % (mp.names,))
    forder = _bfs_order(bf)
    fpos = {k: i for i, k in enumerate(forder, 1)}
    fnodes = []
    for k in forder:
        d = bf.nodes[k]
        if not isinstance(d.get('atomname'), str):
            raise Unsupported('from-node without atom name')
        if not ismod and 'modifications' in d:
            raise Unsupported('block mapping whose from-node carries modifications')
        resid = d.get('resid')
        fnodes.append({'resid': resid if isinstance(resid, int) and resid >= 0 else -1, 'name': _name_of(d),
                       'hasmods': 'modifications' in d, 'mods': [modname(m) for m in (d.get('modifications') or [])],
                       'attrs': [{'k': str(a), 'v': canon(v), 'falsy': not v} for a, v in d.items()
                                 if a not in ('atomname', 'modifications')]})
    fedges = sorted(sorted((fpos[a], fpos[b])) for a, b in bf.edges if a != b)
    torder = list(bt.nodes)
    tpos = {k: i for i, k in enumerate(torder, 1)}
    tnodes = []
    for k in torder:
        d = bt.nodes[k]
        rep = d.get('replace') or {}
        if ismod and 'atomname' in rep:
            raise Unsupported('modification that renames a particle')
        if not isinstance(d.get('atomname'), str):
            raise Unsupported('to-node without atom name')
        tnodes.append({'resid': int(d.get('resid', 1)), 'atomname': d['atomname'], 'atype': str(d.get('atype', '-')),
                       'ptm': bool(ismod and d.get('PTM_atom', False)), 'ratype': str(rep['atype']) if (ismod and 'atype' in rep) else '-'})
    tedges = sorted(sorted((tpos[a], tpos[b])) for a, b in bt.edges if a != b)
    inters = []
    for typ, lst in bt.interactions.items():
        for it in lst:
            inters.append({'type': typ, 'atoms': [tpos[a] for a in it.atoms], 'params': [str(p) for p in it.parameters],
                           'ver': int(it.meta.get('version', 0))})
    w = []
    for fk in forder:
        for tk, weight in mp.mapping.get(fk, {}).items():
            w.append([fpos[fk], tpos[tk], weight])
    return {'type': mp.type, 'names': names, 'from': {'nodes': fnodes, 'edges': [list(e) for e in fedges]},
            'to': {'nodes': tnodes, 'edges': [list(e) for e in tedges], 'inters': inters}, 'w': w}


def compared_keys(amaps):
    keys = set()
    for m in amaps:
        for n in m['from']['nodes']:
            keys.update(a['k'] for a in n['attrs'])
    return sorted(keys)


def abstract_molecule(mol, keys):
    nodes = []
    for k, d in mol.nodes(data=True):
        if not isinstance(k, int):
            raise Unsupported('non-integer atom key')
        nodes.append({'id': k, 'resid': int(d['resid']), 'name': _name_of(d), 'element': str(d.get('element', '')),
                      'hasmods': 'modifications' in d, 'mods': [modname(m) for m in (d.get('modifications') or [])],
                      'attrs': [[a, canon(d[a])] for a in keys if a in d]})
    edges = sorted([min(a, b), max(a, b)] for a, b in mol.edges if a != b)
    return {'nodes': nodes, 'edges': edges}


class _Capture(logging.Handler):
    def __init__(self):
        super().__init__(level=logging.DEBUG)
        self.records = []

    def emit(self, record):
        self.records.append(record)


def record_run(mol, mappings, ff_to, mp_list, attribute_keep=('cgsecstruct', 'chain', 'secstruct')):
    """Run the REAL DoMapping on `mol` with both apply_* functions interposed; returns (output molecule, record)."""
    import vermouth.processors.do_mapping as dm
    from vermouth.utils import format_atom_string
    index = {id(m.block_to): i for i, m in enumerate(mp_list, 1)}
    applied = []
    orig_b, orig_m = dm.apply_block_mapping, dm.apply_mod_mapping

    def spy_b(match, *args, **kw):
        applied.append({'m': index.get(id(match[1]), 0), 'kind': 'block', 'atoms': sorted(match[0])})
        return orig_b(match, *args, **kw)

    def spy_m(match, *args, **kw):
        applied.append({'m': index.get(id(match[1]), 0), 'kind': 'mod', 'atoms': sorted(match[0])})
        return orig_m(match, *args, **kw)
    dm.apply_block_mapping, dm.apply_mod_mapping = spy_b, spy_m
    logger = logging.getLogger('vermouth')
    cap = _Capture()
    logger.addHandler(cap)
    old = logger.level
    logger.setLevel(logging.DEBUG)
    out, raised = None, ''
    try:
        out = dm.DoMapping(mappings, ff_to, attribute_keep=attribute_keep, attribute_must=('resname',),
                           attribute_stash=('resid',)).run_molecule(mol)
    except Exception as exc:      # noqa
        raised = repr(exc)
    finally:
        dm.apply_block_mapping, dm.apply_mod_mapping = orig_b, orig_m
        logger.removeHandler(cap)
        logger.setLevel(old)
    rec = {'applied': applied, 'parts': [], 'edges': [], 'inters': [], 'warn_unmapped': False, 'unmapped_named': [],
           'warn_overlap': False, 'warn_modoverlap': False, 'n_nomodmap': 0, 'raised': bool(raised), 'problems': []}
    if raised:
        rec['problems'].append('DoMapping raised ' + raised)
    for r in cap.records:
        if r.levelno < logging.WARNING:
            continue
        typ = getattr(r, 'type', 'general')
        text = str(getattr(r.msg, 'fmt', r.msg))
        if typ == 'unmapped-atom' and text.startswith('These atoms are not covered'):
            rec['warn_unmapped'] = True
            listed = list(r.msg.args[0]) if getattr(r.msg, 'args', None) else []
            named = [k for k in mol.nodes if format_atom_string(mol.nodes[k]) in set(listed)]
            if len(named) != len(listed):
                rec['problems'].append('unmapped-atom warning names %d atoms, %d identified' % (len(listed), len(named)))
            rec['unmapped_named'] = named
        elif typ == 'unmapped-atom' and text.startswith("Can't find modification mappings"):
            rec['n_nomodmap'] += 1
        elif typ == 'inconsistent-data' and text.startswith('These atoms are covered by multiple blocks'):
            rec['warn_overlap'] = True
        elif typ == 'inconsistent-data' and text.startswith('Overlapping modification mappings'):
            rec['warn_modoverlap'] = True
    if out is None:
        return None, rec
    for key, d in out.nodes(data=True):
        w = d.get('mapping_weights')
        g = d.get('graph')
        if w is None or g is None or set(g.nodes) != set(w):
            rec['problems'].append('particle %s: graph attribute and mapping_weights missing or in disagreement' % (key,))
            w = w or {}
        mods = []
        for m in d.get('modifications', []) or []:
            if id(m) in index and index[id(m)] not in mods:
                mods.append(index[id(m)])
        old_resid = d.get('_old_resid')
        rec['parts'].append({'key': key, 'resid': d.get('resid') if isinstance(d.get('resid'), int) else -999,
                             'oldresids': [old_resid] if isinstance(old_resid, int) else [],
                             'atomname': d.get('atomname') if isinstance(d.get('atomname'), str) else '<%r>' % (d.get('atomname'),),
                             'atype': str(d.get('atype', '-')), 'mods': mods, 'cons': sorted([a, x] for a, x in w.items())})
    rec['edges'] = sorted([min(a, b), max(a, b)] for a, b in out.edges if a != b)
    for t, lst in out.interactions.items():
        for it in lst:
            rec['inters'].append({'type': t, 'atoms': list(it.atoms), 'params': [str(p) for p in it.parameters],
                                  'ver': int(it.meta.get('version', 0))})
    return out, rec


def scale_event(e):
    """Float weights (mappings and recorded mapping_weights) -> integers over one common denominator; tolerance 1e-9."""
    fr = {}

    def frac(x):
        if x not in fr:
            f = Fraction(x).limit_denominator(5040)
            if abs(float(f) - float(x)) > 1e-9 * max(1.0, abs(float(x))):
                raise Unsupported('weight %r is not a rational with a small denominator' % (x,))
            fr[x] = f
        return fr[x]
    den = 1
    for m in e['mps']:
        for t in m['w']:
            den = den * frac(t[2]).denominator // math.gcd(den, frac(t[2]).denominator)
    inexact = []
    for m in e['mps']:
        for t in m['w']:
            t[2] = int(frac(t[2]) * den)
            if abs(t[2]) >= 2 ** 31:
                raise Unsupported('scaled weight too large')
    for p in e['parts']:
        for c in p['cons']:
            v = float(c[1]) * den
            if abs(v - round(v)) > 1e-9 * max(1.0, abs(v)):
                inexact.append(p['key'])
            c[1] = int(round(v))
    e['wden'] = den
    if inexact:
        e['err'] = ((e.get('err') or '') + '; recorded weights of particles %s are not multiples of 1/%d' % (sorted(set(inexact)), den)).strip('; ')
    return e


def make_event(mol, mappings, ff_to, family, label, attribute_keep=('cgsecstruct', 'chain', 'secstruct')):
    """Project, run, record: one 'mapx' event for Trace_Mapping!JudgeMapX."""
    mp_list = list(mappings[mol.force_field.name][ff_to.name].values())
    amaps = [abstract_mapping(m) for m in mp_list]
    modnames = [tuple(m['names']) for m in amaps if m['type'] == 'modification']
    if len(set(modnames)) != len(modnames):
        raise Unsupported('two modification mappings with the same names')
    M = abstract_molecule(mol, compared_keys(amaps))
    out, rec = record_run(mol, mappings, ff_to, mp_list, attribute_keep)
    e = {'kind': 'mapx', 'family': family, 'label': label, 'M': M, 'mps': amaps, 'err': '; '.join(rec.pop('problems'))}
    e.update(rec)
    scale_event(e)
    return out, e


SLIM_DROP = ('family', 'label', 'err', 'wden', 'numbering', 'inexact', 'scenario')


def slim(e):
    """What TLC sees."""
    return {k: v for k, v in e.items() if k not in SLIM_DROP}


# ------------------------------------------------------------------------------------------------------------------
# real data: the martinize2 front end, in-process
_STATE = {}


def _load():
    if 'ffs' in _STATE:
        return _STATE
    from pathlib import Path
    import importlib.machinery
    import importlib.util
    from . import common
    import vermouth
    import vermouth.forcefield
    from vermouth.map_input import read_mapping_directory
    data = Path(vermouth.DATA_PATH)
    _STATE['ffs'] = vermouth.forcefield.find_force_fields(data / 'force_fields')
    _STATE['maps'] = read_mapping_directory(data / 'mappings', _STATE['ffs'])
    path = os.path.join(common.REPO, 'bin', 'martinize2')
    loader = importlib.machinery.SourceFileLoader('verif_martinize2', path)
    spec = importlib.util.spec_from_loader('verif_martinize2', loader)
    mod = importlib.util.module_from_spec(spec)
    vlog = logging.getLogger('vermouth')
    handlers = list(vlog.handlers)
    loader.exec_module(mod)                     # defines read_system / pdb_to_universal / martinize; entry() is not run
    for h in list(vlog.handlers):               # the script attaches its console handler at import time
        if h not in handlers:
            vlog.removeHandler(h)
    _STATE['m2'] = mod
    return _STATE


def _ptyr_pdb(src_path, work):
    """trp-cage with TYR 3 phosphorylated (atoms P1 O2 H2 O3 O4 of charmm's TYRPHOS placed on OH, HH removed)."""
    import numpy as np
    lines = open(src_path).read().splitlines()
    out, oh, cz = [], None, None
    for ln in lines:
        if ln.startswith('ATOM') and ln[17:20] == 'TYR':
            nm = ln[12:16].strip()
            xyz = np.array([float(ln[30:38]), float(ln[38:46]), float(ln[46:54])])
            if nm == 'OH':
                oh = (ln, xyz)
            if nm == 'CZ':
                cz = xyz
            if nm == 'HH':
                continue
        if not ln.startswith('CONECT'):
            out.append(ln)
    ln, o = oh
    d = (o - cz) / np.linalg.norm(o - cz)
    p = o + 1.6 * d
    u = np.cross(d, [1.0, 0.0, 0.0])
    u /= np.linalg.norm(u)
    v = np.cross(d, u)
    o2 = p + 1.5 * (0.33 * d + 0.94 * u)
    news = [('P1', 'P', p), ('O2', 'O', o2), ('H2', 'H', o2 + 0.97 * u), ('O3', 'O', p + 1.5 * (0.33 * d - 0.47 * u + 0.81 * v)),
            ('O4', 'O', p + 1.5 * (0.33 * d - 0.47 * u - 0.81 * v))]
    at = out.index(ln)
    for k, (nm, el, xyz) in enumerate(news):
        out.insert(at + 1 + k, ln[:12] + ' %-3s' % nm + ln[16:30] + '%8.3f%8.3f%8.3f' % tuple(xyz) + ln[54:76] + ' %s' % el)
    path = os.path.join(work, 'ptyr.pdb')
    with open(path, 'w') as fh:
        fh.write('\n'.join(out) + '\n')
    return path


def real_events(case):
    """Front end of bin/martinize2 (read_system, pdb_to_universal = MakeBonds, MergeNucleicStrands, AnnotateMutMod,
    RepairGraph, CanonicalizeModifications, AttachMass) on one structure, then one recorded DoMapping run per molecule."""
    from pathlib import Path
    from . import common
    name, to_ff, modifications = case
    st = _load()
    ffs, maps, m2 = st['ffs'], st['maps'], st['m2']
    vlog = logging.getLogger('vermouth')
    old = vlog.level
    vlog.setLevel(logging.ERROR)
    try:
        base = name.split('+')[0]
        path = os.path.join(common.REPO, TIER0, base, 'aa.pdb')
        work = None
        if '+TYRPHOS' in name:
            work = tlc.scratch('c01pdb_')
            path = _ptyr_pdb(path, work)
        try:
            system = m2.read_system(Path(path))
        finally:
            if work:
                shutil.rmtree(work, ignore_errors=True)       # pool workers do not run the atexit clean-up
        system = m2.pdb_to_universal(system, delete_unknown=True, force_field=ffs['charmm'],
                                     modifications=[list(x) for x in modifications])
    finally:
        vlog.setLevel(old)
    events = []
    for i, mol in enumerate(system.molecules):
        out, e = make_event(mol, maps, ffs[to_ff], 'real', '%s -> %s (molecule %d)' % (name, to_ff, i))
        e['scenario'] = {'case': [name, to_ff, modifications], 'molecule': i}
        events.append(e)
    return events


def _real_chunk(case):
    try:
        return [('ok', real_events(case))]
    except Unsupported as exc:
        return [('unsupported', '%s: %s' % (case[0], exc))]
