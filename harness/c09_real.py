"""C09 on REAL data: the real bin/martinize2 entry() in a forked child, the live system recorded right after DoAverageBead
(harness-side interposition on DoAverageBead.run_system) and the coordinates written to cg.pdb; TLC (spec/BeadTrace.tla over
spec/MeanWide.tla) judges every particle with the exact weighted mean in wide integer arithmetic.

Nothing here computes a mean.  Python builds inputs (PDB text), runs the real code, projects what it finds to JSON and converts
floats to exact integers:
  coordinates of atoms     0.001 A   (PDB inputs carry three decimals: exact; deviation > 1e-6 units -> 'inexact', never judged ok)
  mapping weights          rationals (denominator <= 5040, 1e-9) scaled to integers over one denominator PER PARTICLE
  centre weights (mass)    rationals (denominator <= 1000, 1e-9) scaled to integers over one denominator per particle
  stored particle position 1e-6 A    (rounded; TLC allows 1e-6 A against the exact mean)
  written coordinates      0.001 A   read from the fixed columns 31-54 of cg.pdb (TLC allows 0.5e-3 A + 1e-6 A against the stored one)
Families: cli (one run), pair (the same input rigidly moved: lattice rotation + translation), history (one DoAverageBead object
over the systems of two force fields, with and without a centre weight)."""
import contextlib
import io
import json
import math
import multiprocessing as mp
import os
import random
import shutil
import sys
import tempfile
import time
import traceback
from fractions import Fraction

from . import tlc
from . import c11_stages
from . import cli_c03

ROTATIONS = []
for _perm in ((1, 2, 3), (1, 3, 2), (2, 1, 3), (2, 3, 1), (3, 1, 2), (3, 2, 1)):
    _inv = sum(1 for i in range(3) for j in range(i + 1, 3) if _perm[i] > _perm[j])
    for _sg in ((1, 1, 1), (1, -1, -1), (-1, 1, -1), (-1, -1, 1), (1, 1, -1), (1, -1, 1), (-1, 1, 1), (-1, -1, -1)):
        if (-1) ** _inv * _sg[0] * _sg[1] * _sg[2] == 1:
            ROTATIONS.append((list(_perm), list(_sg)))
IDENT = {'perm': [1, 2, 3], 'sg': [1, 1, 1], 'sh': [0, 0, 0]}
MAXC = 1900000          # |coordinate| in 0.001 A that MeanWide accepts as a factor
BACKBONE = ('N', 'CA', 'C', 'O', 'OT1', 'OT2', 'OXT', 'O1', 'O2')


class Unsupported(Exception):
    pass


# ------------------------------------------------------------------------------------------------------------------ inputs
def _is_h(line):
    el = line[76:78].strip()
    name = line[12:16].strip()
    return el == 'H' or (not el and name.lstrip('0123456789').startswith('H'))


def make_input(spec, scratch):
    """spec: {'chains': 'P' | 'PS' | ..., 'ptyr': bool, 'tier1': name/file, 'noh': bool, 'drop': {'seed', 'n', 'mode'}}"""
    if spec.get('ptyr'):
        from . import c01_real
        src = os.path.join(cli_c03.TESTS, 'tier-0/mini-protein3_trp-cage', 'aa.pdb')
        path = c01_real._ptyr_pdb(src, scratch)
        text = open(path).read()
        os.unlink(path)
    elif spec.get('tier1'):
        text = open(os.path.join(cli_c03.TESTS, 'tier-1', spec['tier1'])).read()
    else:
        text = cli_c03.multichain_pdb(spec['chains'])
    lines = [ln for ln in text.splitlines() if not ln.startswith(('CONECT', 'ANISOU'))]
    if spec.get('noh'):
        keep = spec.get('noh_keep', '')      # e.g. 'H2': hydrogens with this name stay
        lines = [ln for ln in lines if not (ln.startswith(('ATOM', 'HETATM')) and _is_h(ln.ljust(80)) and ln[12:16].strip() != keep)]
    drop = spec.get('drop')
    if drop:
        rng = random.Random(drop['seed'])
        atoms = [i for i, ln in enumerate(lines) if ln.startswith('ATOM') and not _is_h(ln.ljust(80))]
        side = [i for i in atoms if lines[i][12:16].strip() not in BACKBONE]
        gone = set()
        if drop.get('mode') == 'sidechain':
            # every side-chain atom (with its hydrogens) of some residues: their side-chain particles have NO positioned constituent
            residues = sorted({lines[i][17:27] for i in side if lines[i][17:20] not in ('GLY', 'ALA', 'PRO')})
            for res in rng.sample(residues, min(drop['n'], len(residues))):
                gone.update(i for i, ln in enumerate(lines) if ln.startswith('ATOM') and ln[17:27] == res
                            and ln[12:16].strip() not in BACKBONE + ('H', 'HN', 'HA', 'HA1', 'HA2', 'H1', 'H2', 'H3'))
        elif drop.get('mode') == 'keepcb':
            # of some residues only CB is left of the side chain: in a hydrogen-free input their first side-chain particle has ONE
            # positioned constituent
            residues = sorted({lines[i][17:27] for i in side if lines[i][17:20] not in ('GLY', 'ALA', 'PRO')})
            for res in rng.sample(residues, min(drop['n'], len(residues))):
                gone.update(i for i, ln in enumerate(lines) if ln.startswith('ATOM') and ln[17:27] == res
                            and ln[12:16].strip() not in BACKBONE + ('CB', 'H', 'HN', 'HA', 'HA1', 'HA2', 'H1', 'H2', 'H3'))
        else:
            gone.update(rng.sample(side, min(drop['n'], len(side))))
        lines = [ln for i, ln in enumerate(lines) if i not in gone]
    return '\n'.join(lines) + '\n'


def move_text(text, motion):
    """The same structure rigidly moved: q[d] = sg[d] * p[perm[d]] + sh[d] (0.001 A), exactly, on the three decimals of the file."""
    perm, sg, sh = motion['perm'], motion['sg'], motion['sh']
    out = []
    for ln in text.splitlines():
        if ln.startswith(('ATOM', 'HETATM')):
            l = ln.ljust(80)
            c = [int(round(float(l[30:38]) * 1000)), int(round(float(l[38:46]) * 1000)), int(round(float(l[46:54]) * 1000))]
            m = [sg[d] * c[perm[d] - 1] + sh[d] for d in range(3)]
            if any(abs(v) > 9999999 or v < -999999 for v in m):
                raise Unsupported('moved coordinate does not fit the PDB columns')
            ln = (l[:30] + ''.join('%8.3f' % (v / 1000.0) for v in m) + l[54:]).rstrip()
        if not ln.startswith('CRYST1'):
            out.append(ln)
    return '\n'.join(out) + '\n'


# ------------------------------------------------------------------------------------------------------- projection (child)
def _ints(values, maxden, what):
    """Python numbers -> integers over ONE common denominator (tolerance 1e-9)."""
    fr = []
    for v in values:
        f = Fraction(float(v)).limit_denominator(maxden)
        if abs(float(f) - float(v)) > 1e-9 * max(1.0, abs(float(v))):
            raise Unsupported('%s %r is not a rational with a denominator <= %d' % (what, v, maxden))
        fr.append(f)
    den = 1
    for f in fr:
        den = den * f.denominator // math.gcd(den, f.denominator)
    return [int(f * den) for f in fr]


def _pos_int(pos, scale):
    """float nm -> integer in units of 1/scale nm; returns (ints, worst deviation in units)."""
    vals = [float(v) * scale for v in pos]
    return [int(round(v)) for v in vals], max(abs(v - round(v)) for v in vals)


def _has_pos(d):
    import numpy as np
    p = d.get('position')
    if p is None:
        return False
    try:
        return not bool(np.any(np.isnan(np.asarray(p, dtype=float))))
    except Exception:      # noqa
        return False


def project_particle(node, cwattr):
    """One particle of the live system -> the 'bead' record of BeadTrace (without the written coordinates)."""
    graph = node['graph']
    weights = node.get('mapping_weights')
    keys = list(graph.nodes)
    raw_w = [weights[k] for k in keys if weights is not None and k in weights]
    raw_c = [graph.nodes[k][cwattr] for k in keys if cwattr is not None and cwattr in graph.nodes[k]]
    int_w = iter(_ints(raw_w, 5040, 'mapping weight'))
    int_c = iter(_ints(raw_c, 1000, 'centre weight'))
    cons, inexact = [], 0.0
    for k in keys:
        d = graph.nodes[k]
        hasw = weights is not None and k in weights
        hascw = cwattr is not None and cwattr in d
        c = {'hasw': hasw, 'w': next(int_w) if hasw else 0, 'hascw': hascw, 'cw': next(int_c) if hascw else 0,
             'has': _has_pos(d), 'p': [0, 0, 0], 'name': str(d.get('atomname'))}
        if c['has']:
            c['p'], dev = _pos_int(d['position'], 1e4)
            inexact = max(inexact, dev)
            if max(abs(v) for v in c['p']) > MAXC:
                raise Unsupported('coordinate beyond +-1900 A')
        if c['w'] * max(1, c['cw']) >= 2 ** 31 or c['w'] < 0 or c['cw'] < 0:
            raise Unsupported('weights negative or too large')
        cons.append(c)
    e = {'kind': 'bead', 'role': 'mapped', 'cwon': cwattr is not None, 'cons': cons, 'isnan': not _has_pos(node), 'pf': [0, 0, 0],
         'dummy': 'charge_dummy' in node, 'anchor': {'isnan': True, 'pf': [0, 0, 0]},
         'wrcheck': True, 'haswr': False, 'wrnan': False, 'wr': [0, 0, 0],
         'inexact': inexact > 1e-6, 'nocw': cwattr is not None and any(not c['hascw'] for c in cons),
         'label': '%s%s:%s%s:%s' % (node.get('chain') or '', '', node.get('resname'), node.get('resid'), node.get('atomname')),
         'modmade': bool(cons) and all(graph.nodes[k].get('PTM_atom') for k in keys)}
    if not e['isnan']:
        e['pf'], _ = _pos_int(node['position'], 1e7)
        if max(abs(v) for v in e['pf']) > MAXC * 1000:
            raise Unsupported('particle beyond +-1900 A')
    return e


def project_system(system):
    """[(graph id, bead record)] for every particle that has constituents, in system order."""
    out = []
    for mi, mol in enumerate(system.molecules):
        cwattr = mol.force_field.variables.get('center_weight', None)
        for key in mol.nodes:
            node = mol.nodes[key]
            if 'graph' not in node:
                continue
            e = project_particle(node, cwattr)
            e['mol'] = mi
            e['ff'] = mol.force_field.name
            out.append((id(node['graph']), e))
    return out


def project_written(system):
    """The particles in the order write_pdb lists them (Molecule.sorted_nodes): graph id (None: no constituents), stored position."""
    out = []
    for mi, mol in enumerate(system.molecules):
        bb = mol.force_field.variables.get('bb_atomname', 'BB') if hasattr(mol.force_field, 'variables') else 'BB'
        anchors = {}
        for key in mol.nodes:
            d = mol.nodes[key]
            if 'graph' in d and d.get('atomname') == 'BB':
                anchors[(d.get('chain'), d.get('resid'))] = id(d['graph'])
        for key in mol.sorted_nodes:
            d = mol.nodes[key]
            rec = {'gid': id(d['graph']) if 'graph' in d else None, 'isnan': not _has_pos(d), 'pf': [0, 0, 0],
                   'name': str(d.get('atomname')), 'anchor': anchors.get((d.get('chain'), d.get('resid'))),
                   'label': '%s:%s%s:%s' % (d.get('chain') or '', d.get('resname'), d.get('resid'), d.get('atomname'))}
            if not rec['isnan']:
                rec['pf'], _ = _pos_int(d['position'], 1e7)
            out.append(rec)
    return out


def read_written(text):
    """cg.pdb -> [(nan?, [x, y, z] in 0.001 A)] of the ATOM / HETATM records, in file order (fixed columns, own reader)."""
    out = []
    for ln in text.splitlines():
        if ln.startswith(('ATOM', 'HETATM')):
            l = ln.ljust(54)
            fields = [l[30:38].strip(), l[38:46].strip(), l[46:54].strip()]
            if any(f.lower() in ('nan', '-nan') for f in fields):
                out.append((True, [0, 0, 0]))
            else:
                vals = []
                for f in fields:
                    sign = -1 if f.startswith('-') else 1
                    whole, _, frac = f.lstrip('+-').partition('.')
                    vals.append(sign * (int(whole or '0') * 1000 + int((frac + '000')[:3])))
                out.append((False, vals))
    return out


# ---------------------------------------------------------------------------------------------------------- the real command
def run_entry(text, options, extra_files=None):
    """Executed in a forked child: `martinize2 -f in.pdb -x cg.pdb -o topol.top -maxwarn 1000 <options>` with
    DoAverageBead.run_system and vermouth.pdb.write_pdb observed.  Returns {'rc', 'beads', 'problems', 'stderr', ...}."""
    root = tempfile.mkdtemp(prefix='c09cli_')
    cwd, argv0 = os.getcwd(), list(sys.argv)
    log = io.StringIO()
    out = {'rc': None, 'beads': [], 'problems': [], 'stderr': '', 'unsupported': '', 'n_avg_calls': 0, 'processors': 0, 'side_files': []}
    snap = {'avg': [], 'write': None}
    try:
        os.chdir(root)
        with open('in.pdb', 'w') as fh:
            fh.write(text)
        for name, body in (extra_files or {}).items():
            with open(name, 'w') as fh:
                fh.write(body)
        with contextlib.redirect_stderr(log), contextlib.redirect_stdout(log):
            cli = c11_stages.load_cli()
        c11_stages.use_preloaded(cli)
        import vermouth
        import vermouth.pdb
        from vermouth.processors.average_beads import DoAverageBead
        made = []
        orig_init = DoAverageBead.__init__

        def init(self, *a, **k):
            made.append(id(self))
            return orig_init(self, *a, **k)
        DoAverageBead.__init__ = init
        orig_run = DoAverageBead.run_system

        def run_system(self, system, *a, **k):
            res = orig_run(self, system, *a, **k)
            try:
                snap['avg'].append(project_system(system))
            except Unsupported as exc:
                out['unsupported'] = str(exc)
            return res
        DoAverageBead.run_system = run_system
        orig_write = vermouth.pdb.write_pdb

        def write_pdb(system, path, *a, **k):
            if str(path) == 'cg.pdb':
                snap['write'] = project_written(system)
            return orig_write(system, path, *a, **k)
        vermouth.pdb.write_pdb = write_pdb
        sys.argv = ['martinize2', '-f', 'in.pdb', '-x', 'cg.pdb', '-o', 'topol.top', '-maxwarn', '1000'] + list(options)
        rc = 0
        with contextlib.redirect_stderr(log), contextlib.redirect_stdout(log):
            try:
                cli.entry()
            except SystemExit as exc:
                rc = exc.code if isinstance(exc.code, int) else (0 if exc.code is None else 1)
            except Exception:      # noqa
                rc = 1
                log.write(traceback.format_exc()[-1200:])
        out['rc'] = rc
        out['processors'] = len(made)
        out['n_avg_calls'] = len(snap['avg'])
        out['side_files'] = sorted(n for n in os.listdir(root) if n not in ('in.pdb', 'cg.pdb', 'topol.top') and not n.endswith('.itp')
                                   and n not in (extra_files or {}))
        if rc != 0 or not os.path.exists('cg.pdb'):
            out['stderr'] = log.getvalue()[-1500:]
            return out
        if len(snap['avg']) != 1 or snap['write'] is None:
            out['problems'].append('DoAverageBead.run_system ran %d times, write_pdb(cg.pdb) %s' %
                                   (len(snap['avg']), 'seen' if snap['write'] else 'not seen'))
            return out
        written = read_written(open('cg.pdb').read())
        live = snap['write']
        if len(written) != len(live):
            out['problems'].append('cg.pdb lists %d particles, the system holds %d' % (len(written), len(live)))
            return out
        by_gid = {}
        for k, rec in enumerate(live):
            rec['wrnan'], rec['wr'] = written[k]
            if rec['gid'] is not None:
                by_gid[rec['gid']] = rec
        beads = []
        stored = {}
        for gid, e in snap['avg'][0]:
            stored[gid] = e
            rec = by_gid.get(gid)
            if rec is not None:
                e['haswr'], e['wrnan'], e['wr'] = True, rec['wrnan'], rec['wr']
            beads.append(e)
        for rec in live:
            if rec['gid'] is None:          # a particle without constituents: a virtual site added after the averaging
                anchor = stored.get(rec['anchor'])
                if anchor is None:
                    out['problems'].append('virtual site %s has no backbone particle in its residue' % rec['label'])
                    continue
                beads.append({'kind': 'bead', 'role': 'site', 'cwon': False, 'cons': [], 'isnan': rec['isnan'], 'pf': rec['pf'],
                              'dummy': False, 'anchor': {'isnan': anchor['isnan'], 'pf': anchor['pf']},
                              'wrcheck': True, 'haswr': True, 'wrnan': rec['wrnan'], 'wr': rec['wr'], 'inexact': False, 'nocw': False,
                              'label': rec['label'], 'modmade': False, 'mol': -1, 'ff': ''})
        out['beads'] = beads
        return out
    except Exception:          # noqa - a harness problem, never a violation
        out['problems'].append('harness: ' + traceback.format_exc()[-1500:])
        return out
    finally:
        sys.argv = argv0
        os.chdir(cwd)
        shutil.rmtree(root, ignore_errors=True)


def run_history(text, ffs, reuse=True):
    """Executed in a forked child: the front end of bin/martinize2 (read_system, pdb_to_universal) once, then for every target
    force field in `ffs` a copy of the system through the real DoMapping, and ALL these systems through ONE DoAverageBead object
    (reuse) in the order given.  Returns the bead records of every system."""
    root = tempfile.mkdtemp(prefix='c09hist_')
    cwd = os.getcwd()
    log = io.StringIO()
    out = {'rc': 0, 'beads': [], 'problems': [], 'stderr': '', 'unsupported': '', 'systems': []}
    try:
        os.chdir(root)
        with open('in.pdb', 'w') as fh:
            fh.write(text)
        from pathlib import Path
        with contextlib.redirect_stderr(log), contextlib.redirect_stdout(log):
            cli = c11_stages.load_cli()
            c11_stages.preload()
            pre = c11_stages._PRE
            import vermouth
            system = cli.read_system(Path('in.pdb'))
            aa = cli.pdb_to_universal(system, delete_unknown=True, force_field=pre['ffs']['charmm'],
                                      modifications=[], mutations=[])
            processor = vermouth.DoAverageBead(ignore_missing_graphs=True)
            for ff in ffs:
                cg = aa.copy()
                vermouth.DoMapping(mappings=pre['maps'], to_ff=pre['ffs'][ff], delete_unknown=True,
                                   attribute_keep=('cgsecstruct', 'chain', 'secstruct'), attribute_must=('resname',),
                                   attribute_stash=('resid',)).run_system(cg)
                (processor if reuse else vermouth.DoAverageBead(ignore_missing_graphs=True)).run_system(cg)
                beads = [e for _gid, e in project_system(cg)]
                for e in beads:
                    e['wrcheck'] = False       # nothing is written in this family
                    e['history'] = list(ffs)
                out['systems'].append({'ff': ff, 'center_weight': cg.force_field.variables.get('center_weight'), 'n': len(beads)})
                out['beads'] += beads
        return out
    except Unsupported as exc:
        out['unsupported'] = str(exc)
        return out
    except Exception:          # noqa
        out['rc'] = 1
        out['stderr'] = (log.getvalue()[-600:] + traceback.format_exc()[-1200:])
        return out
    finally:
        os.chdir(cwd)
        shutil.rmtree(root, ignore_errors=True)


def _child(conn, fn, args):
    try:
        conn.send(json.dumps(fn(*args)))
    except BaseException:      # noqa
        conn.send(json.dumps({'rc': None, 'beads': [], 'problems': ['harness child: ' + traceback.format_exc()[-1200:]],
                              'stderr': '', 'unsupported': ''}))
    finally:
        conn.close()


def forked(fn, args, timeout=600):
    """Run fn(*args) in a freshly forked process (module state of one command cannot leak into the next)."""
    ctx = mp.get_context('fork')
    recv, send = ctx.Pipe(duplex=False)
    proc = ctx.Process(target=_child, args=(send, fn, args))
    proc.start()
    send.close()
    try:
        if not recv.poll(timeout):
            proc.kill()
            raise tlc.MachineryError('C09: a martinize2 run did not finish within %d s' % timeout)
        data = recv.recv()
    except EOFError:
        raise tlc.MachineryError('C09: the forked martinize2 run died without an answer')
    finally:
        proc.join(5)
        if proc.is_alive():
            proc.kill()
    return json.loads(data)


# ------------------------------------------------------------------------------------------------------------------ judging
SLIM_BEAD = ('kind', 'role', 'cwon', 'cons', 'isnan', 'pf', 'wrcheck', 'haswr', 'wrnan', 'wr', 'dummy', 'anchor')
SLIM_CONS = ('hasw', 'w', 'hascw', 'cw', 'has', 'p')


def slim(e):
    if e['kind'] == 'bead':
        s = {k: e[k] for k in SLIM_BEAD}
        s['cons'] = [{k: c[k] for k in SLIM_CONS} for c in e['cons']]
        return s
    if e['kind'] == 'pair':
        return {'kind': 'pair', 'm': e['m'], 'cwon': e['cwon'],
                'a': {'cons': [{k: c[k] for k in SLIM_CONS} for c in e['a']['cons']], 'isnan': e['a']['isnan'], 'pf': e['a']['pf']},
                'b': {'cons': [{k: c[k] for k in SLIM_CONS} for c in e['b']['cons']], 'isnan': e['b']['isnan'], 'pf': e['b']['pf']}}
    return {k: e[k] for k in ('kind', 'cons', 'isnan', 'px', 'py', 'pz')}


def judge(events, timeout=3000):
    """One TLC process (BeadTrace) over the events; returns (distinct, generated, [verdict per event])."""
    if not events:
        return 0, 0, []
    work = tlc.scratch('c09r_')
    try:
        tf = tlc.write_json(work, 'trace.json', [slim(e) for e in events])
        res = tlc.run('BeadTrace', 'SPECIFICATION BSpec\n', dump=True, env={'TRACE_FILE': tf,
                      '_JAVA_OPTIONS': '-XX:TieredStopAtLevel=1 -XX:ParallelGCThreads=2 -XX:CICompilerCount=1'},
                      workdir=work, workers=1, timeout=timeout)
        got = {st['tid']: st['verdict'] for st in res.states() if st['verdict'] != 'pending'}
        return res.distinct, res.generated, [got.get(i, 'no-verdict') for i in range(1, len(events) + 1)]
    finally:
        shutil.rmtree(work, ignore_errors=True)


def pair_events(base, moved, motion):
    """The particles of the run on the input as shipped and of the run on the moved input, paired by position in the system."""
    a = [e for e in base if e['role'] == 'mapped']
    b = [e for e in moved if e['role'] == 'mapped']
    if len(a) != len(b):
        return None
    return [{'kind': 'pair', 'm': motion, 'cwon': x['cwon'], 'a': {'cons': x['cons'], 'isnan': x['isnan'], 'pf': x['pf']},
             'b': {'cons': y['cons'], 'isnan': y['isnan'], 'pf': y['pf']}, 'label': x['label'], 'inexact': x['inexact'] or y['inexact']}
            for x, y in zip(a, b)]


# ------------------------------------------------------------------------------------------------------------------ the plan
FF_ALL = ('martini3001', 'martini22', 'martini22p', 'elnedyn22', 'martini30b32')
WRITE3 = ['-write-graph', 'g.pdb', '-write-repair', 'r.pdb', '-write-canon', 'c.pdb']


def plan(tier, seed):
    """The cases.  The REQUIRED ones (and what they must show) do not depend on the seed; the seed picks the dropped atoms and
    the rigid motions."""
    rng = random.Random(seed * 7919 + 13)

    def motion():
        perm, sg = rng.choice(ROTATIONS[1:])
        return {'perm': perm, 'sg': sg, 'sh': [rng.choice([-7000, 0, 12000, 3500, -250]) for _ in range(3)]}
    d = lambda n, mode='atoms': {'seed': rng.randrange(10 ** 6), 'n': n, 'mode': mode}      # noqa
    cases = [
        # required (quick and thorough)
        {'id': 'm3-dipro', 'input': {'chains': 'P'}, 'opts': ['-ff', 'martini3001'], 'moves': [motion()]},
        {'id': 'm22-sheet-drop-write', 'input': {'chains': 'S', 'drop': d(4)}, 'opts': ['-ff', 'martini22'] + WRITE3, 'moves': []},
        {'id': 'm22p-helix-dummies', 'input': {'chains': 'H'}, 'opts': ['-ff', 'martini22p'], 'moves': [motion()]},
        {'id': 'el22-trp', 'input': {'chains': 'W'}, 'opts': ['-ff', 'elnedyn22'], 'moves': [motion()]},
        {'id': 'b32-trp-noh', 'input': {'chains': 'W', 'noh': True, 'drop': d(2, 'keepcb')}, 'opts': ['-ff', 'martini30b32'], 'moves': []},
        {'id': 'm3-sidechains-gone', 'input': {'chains': 'S', 'drop': d(3, 'sidechain')}, 'opts': ['-ff', 'martini3001'], 'moves': [motion()]},
        {'id': 'm3-sidechains-gone-write', 'input': {'chains': 'H', 'drop': d(2, 'sidechain')}, 'opts': ['-ff', 'martini3001'] + WRITE3, 'moves': []},
        {'id': 'm3-mutate', 'input': {'chains': 'H'}, 'opts': ['-ff', 'martini3001', '-mutate', 'A-GLY29:SER', '-mutate', 'A-ALA7:TRP', '-mutate', 'A-ALA21:TRP', '-mutate', 'A-ALA24:TRP', '-mutate', 'A-ALA28:PHE', '-mutate', 'A-ALA35:TYR'], 'moves': []},
        {'id': 'm3-chains', 'input': {'chains': 'PSP'}, 'opts': ['-ff', 'martini3001'], 'moves': []},
        {'id': 'm3-go', 'input': {'chains': 'W'}, 'opts': ['-ff', 'martini3001', '-go', '-ss', 'C' * 20], 'moves': []},
        {'id': 'm3-go-write', 'input': {'chains': 'S'}, 'opts': ['-ff', 'martini3001', '-go', '-go-write-file', 'contacts.out', '-ss', 'C' * 29],
         'moves': [{'perm': ROTATIONS[1][0], 'sg': ROTATIONS[1][1], 'sh': [12000, -7000, 3500]}]},
        {'id': 'm3-water-bias', 'input': {'chains': 'W'}, 'opts': ['-ff', 'martini3001', '-ss', 'CHHHHHHHCCCCCCCCCCCC', '-water-bias',
                                                                    '-water-bias-eps', 'H:3.6', 'C:2.1'], 'moves': []},
        {'id': 'm22-ptyr', 'input': {'ptyr': True, 'noh': True, 'noh_keep': 'H2'}, 'opts': ['-ff', 'martini22'], 'moves': []},
        {'id': 'hist-m3-b32', 'history': ['martini3001', 'martini30b32'], 'input': {'chains': 'W', 'drop': d(3)}},
        {'id': 'hist-b32-m3', 'history': ['martini30b32', 'martini3001'], 'input': {'chains': 'S'}},
        {'id': 'el22-dipro-drop', 'input': {'chains': 'P', 'drop': d(2)}, 'opts': ['-ff', 'elnedyn22'] + WRITE3, 'moves': [motion()]},
        {'id': 'm3-villin', 'input': {'tier1': 'villin/aa.pdb'}, 'opts': ['-ff', 'martini3001'], 'moves': [motion()]},
        {'id': 'el22-hst5-drop-write', 'input': {'tier1': 'hst5/aa.pdb', 'drop': d(5)}, 'opts': ['-ff', 'elnedyn22'] + WRITE3, 'moves': []},
        {'id': 'm22-helix-sidechains-gone', 'input': {'chains': 'H', 'drop': d(3, 'sidechain')}, 'opts': ['-ff', 'martini22'], 'moves': [motion()]},
        {'id': 'm22p-trp-drop-write', 'input': {'chains': 'W', 'drop': d(4)}, 'opts': ['-ff', 'martini22p'] + WRITE3, 'moves': []},
        {'id': 'b32-chains-drop', 'input': {'chains': 'PW', 'drop': d(4)}, 'opts': ['-ff', 'martini30b32'], 'moves': [motion()]},
        {'id': 'm22p-sheet-noh', 'input': {'chains': 'S', 'noh': True, 'drop': d(2, 'keepcb')}, 'opts': ['-ff', 'martini22p'], 'moves': []},
    ]
    if tier != 'quick':
        k = 0
        for ff in (FF_ALL + ('martini3IDP', 'elnedyn21', 'elnedyn22p')) * 3:
            for code in ('P', 'S', 'H', 'W', 'SW'):
                for variant in ('plain', 'noh', 'drop', 'sidechain', 'drop', 'sidechain', 'keepcb'):
                    k += 1
                    inp = {'chains': code}
                    if variant == 'noh':
                        inp['noh'] = True
                    elif variant == 'drop':
                        inp['drop'] = d(rng.randint(1, 6))
                    elif variant == 'sidechain':
                        inp['drop'] = d(rng.randint(1, 3), 'sidechain')
                    elif variant == 'keepcb':
                        inp['noh'] = True
                        inp['drop'] = d(rng.randint(1, 3), 'keepcb')
                    cases.append({'id': 'grid-%s-%s-%s-%d' % (ff, code, variant, k), 'input': inp,
                                  'opts': ['-ff', ff] + (WRITE3 if k % 3 == 0 else []), 'moves': [motion()] if k % 2 == 0 else []})
        for name in ('1UBQ/aa.pdb', 'villin/aa.pdb', 'hst5/aa.pdb', 'bpti/aa.pdb', '3i40/3i40.pdb'):
            for ff in FF_ALL:
                cases.append({'id': 'tier1-%s-%s' % (name.split('/')[0], ff), 'input': {'tier1': name}, 'opts': ['-ff', ff],
                              'moves': [motion()] if ff in ('martini3001', 'elnedyn22') else []})
                cases.append({'id': 'tier1-%s-%s-drop' % (name.split('/')[0], ff), 'input': {'tier1': name, 'drop': d(8)},
                              'opts': ['-ff', ff] + WRITE3, 'moves': []})
        for a, b in (('martini3001', 'martini30b32'), ('martini30b32', 'martini22'), ('elnedyn22', 'martini30b32'), ('martini30b32', 'martini3001')):
            for code in ('P', 'H', 'SW'):
                cases.append({'id': 'hist-%s-%s-%s' % (a, b, code), 'history': [a, b, a], 'input': {'chains': code, 'drop': d(2)}})
        for ff in FF_ALL[1:]:
            cases.append({'id': 'mutate-%s' % ff, 'input': {'chains': 'H'}, 'moves': [motion()],
                          'opts': ['-ff', ff, '-mutate', 'A-ALA7:TRP', '-mutate', 'A-ALA21:HIS', '-mutate', 'A-GLY30:LEU']})
        cases.append({'id': 'm22-ptyr-full', 'input': {'ptyr': True}, 'opts': ['-ff', 'martini22'], 'moves': []})
        cases.append({'id': 'el22-ptyr-full', 'input': {'ptyr': True}, 'opts': ['-ff', 'elnedyn22'], 'moves': []})
        cases.append({'id': 'm3-go-ubq', 'input': {'tier1': '1UBQ/aa.pdb'}, 'opts': ['-ff', 'martini3001', '-go', '-ss', 'C' * 76], 'moves': []})
    return cases


# ---------------------------------------------------------------------------------------------------------------- one worker
def run_case(case, scratch):
    """All runs of one case -> (events, notes).  notes: {'failed': [...], 'unsupported': [...], 'harness': [...], 'facts': {...}}"""
    notes = {'failed': [], 'unsupported': [], 'harness': [], 'facts': {}}
    events = []
    try:
        text = make_input(case['input'], scratch)
    except Unsupported as exc:
        notes['unsupported'].append(str(exc))
        return events, notes

    def collect(rec, run, txt):
        if rec.get('unsupported'):
            notes['unsupported'].append('%s/%s: %s' % (case['id'], run, rec['unsupported']))
            return None
        if rec['problems']:
            bad = [p for p in rec['problems'] if p.startswith('harness')]
            (notes['harness'] if bad else notes['failed']).append({'case': case['id'], 'run': run, 'what': rec['problems'], 'input': txt})
            return None
        if rec['rc'] != 0:
            notes['failed'].append({'case': case['id'], 'run': run, 'what': ['martinize2 ended with %r' % rec['rc'], rec['stderr'][-700:]],
                                    'input': txt})
            return None
        for i, e in enumerate(rec['beads']):
            e['scenario'] = {'case': case, 'run': run, 'index': i}
            e['family'] = 'history' if 'history' in case else 'cli'
        return rec['beads']

    if 'history' in case:
        rec = forked(run_history, (text, case['history']))
        beads = collect(rec, 'history', text)
        if beads is not None:
            events += beads
            notes['facts']['history'] = rec.get('systems')
        return events, notes
    rec = forked(run_entry, (text, case['opts']))
    base = collect(rec, 'base', text)
    if base is None:
        return events, notes
    notes['facts']['side_files'] = rec.get('side_files')
    events += base
    for k, m in enumerate(case.get('moves', [])):
        try:
            mtext = move_text(text, m)
        except Unsupported as exc:
            notes['unsupported'].append(str(exc))
            continue
        rec2 = forked(run_entry, (mtext, case['opts']))
        moved = collect(rec2, 'move%d' % k, mtext)
        if moved is None:
            continue
        events += moved
        pairs = pair_events(base, moved, m)
        if pairs is None:
            notes['failed'].append({'case': case['id'], 'run': 'move%d' % k, 'input': mtext,
                                    'what': ['the moved input gives %d particles, the input as shipped %d' % (len(moved), len(base))]})
            continue
        for i, p in enumerate(pairs):
            p['scenario'] = {'case': case, 'run': 'pair%d' % k, 'index': i}
            p['family'] = 'pair'
        events += pairs
    return events, notes


FAMILIES = ('cli-particles', 'written-compared', 'null-weight', 'fractional-or-unequal-weights', 'unpositioned-constituent',
            'undefined-position', 'mass-weighted', 'no-centre-weight', 'charge-dummy', 'virtual-site', 'modification-particle',
            'pairs', 'history-particles', 'single-positioned-constituent', 'undefined-with-a-positioned-null-weight-atom', 'write-options-given')


def classify(e, fam):
    if e['kind'] == 'pair':
        fam['pairs'] += 1
        return
    if e['role'] == 'site':
        fam['virtual-site'] += 1
        return
    cons = e['cons']
    if e.get('family') == 'history':
        fam['history-particles'] += 1
    else:
        fam['cli-particles'] += 1
        fam['written-compared'] += bool(e['haswr'] and not e['dummy'])
        fam['charge-dummy'] += bool(e['dummy'])
    ws = {c['w'] for c in cons if c['has']}
    fam['null-weight'] += any(c['w'] == 0 and c['hasw'] for c in cons)
    fam['fractional-or-unequal-weights'] += len(ws - {0}) > 1
    fam['unpositioned-constituent'] += any(not c['has'] for c in cons)
    fam['undefined-position'] += bool(e['isnan'])
    fam['mass-weighted'] += bool(e['cwon'] and len({c['cw'] for c in cons}) > 1)
    fam['no-centre-weight'] += not e['cwon']
    fam['modification-particle'] += bool(e.get('modmade'))
    fam['undefined-with-a-positioned-null-weight-atom'] += bool(e['isnan'] and not e['dummy'] and any(c['has'] for c in cons))
    fam['single-positioned-constituent'] += sum(1 for c in cons if c['has']) == 1 and not e['isnan']


def worker(args):
    """Runs AND judges its share of the cases; returns a summary (no event lists travel back except violations and samples)."""
    cases, wid = args
    scratch = tempfile.mkdtemp(prefix='c09w_')
    t0 = time.time()
    summary = {'fam': {k: 0 for k in FAMILIES}, 'violations': [], 'machinery': [], 'unsupported': [], 'states': 0, 'transitions': 0,
               'events': 0, 'nontrivial': [], 'samples': [], 'cases': [], 'verdicts': {}, 'unjudged': 0, 'history': []}
    try:
        events = []
        for case in cases:
            tc = time.time()
            ev, notes = run_case(case, scratch)
            summary['case_wall'] = summary.get('case_wall', []) + [[case['id'], round(time.time() - tc, 1)]]
            for e in ev:
                e['case_id'] = case['id']
            events += ev
            summary['unsupported'] += notes['unsupported']
            summary['machinery'] += [json.dumps(h)[:1500] for h in notes['harness']]
            for f in notes['failed']:
                summary['violations'].append(('command-failed', {'case': case, 'run': f['run'], 'input': f['input']}, '; '.join(f['what'])[:900]))
            if case['id'].endswith('write') or '-write-graph' in case.get('opts', []):
                side = notes['facts'].get('side_files') or []
                if all(n in side for n in ('g.pdb', 'r.pdb', 'c.pdb')):
                    summary['fam']['write-options-given'] += 1
            if notes['facts'].get('history'):
                summary['history'].append(notes['facts']['history'])
            summary['cases'].append([case['id'], len(ev)])
        d, g, verdicts = judge(events)
        summary['states'], summary['transitions'], summary['events'] = d, g, len(events)
        for e, v in zip(events, verdicts):
            if e.get('inexact') and v == 'ok':
                v = 'unjudged:input-coordinates-are-not-multiples-of-0.001-A'
            if e.get('nocw') and v == 'ok':
                v = 'unjudged:constituent-without-the-centre-weight-attribute'
            summary['verdicts'][v] = summary['verdicts'].get(v, 0) + 1
            classify(e, summary['fam'])
            if e['kind'] == 'bead' and e['role'] == 'mapped' and sum(1 for c in e['cons'] if c['has']) >= 2 and len(summary['nontrivial']) < 4000:
                summary['nontrivial'].append(json.dumps([e['cwon'], [[c['w'], c['cw'], c['p']] for c in e['cons'] if c['has']]]))
            if v == 'ok':
                if len(summary['samples']) < 2 and e['kind'] == 'bead' and len(e['cons']) >= 3:
                    summary['samples'].append({k: e[k] for k in e if k != 'scenario'})
                continue
            if v.startswith('unjudged') or v == 'no-verdict' or v == 'model-mean-not-equivariant':
                summary['unjudged'] += 1
                summary['machinery'].append('%s: %s (%s)' % (e['case_id'], v, e.get('label')))
                continue
            summary['violations'].append(('real-' + e['kind'], dict(e['scenario'], label=e.get('label'), event=slim(e)), '%s: %s' % (e.get('label'), v)))
        summary['wall'] = time.time() - t0
        return summary
    finally:
        shutil.rmtree(scratch, ignore_errors=True)


# ------------------------------------------------------------------------------------------------------------ worker processes
def _worker_main(queue, args):
    try:
        queue.put(('ok', worker(args)))
    except tlc.MachineryError as exc:
        queue.put(('machinery', str(exc)))
    except BaseException:      # noqa
        queue.put(('machinery', traceback.format_exc()[-1500:]))


COST = {'m22-ptyr': 6, 'm22-ptyr-full': 25, 'el22-ptyr-full': 25, 'm3-go': 5, 'm3-go-ubq': 12}


def start_workers(cases, nproc):
    """Non-daemonic forked workers (they fork one child per martinize2 run); longest cases first, greedy shares."""
    c11_stages.preload()
    shares = [[] for _ in range(max(1, min(nproc, len(cases))))]
    load = [0.0] * len(shares)
    for case in sorted(cases, key=lambda c: -(COST.get(c['id'], 3 if c['id'].startswith('tier1') else 2) * (1 + len(c.get('moves', []))))):
        k = load.index(min(load))
        shares[k].append(case)
        load[k] += COST.get(case['id'], 3 if case['id'].startswith('tier1') else 2) * (1 + len(case.get('moves', [])))
    ctx = mp.get_context('fork')
    queue = ctx.Queue()
    procs = []
    for wid, share in enumerate(shares):
        p = ctx.Process(target=_worker_main, args=(queue, (share, wid)))
        p.daemon = False
        p.start()
        procs.append(p)
    return procs, queue


def collect_workers(procs, queue, timeout):
    out = []
    deadline = time.time() + timeout
    try:
        for _ in procs:
            try:
                kind, val = queue.get(timeout=max(1.0, deadline - time.time()))
            except Exception:      # noqa - queue.Empty
                raise tlc.MachineryError('C09: the real-data workers did not finish within %d s' % timeout)
            if kind != 'ok':
                raise tlc.MachineryError('C09 real-data worker: %s' % val)
            out.append(val)
    finally:
        for p in procs:
            p.join(2)
            if p.is_alive():
                p.kill()
    return out
