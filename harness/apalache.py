"""Apalache runner (symbolic, SMT): checks a state invariant of the INITIAL states of a module, i.e. for all values the
Init predicate admits (unbounded integers included).  Used where TLC's bounded enumeration can be complemented by a
proof over all integers.  A missing / crashing Apalache is a machinery failure (exit 2), never a verdict."""
import os
import re
import shutil
import subprocess
import time
import zipfile

from . import tlc

APALACHE = shutil.which('apalache-mc') or '/opt/veriftools/apalache/bin/apalache-mc'
APALACHE_JAR = '/opt/veriftools/apalache/lib/apalache.jar'


def standard_module(workdir, name='Apalache.tla'):
    """TLC needs Apalache.tla (it ships inside the Apalache jar with TLC-compatible definitions of the folds)."""
    with zipfile.ZipFile(APALACHE_JAR) as z:
        data = z.read('tla2sany/StandardModules/' + name)
    with open(os.path.join(workdir, name), 'wb') as fh:
        fh.write(data)


def check_init_invariant(module, inv, timeout=900, text=None):
    """-> dict(ok, outcome, wall_s, violated: index of the violated conjunct or None). `text`: module source to use instead of
    spec/<module>.tla (spec mutants of the selftest)."""
    work = tlc.scratch('apa_')
    try:
        src = os.path.join(tlc.SPEC_DIR, module + '.tla')
        dst = os.path.join(work, module + '.tla')
        if text is None:
            shutil.copy(src, dst)
        else:
            with open(dst, 'w') as fh:
                fh.write(text)
        t0 = time.time()
        env = dict(os.environ)
        env.pop('JAVA_TOOL_OPTIONS', None)
        try:
            p = subprocess.run([APALACHE, 'check', '--inv=' + inv, '--length=0', '--out-dir=' + os.path.join(work, 'out'), dst],
                               cwd=work, env=env, stdout=subprocess.PIPE, stderr=subprocess.STDOUT, timeout=timeout, text=True)
        except (OSError, subprocess.TimeoutExpired) as exc:
            raise tlc.MachineryError('apalache-mc could not be run on %s: %r' % (module, exc))
        out = p.stdout
        m = re.search(r'The outcome is: (\w+)', out)
        if not m:
            raise tlc.MachineryError('apalache-mc gave no outcome for %s: %s' % (module, out[-600:]))
        viol = re.search(r'state invariant (\d+) violated', out)
        if m.group(1) not in ('NoError', 'Error'):
            raise tlc.MachineryError('apalache-mc outcome %s for %s: %s' % (m.group(1), module, out[-600:]))
        return {'module': module, 'invariant': inv, 'ok': m.group(1) == 'NoError', 'outcome': m.group(1),
                'violated_conjunct': int(viol.group(1)) if viol else None, 'wall_s': round(time.time() - t0, 2)}
    finally:
        shutil.rmtree(work, ignore_errors=True)
