"""C07, second half: the real command line and the process-wide writer as systems under test.

Three families of recorded HISTORIES, all judged by TLC with spec/DeferredWriterJudge.tla (pure operators of
spec/DeferredWriterOps.tla, the same ones the model-checked state machine DeferredWriter.tla is written with):

cli      the real bin/martinize2 entry() in a freshly forked process, in a scratch directory that ALREADY holds files under
         the names the run writes (structure, topology, one or several molecule ITPs, Go-model files, debug dumps) and, for
         some of them, backups '#name.N#' with gaps in the numbering; options giving every combination of {no warning,
         warnings all waived (number / type / type:count), warnings left}; relative / absolute / dotted output paths,
         output in a sub-directory, -x and -o on one path, the output on the input path.  Every deferred open and every
         write through the returned handle is recorded (independently of the writer's temporary files); the warning counter
         is read when ignore_warnings_and_count is called; the directory (names -> bytes) is recorded before the run, at the
         gate and after the run.
crash    the same runs with the fault proxies of c07.Faults installed in the command-line process: at the gate the process
         forks one child per (k, exception) - write() dies before the (k+1)-th primitive with a BaseException, a
         KeyboardInterrupt or an OSError(ENOSPC) - for every k up to the number of primitives of that run; the directory
         each child leaves behind is judged: PreExistingSafe (required), every destination in a state its finalisation
         passes through, nothing else new or changed; whether it is EXACTLY the model's directory after k primitives is
         counted and reported.  With sc['variants'] the same pending table is finalised (all crash points again) against
         other directories - files and backups that appeared or vanished while the run was in progress.
         A forked child leaves through os._exit: what the interpreter does to the writer at a real exit
         (DeferredFileWriter.__del__ -> close()) is called explicitly before the directory and the directory of temporary
         files are recorded; real exits are observed on the subprocesses of c07.gate_start.
         Every run is also interrupted (KeyboardInterrupt in a forked copy) just before the gate: nothing touched, no
         temporary file left.
lib      histories on the process-wide singleton through all its access routes (DeferredFileWriter().open,
         file_writer.deferred_open, a library module's deferred_open, a library writer): consecutive runs in one process
         (backups .1, .2, ...), discard followed by new opens, "w" and "a" on one path (either reading admitted), paths that
         differ by spelling only, a changed working directory between open and finalisation, destinations that cannot be
         written (the others must stay in states finalisation passes through), a destination that is a directory.

Workers run AND judge their share (one TLC process per worker) and return summaries only."""
import collections
import errno
import json
import multiprocessing as mp
import os
import random
import shutil
import sys
import time
import traceback

from . import common, tlc, cli_c03
from .common import REPO

EXCS = ('halt', 'kbint', 'enospc')
DUMP_FLAG = {'graph': '-write-graph', 'repair': '-write-repair', 'canon': '-write-canon'}
PRE_CLASSES = ('none', 'files', 'b1', 'gap', 'hole1', 'orphan', 'mix')


# ------------------------------------------------------------------------------------------------ directory <-> JSON
def tree(root):
    """relative name -> bytes for every regular file under root."""
    out = {}
    for d, _, files in os.walk(root):
        for f in files:
            p = os.path.join(d, f)
            if os.path.islink(p):
                continue
            with open(p, 'rb') as fh:
                out[os.path.relpath(p, root)] = fh.read()
    return out


def restore(root, saved):
    """Make the files under root exactly `saved` again (directories are kept)."""
    for name in tree(root):
        if name not in saved:
            os.remove(os.path.join(root, name))
    for name, data in saved.items():
        p = os.path.join(root, name)
        os.makedirs(os.path.dirname(p), exist_ok=True)
        if os.path.isdir(p):
            shutil.rmtree(p)
        with open(p, 'wb') as fh:
            fh.write(data)


def backup_name(name, n):
    d, b = os.path.split(name)
    return os.path.join(d, '#%s.%d#' % (b, n)) if n else name


class EventBuilder:
    """Turns snapshots (name -> bytes) and recorded opens into the JSON event of DeferredWriterJudge."""
    def __init__(self):
        self.lines = {}
        self.contents = {}
        self.C = []
        self.snaps = []

    def seq(self, data):
        out = []
        for line in data.splitlines(keepends=True):
            out.append(self.lines.setdefault(line, len(self.lines) + 1))
        return out

    def cidx(self, data):
        if data not in self.contents:
            self.C.append(self.seq(data))
            self.contents[data] = len(self.C)
        return self.contents[data]

    def build(self, pre, steps, dests, exempt=()):
        """steps: dicts as in the judge, with 'snap' (and crashes[i]['snap']) still name -> bytes or None."""
        names = set(pre)
        for s in steps:
            if s.get('snap'):
                names |= set(s['snap'])
            for c in s.get('crashes', ()):
                names |= set(c['snap'])
        names |= set(exempt)
        names = sorted(names)

        def enc(snap):
            return [] if snap is None else [self.cidx(snap[n]) if n in snap else 0 for n in names]
        slots = [0]
        for n in names:
            b = os.path.basename(n)
            if b.startswith('#') and b.endswith('#') and '.' in b:
                try:
                    slots.append(int(b[:-1].rsplit('.', 1)[1]))
                except ValueError:
                    pass
        nfin = sum(1 for s in steps if s['op'] in ('finalise', 'gate'))
        out_steps = []
        for s in steps:
            t = dict(s)
            t['snap'] = enc(s.get('snap'))
            if 'crashes' in t:
                t['crashes'] = [dict(c, snap=enc(c['snap'])) for c in t['crashes']]
            if s['op'] == 'open':
                t['data'] = self.seq(s['data'])
            out_steps.append(t)
        return {'kind': 'hist', 'K': max(slots) + nfin + 1, 'C': self.C, 'names': names,
                'dests': [{'name': d, 'dir': (os.path.dirname(d) + '/') if os.path.dirname(d) else '', 'base': os.path.basename(d)}
                          for d in sorted(dests)],
                'exempt': sorted(exempt), 'pre': enc(pre), 'steps': out_steps}


def check_tokenisable(pre, steps):
    """Contents are given to TLC line by line, so a concatenation the model performs (append to old content, append to what
    was written so far) must fall on a line boundary.  Generators guarantee it; a breach is a harness error."""
    pending = {}
    for s in steps:
        if s['op'] == 'open':
            if s['d'] in pending and s['mode'] == 'a' and pending[s['d']] and not pending[s['d']].endswith(b'\n'):
                raise tlc.MachineryError('append to data not ending in a newline: %s' % s['d'])
            pending[s['d']] = (pending.get(s['d'], b'') if s['mode'] == 'a' else b'') + s['data']
            if s['mode'] == 'a' and pre.get(s['d']) and not pre[s['d']].endswith(b'\n'):
                raise tlc.MachineryError('append to old content not ending in a newline: %s' % s['d'])


# ------------------------------------------------------------------------------------------------ recording
class HandleProxy:
    """File handle returned by a deferred open: records what is written through it."""
    def __init__(self, fh, op):
        self._fh, self._op = fh, op

    def write(self, s):
        self._op['chunks'].append(s.encode() if isinstance(s, str) else bytes(s))
        return self._fh.write(s)

    def writelines(self, lines):
        for x in lines:
            self.write(x)

    def __enter__(self):
        self._fh.__enter__()
        return self

    def __exit__(self, *a):
        return self._fh.__exit__(*a)

    def __iter__(self):
        return iter(self._fh)

    def __getattr__(self, name):
        return getattr(self._fh, name)


class Recorder:
    """Interposes on every module-level name `deferred_open` of the vermouth modules loaded in this process."""
    def __init__(self, work):
        self.work = os.path.realpath(work)
        self.ops = []

    def canon(self, filename):
        return os.path.relpath(os.path.realpath(os.path.join(os.getcwd(), str(filename))), self.work)

    def wrap(self, orig):
        rec = self

        def deferred_open(filename, mode='r', *a, **k):
            fh = orig(filename, mode, *a, **k)
            if not any(c in mode for c in 'wa+'):
                return fh
            op = {'op': 'open', 'd': rec.canon(filename), 'spelled': str(filename), 'mode': 'a' if 'a' in mode else 'w', 'chunks': []}
            rec.ops.append(op)
            return HandleProxy(fh, op)
        deferred_open._c07_recorder = True
        return deferred_open

    def install(self):
        n = 0
        for name, m in list(sys.modules.items()):
            if name.startswith('vermouth') and m is not None:
                f = m.__dict__.get('deferred_open')
                if f is not None and not getattr(f, '_c07_recorder', False):
                    m.deferred_open = self.wrap(f)
                    n += 1
        return n


def _exc_factory(kind, halt_cls):
    if kind == 'halt':
        return halt_cls
    if kind == 'kbint':
        return KeyboardInterrupt
    return lambda: OSError(errno.ENOSPC, 'No space left on device (injected)')


def _silence(root):
    log = os.open(os.path.join(root, 'log.txt'), os.O_WRONLY | os.O_CREAT | os.O_APPEND)
    sys.stdout.flush()
    sys.stderr.flush()
    os.dup2(log, 1)
    os.dup2(log, 2)
    os.close(log)


def _log_tail(root, n=1500):
    try:
        with open(os.path.join(root, 'log.txt'), errors='replace') as fh:
            return fh.read()[-n:]
    except OSError:
        return ''


def _emulate_exit(fw):
    """A real interpreter finalises the process-wide writer when it exits (DeferredFileWriter.__del__ -> close()); the forked
    children of this module leave through os._exit, so that call is made explicitly before the directory is recorded.
    (Real process exits are observed on the bin/martinize2 subprocesses of c07.gate_start.)"""
    w = fw.DeferredFileWriter()
    d = getattr(type(w), '__del__', None)
    if d is not None:
        try:
            d(w)
        except Exception:      # noqa: an exception in __del__ is printed and ignored by the interpreter
            traceback.print_exc()


def _b2s(snap):
    return {k: v.decode('latin-1') for k, v in snap.items()}


def _s2b(snap):
    return {k: v.encode('latin-1') for k, v in snap.items()}


# ------------------------------------------------------------------------------------------------ family cli / crash
EXTRA_FF = '''[ link ]
resname "PRO"
[ atoms ]
BB {}
+BB {}
[ edges ]
BB +BB
[ warning ]
verification: force-field defined warning for {BB[resname]}{BB[resid]}
'''


EXTRA_FF_ALL = '''[ link ]
[ atoms ]
BB {}
+BB {}
[ edges ]
BB +BB
[ warning ]
verification: force-field defined warning for the pair after {BB[resname]}{BB[resid]}
'''
NRES = {'P': 2, 'S': 29}


def n_model_of(chains, ffwarn):
    """Warnings of type 'model' the run has to count: one per placement of the link, in EVERY molecule (chains of one molecule
    type included).  True: the PRO-PRO link (one placement per dipro chain); 'all': every pair of consecutive residues."""
    if not ffwarn:
        return 0
    if ffwarn == 'all':
        return sum(NRES[c] - 1 for c in chains)
    return sum(1 for c in chains if c == 'P')


def input_pdb(chains, n_alt):
    """multichain_pdb with n_alt atoms given a second alternate-location copy (one pdb-alternate warning each)."""
    lines = cli_c03.multichain_pdb(chains).splitlines()
    out, done = [], 0
    for l in lines:
        out.append(l)
        if l.startswith('ATOM') and done < n_alt and l[12:16].strip() in ('CB', 'CG', 'CD', 'CG1', 'CG2'):
            out.append(l[:16] + 'B' + l[17:])
            done += 1
    if done < n_alt:
        raise tlc.MachineryError('input %s cannot carry %d alternate locations' % (chains, n_alt))
    return '\n'.join(out) + '\n'


def n_itps(sc):
    chains = sc['chains']
    if '-sep' in sc['opts']:
        return len(chains)
    return len(set(chains))


def out_paths(sc):
    """(-x value, -o value, -f value) as written on the command line; {W} = absolute path of the working directory."""
    kind = sc['paths']
    x, o, f = 'cg.pdb', 'topol.top', 'in.pdb'
    if kind == 'abs':
        x, o = '{W}/cg.pdb', '{W}/topol.top'
    elif kind == 'absin':
        f, x = '{W}/in.pdb', '{W}/sub/../cg.pdb'
    elif kind == 'sub':
        x, o = 'sub/cg.pdb', 'sub/topol.top'
    elif kind == 'dots':
        x, o = './cg.pdb', 'sub/../topol.top'
    elif kind == 'same':
        x, o = 'out.dat', './out.dat'
    elif kind == 'xin':
        x = 'in.pdb'
    elif kind == 'xitp':
        x = 'molecule_0.itp'
    elif kind == 'oabs':
        o = '{W}/sub/topol.top'
    return x, o, f


def predicted_outputs(sc):
    """Names (relative to the working directory) the run is expected to write - used only to decide WHERE pre-existing
    files are placed; the destinations the judge works with are the recorded opens."""
    x, o, _ = out_paths(sc)
    norm = lambda p: os.path.normpath(p.replace('{W}/', ''))
    names = [norm(x), norm(o)] + ['molecule_%d.itp' % i for i in range(n_itps(sc))]
    if '-go' in sc['opts']:
        names += ['molecule.itp', 'go_atomtypes.itp', 'go_nbparams.itp']      # the Go model names its single molecule type 'molecule'
        if '-go-write-file' in sc['opts']:
            names.append(sc['opts'][sc['opts'].index('-go-write-file') + 1])
    return list(dict.fromkeys(names))


def pre_pattern(cls, rng):
    """(destination exists, existing backup numbers)"""
    if cls == 'mix':
        cls = rng.choice(['none', 'files', 'b1', 'gap', 'hole1', 'orphan', 'b12'])
    return {'none': (False, ()), 'files': (True, ()), 'b1': (True, (1,)), 'gap': (True, (1, 3)), 'hole1': (True, (2,)),
            'orphan': (False, (1,)), 'b12': (True, (1, 2))}[cls]


def populate(work, sc, rng):
    os.makedirs(os.path.join(work, 'sub'), exist_ok=True)
    with open(os.path.join(work, 'in.pdb'), 'w') as fh:
        fh.write(input_pdb(sc['chains'], sc['n_alt']))
    if sc.get('ffwarn'):
        os.makedirs(os.path.join(work, 'ff', 'martini3001'))
        with open(os.path.join(work, 'ff', 'martini3001', 'verif_extra.ff'), 'w') as fh:
            fh.write(EXTRA_FF_ALL if sc['ffwarn'] == 'all' else EXTRA_FF)
    for name, text in (('notes.txt', 'unrelated\n'), ('#notes.txt.1#', 'unrelated backup\n'), ('sub/other.itp', 'unrelated itp\n'),
                       ('#cg.pdb.9#', 'a far backup number\n')):
        with open(os.path.join(work, name), 'w') as fh:
            fh.write(text)
    for name in predicted_outputs(sc):
        exists, slots = pre_pattern(sc['pre'], rng)
        if name == 'in.pdb':
            exists = False          # the input itself is the pre-existing file
        for n in ([0] if exists else []) + list(slots):
            with open(os.path.join(work, backup_name(name, n)), 'w') as fh:
                fh.write('precious %s generation %d\nsecond line\n' % (name, n))
    if sc.get('dumps_pre'):
        for d in sc.get('dumps', ()):
            with open(os.path.join(work, d + '.pdb'), 'w') as fh:
                fh.write('old debug dump %s\n' % d)


def cli_argv(sc, work):
    x, o, f = out_paths(sc)
    argv = ['-f', f, '-x', x]
    if sc.get('top', True):
        argv += ['-o', o]
    argv += list(sc['opts'])
    for group in sc['maxwarn']:
        argv += ['-maxwarn'] + list(group)
    for d in sc.get('dumps', ()):
        argv += [DUMP_FLAG[d], d + '.pdb']
    if sc.get('ffwarn'):
        argv += ['-ff-dir', 'ff']
    return [a.replace('{W}', work) for a in argv]


def specs_of(maxwarn):
    specs = []
    for group in maxwarn:
        for s in group:
            if ':' in s:
                t, n = s.split(':')
                specs.append({'t': t, 'n': int(n)})
            else:
                try:
                    specs.append({'t': '*', 'n': int(s)})
                except ValueError:
                    specs.append({'t': s, 'n': -1000})
    return specs


def cli_child(sc, root, resfile):
    """Runs in a freshly forked process: one real martinize2 run (plus, when sc['faults'], one forked child per crash
    point at the gate).  Writes {'event': ..., 'meta': ...} to resfile."""
    import tempfile
    from . import c07
    work = os.path.realpath(os.path.join(root, 'work'))
    tmpd = os.path.join(root, 'tmp')
    resd = os.path.join(root, 'res')
    for d in (work, tmpd, resd):
        os.makedirs(d, exist_ok=True)
    rng = random.Random(sc['seed'])
    populate(work, sc, rng)
    os.chdir(work)
    tempfile.tempdir = tmpd
    _silence(root)
    import vermouth                      # noqa
    import vermouth.file_writer as fw
    import vermouth.pdb, vermouth.gmx.gro, vermouth.gmx.topology, vermouth.dssp.dssp, vermouth.rcsu.contact_map   # noqa
    faults = c07.Faults(fw)
    rec = Recorder(work)
    mod = cli_c03.load_cli()
    rec.install()
    state = {'role': None, 'wrote': False, 'prims': [], 'counts': None, 'above': 0, 'gate_snap': None, 'crashes': [], 'variants': [], 'interrupt': None,
             'same_singleton': mod.DeferredFileWriter() is fw.DeferredFileWriter()
             and getattr(fw.DeferredFileWriter().open, '__self__', None) is fw.DeferredFileWriter()}
    pre = tree(work)

    real_count = mod.ignore_warnings_and_count

    def count(counter, specs):
        if state['counts'] is None:
            state['counts'] = {str(t): int(n) for t, n in counter.counts.get(30, {}).items() if n}
            state['above'] = int(sum(n for lvl, d in counter.counts.items() if lvl > 30 for n in d.values()))
            state['gate_snap'] = tree(work)
            # Ctrl-C just before the gate, in a forked copy of the process: nothing may have been touched, no temporary file stays
            out = os.path.join(resd, 'interrupt.json')
            saved_tmp = tree(tmpd)              # the copy shares the temporary files with this process: put them back afterwards
            pid = os.fork()
            if pid == 0:
                state['role'] = ('interrupt', 'kbint', out)
                raise KeyboardInterrupt()
            os.waitpid(pid, 0)
            restore(work, state['gate_snap'])
            restore(tmpd, saved_tmp)
            try:
                with open(out) as fh:
                    state['interrupt'] = json.load(fh)
            except (OSError, ValueError):
                state['interrupt'] = {'lost': True}
        return real_count(counter, specs)
    mod.ignore_warnings_and_count = count

    real_write = fw.DeferredFileWriter.write

    def crash_points(self, tag, saved_work, saved_tmp):
        """One forked child per (k, exception kind), k = 0, 1, ... until a child completes; the directory and the
        temporary files are restored after each child.  Returns (crash records, record of the completing child)."""
        crashes, k = [], 0
        while k < 60:
            for exc in EXCS:
                out = os.path.join(resd, 'crash_%s_%d_%s.json' % (tag, k, exc))
                pid = os.fork()
                if pid == 0:
                    state['role'] = (k, exc, out)
                    faults.log, faults.active, faults.halt_after = [], True, k
                    faults.make_exc = _exc_factory(exc, c07._Halt)
                    try:
                        return None, real_write(self)
                    finally:
                        faults.active = False
                os.waitpid(pid, 0)
                try:
                    with open(out) as fh:
                        r = json.load(fh)
                    os.remove(out)
                except (OSError, ValueError):
                    r = {'k': k, 'exc': exc, 'lost': True}
                restore(work, saved_work)
                restore(tmpd, saved_tmp)
                if r.get('completed'):
                    return crashes, r
                crashes.append(r)
            k += 1
        return crashes, None

    def write(self):
        state['wrote'] = True
        if state['gate_snap'] is None:
            state['gate_snap'] = tree(work)
        if sc.get('faults') and state['role'] is None:
            saved_work, saved_tmp = tree(work), tree(tmpd)
            got = crash_points(self, 'main', saved_work, saved_tmp)
            if state['role'] is not None:
                return got[1]
            state['crashes'] = got[0]
            # the same pending table against OTHER directories: files and backups that appeared / vanished while the run
            # was in progress (finalisation only looks at the directory when it runs)
            dests = sorted({op['d'] for op in rec.ops})
            for v in range(sc.get('variants', 0)):
                vdir = dict(saved_work)
                for d in dests:
                    for n in range(0, 8):
                        vdir.pop(backup_name(d, n), None)
                    if d == 'in.pdb':
                        vdir[d] = saved_work[d]
                    exists, slots = pre_pattern('mix', rng)
                    for n in ([0] if exists else []) + list(slots):
                        vdir.setdefault(backup_name(d, n), ('variant %d of %s generation %d\nsecond line\n' % (v, d, n)).encode())
                restore(work, vdir)
                got = crash_points(self, 'v%d' % v, vdir, saved_tmp)
                if state['role'] is not None:
                    return got[1]
                state['variants'].append({'pre': vdir, 'crashes': got[0], 'complete': got[1]})
            restore(work, saved_work)
            restore(tmpd, saved_tmp)
        faults.log, faults.active, faults.halt_after = [], True, None
        try:
            return real_write(self)
        finally:
            faults.active = False
            state['prims'] = list(faults.log)
    fw.DeferredFileWriter.write = write

    argv = cli_argv(sc, work)
    sys.argv = ['martinize2'] + argv
    rc, err = 0, ''
    try:
        mod.entry()
    except SystemExit as e:
        rc = e.code if isinstance(e.code, int) else (0 if e.code is None else 1)
    except BaseException as e:      # noqa
        rc, err = -1, '%s: %s' % (type(e).__name__, str(e)[:200])
    sys.stdout.flush()
    sys.stderr.flush()
    _emulate_exit(fw)
    if state['role'] is not None:       # a crash-point child: report what is left behind and vanish
        k, exc, out = state['role']
        with open(out, 'w') as fh:
            json.dump({'k': k, 'exc': exc, 'prims': list(faults.log), 'snap': _b2s(tree(work)), 'err': err, 'rc': rc,
                       'completed': err == '', 'tmpleft': len(tree(tmpd))}, fh)
        os._exit(0)
    post = tree(work)
    meta = {'argv': ' '.join(argv), 'rc': rc, 'err': err, 'same_singleton': state['same_singleton'],
            'tmp_left': sorted(tree(tmpd)), 'log': _log_tail(root)}
    meta['counts'] = state['counts']
    if state['counts'] is None or (err and not state['wrote']):
        # the run never reached the gate: a harness problem (bad option set), not a verdict
        with open(resfile, 'w') as fh:
            json.dump({'event': None, 'meta': meta}, fh)
        return
    steps = []
    for op in rec.ops:
        steps.append({'op': 'open', 'd': op['d'], 'mode': op['mode'], 'data': b''.join(op['chunks']), 'snap': None})
    if steps:
        steps[-1]['snap'] = state['gate_snap']
    lost = ([state['interrupt']] if (state['interrupt'] or {}).get('lost') else []) + [c for c in state['crashes'] if c.get('lost')] + [c for v in state['variants'] for c in v['crashes'] if c.get('lost')] + \
        [v for v in state['variants'] if v['complete'] is None]
    if lost:
        meta['err'] = 'crash children without a report: %s' % lost
        with open(resfile, 'w') as fh:
            json.dump({'event': None, 'meta': meta}, fh)
        return
    gate = {'op': 'gate', 'counts': state['counts'] or {'none': 0}, 'above': state['above'], 'specs': specs_of(sc['maxwarn']),
            'exit': rc, 'wrote': state['wrote'], 'halt': -1, 'prims': state['prims'], 'bad': [], 'tmpleft': len(meta['tmp_left']),
            'crashes': [{'k': c['k'], 'exc': c['exc'], 'prims': c['prims'], 'snap': _s2b(c['snap'])} for c in state['crashes']],
            'snap': post}
    dests = {s['d'] for s in steps}
    exempt = [d + '.pdb' for d in sc.get('dumps', ())]
    check_tokenisable(pre, steps)
    eb = EventBuilder()
    event = eb.build(pre, steps + [gate], dests, exempt)
    extra_events = []
    for v in state['variants']:
        c = v['complete']
        vgate = dict(gate, exit=c['rc'], prims=c['prims'], snap=_s2b(c['snap']), tmpleft=c.get('tmpleft', 0),
                     crashes=[{'k': x['k'], 'exc': x['exc'], 'prims': x['prims'], 'snap': _s2b(x['snap'])} for x in v['crashes']])
        vsteps = [dict(st, snap=None) for st in steps]
        check_tokenisable(v['pre'], vsteps)
        extra_events.append(EventBuilder().build(v['pre'], vsteps + [vgate], dests, exempt))
    if state['interrupt']:
        isteps = [dict(st) for st in steps] + [{'op': 'discard', 'snap': _s2b(state['interrupt']['snap']), 'tmpleft': state['interrupt']['tmpleft']}]
        extra_events.append(EventBuilder().build(pre, isteps, dests, exempt))
    meta['ndest'] = len(dests)
    meta['npre_dest'] = sum(1 for d in dests if d in pre)
    meta['dests'] = sorted(dests)
    meta['opens'] = [[s['d'], s['mode'], len(s['data'])] for s in steps]
    with open(resfile, 'w') as fh:
        json.dump({'event': event, 'more_events': extra_events, 'meta': meta}, fh)


# ------------------------------------------------------------------------------------------------ family lib
def lib_child(sc, root, resfile):
    """Runs in a freshly forked process: a scripted / random history on the REAL process-wide DeferredFileWriter."""
    import tempfile
    from . import c07
    work = os.path.realpath(os.path.join(root, 'work'))
    tmpd = os.path.join(root, 'tmp')
    for d in (work, tmpd):
        os.makedirs(d, exist_ok=True)
    for d in sc.get('dirs', ()):
        os.makedirs(os.path.join(work, d), exist_ok=True)
    for name, text in sc.get('pre', ()):
        p = os.path.join(work, name)
        os.makedirs(os.path.dirname(p), exist_ok=True)
        with open(p, 'w') as fh:
            fh.write(text)
    os.chdir(work)
    tempfile.tempdir = tmpd
    _silence(root)
    import vermouth                      # noqa
    import vermouth.file_writer as fw
    import vermouth.gmx.topology as topmod
    import vermouth.pdb.pdb as pdbmod
    faults = c07.Faults(fw)
    writer = fw.DeferredFileWriter()
    writer.close()
    routes = {'inst': lambda: fw.DeferredFileWriter().open, 'func': lambda: fw.deferred_open,
              'top': lambda: topmod.deferred_open, 'pdb': lambda: pdbmod.deferred_open}
    same = all(getattr(r(), '__self__', None) is writer for r in routes.values())
    rec = Recorder(work)
    pre = tree(work)
    steps, weak = [], None
    err = ''
    try:
        for op in sc['ops']:
            if op[0] == 'open':
                _, spelled, mode, tokens, route = op
                spelled = spelled.replace('{W}', work)
                data = ''.join(t + '\n' for t in tokens)
                binary = mode.endswith('b')
                with routes[route]()(spelled, mode) as fh:
                    half = len(tokens) // 2
                    for part in (''.join(t + '\n' for t in tokens[:half]), ''.join(t + '\n' for t in tokens[half:])):
                        if part:
                            fh.write(part.encode() if binary else part)
                steps.append({'op': 'open', 'd': rec.canon(spelled), 'mode': mode[0], 'data': data.encode(), 'snap': tree(work)})
            elif op[0] == 'chdir':
                os.chdir(os.path.join(work, op[1]))
            elif op[0] == 'discard':
                writer.close()
                steps.append({'op': 'discard', 'snap': tree(work), 'tmpleft': len(tree(tmpd))})
            elif op[0] == 'finalise':
                fault = op[1]
                faults.log, faults.active = [], True
                faults.halt_after = None if fault is None else fault[0]
                if fault is not None:
                    faults.make_exc = _exc_factory(fault[1], c07._Halt)
                halted = raised = False
                try:
                    fw.DeferredFileWriter().write()
                except c07._Halt:
                    halted = True
                except KeyboardInterrupt:
                    halted = True
                except OSError as e:
                    if fault is not None and e.errno == errno.ENOSPC:
                        halted = True
                    else:
                        raised = True
                finally:
                    faults.active = False
                step = {'op': 'finalise', 'halt': fault[0] if halted else -1, 'prims': list(faults.log), 'bad': list(sc.get('bad', ())),
                        'crashes': [], 'snap': tree(work), 'raised': raised, 'tmpleft': len(tree(tmpd))}
                if fault is not None and not halted:
                    # k was beyond the primitives of this finalisation: it simply completed
                    step['halt'] = -1
                steps.append(step)
                if halted or raised:
                    break
    except BaseException as e:      # noqa
        err = '%s: %s' % (type(e).__name__, str(e)[:300])
    finally:
        faults.active = False
    meta = {'same_singleton': same, 'err': err, 'log': _log_tail(root), 'ops': sc['ops']}
    if err:
        with open(resfile, 'w') as fh:
            json.dump({'event': None, 'meta': meta}, fh)
        return
    eb = EventBuilder()
    if sc.get('weak'):
        before, after = sorted(set(pre.values())), sorted(set(tree(work).values()))
        ids = {c: i + 1 for i, c in enumerate(sorted(set(before) | set(after)))}
        event = {'kind': 'weak', 'pre': [ids[c] for c in before], 'post': [ids[c] for c in after]}
    else:
        dests = {s['d'] for s in steps if s['op'] == 'open'} | set(sc.get('watch', ()))
        check_tokenisable(pre, steps)
        event = eb.build(pre, steps, dests)
    with open(resfile, 'w') as fh:
        json.dump({'event': event, 'meta': meta}, fh)


# ------------------------------------------------------------------------------------------------ scenario generators
BASE = ['-ff', 'martini3001', '-nt', '-noscfix']


def maxwarn_for(kind, n_alt, n_gen, n_model):
    """-maxwarn groups for a warning situation.  kind: none | number | type | typecount | mixed (all waived);
    left-none | left-number | left-typecount | left-wrongtype (warnings left)."""
    total = n_alt + n_gen + n_model
    types = [(t, n) for t, n in (('pdb-alternate', n_alt), ('general', n_gen), ('model', n_model)) if n]
    if kind == 'none':
        return []
    if kind == 'number':
        return [[str(total)]]
    if kind == 'type':
        return [[t for t, _ in types]]
    if kind == 'typecount':
        return [['%s:%d' % (t, n)] for t, n in types]
    if kind == 'mixed':
        t, n = types[0]
        rest = total - n
        return [['%s:%d' % (t, n)] + ([str(rest)] if rest else [])]
    if kind == 'left-none':
        return []
    if kind == 'left-number':
        return [[str(total - 1)]]
    if kind == 'left-typecount':
        t, n = types[0]
        return [['%s:%d' % (t, n - 1)] + [u for u, _ in types[1:]]]
    if kind == 'left-wrongtype':
        return [['unknown-residue'], ['unmapped-atom:3']]
    if kind == 'left-typeonly':           # one type waived by name, another one left
        return [[types[0][0]]]
    raise ValueError(kind)


def cli_scenarios(tier, seed):
    rng = random.Random(seed * 7919 + 11)
    out = []

    def add(chains='P', n_alt=0, gen=False, ffwarn=False, mw='none', paths='rel', pre='mix', dumps=(), dumps_pre=False,
            extra=(), faults=False, top=True, variants=0):
        opts = list(BASE) + list(extra)
        if gen:
            opts = [o for o in opts if o != '-noscfix'] + ['-scfix']
        n_model = n_model_of(chains, ffwarn)
        if mw in ('left-typeonly',) and (n_alt == 0 or not (gen or ffwarn)):
            raise ValueError('left-typeonly needs two warning types')
        sc = {'fam': 'cli', 'chains': chains, 'n_alt': n_alt, 'opts': opts, 'ffwarn': ffwarn, 'paths': paths, 'pre': pre,
              'dumps': list(dumps), 'dumps_pre': dumps_pre, 'faults': faults, 'top': top, 'mwkind': mw, 'variants': variants,
              'maxwarn': maxwarn_for(mw, n_alt, 1 if gen else 0, n_model), 'seed': rng.randrange(1 << 30), 'n_model': n_model}
        sc['expect_left'] = mw.startswith('left')
        out.append(sc)

    # --- the fixed core (quick and thorough): every warning situation x path style x directory class at least once;
    # 16 runs (one per worker process), 8 of them with every crash point
    add(mw='none', paths='rel', pre='gap', dumps=('graph',), faults=True, variants=1)
    add(n_alt=2, mw='left-none', paths='rel', pre='b1', dumps=('graph',))
    add(n_alt=2, mw='number', paths='abs', pre='gap', faults=True, variants=1)
    add(n_alt=1, mw='type', paths='sub', pre='hole1', faults=True, variants=1)
    add(n_alt=3, mw='typecount', paths='dots', pre='mix', dumps=('graph', 'repair', 'canon'), dumps_pre=True)
    add(n_alt=3, mw='left-typecount', paths='abs', pre='files', dumps=('repair',), dumps_pre=True)
    add(n_alt=2, gen=True, mw='left-typeonly', paths='rel', pre='gap')
    add(n_alt=1, gen=True, mw='mixed', paths='same', pre='b1', faults=True, variants=1)
    add(n_alt=0, mw='none', paths='xin', pre='files', faults=True, variants=1)
    add(n_alt=2, mw='left-number', paths='xin', pre='b1')
    add(chains='PS', n_alt=1, mw='type', paths='rel', pre='gap', faults=True, variants=1)
    add(chains='PP', extra=('-sep',), mw='none', paths='oabs', pre='mix', faults=True, variants=1)
    add(chains='S', extra=('-go', '-go-write-file', 'contacts.out'), mw='number', n_alt=1, paths='rel', pre='gap', faults=True)
    add(chains='S', extra=('-go',), mw='left-wrongtype', n_alt=1, paths='sub', pre='b1', dumps=('canon',))
    add(ffwarn=True, mw='typecount', paths='xitp', pre='hole1')
    add(ffwarn=True, n_alt=1, mw='left-typeonly', paths='same', pre='files')
    add(chains='PP', ffwarn=True, mw='left-number', paths='rel', pre='b1')        # two chains of ONE molecule type: a warning each
    add(chains='S', ffwarn='all', mw='left-typecount', paths='rel', pre='files')  # 28 placements in one molecule
    add(n_alt=1, mw='number', paths='absin', pre='orphan', top=False, faults=True)
    add(n_alt=1, mw='left-none', paths='same', pre='gap')
    add(n_alt=0, mw='none', paths='xitp', pre='b1', faults=True)
    # --- thorough: the product, sampled
    mw_ok = ['none', 'number', 'type', 'typecount', 'mixed']
    mw_left = ['left-none', 'left-number', 'left-typecount', 'left-wrongtype', 'left-typeonly']
    inputs = [('P', ()), ('P', ()), ('PS', ()), ('PP', ('-sep',)), ('PP', ()), ('S', ('-go',)),
              ('S', ('-go', '-go-write-file', 'map.out')), ('SP', ('-merge', 'all')), ('P', ('-elastic',))]
    n = 0
    while n < (5 if tier == 'quick' else 150):
        chains, extra = rng.choice(inputs)
        left = rng.random() < 0.45
        gen = rng.random() < 0.3
        ffw = rng.random() < 0.25 and 'P' in chains
        n_alt = rng.choice([0, 1, 2, 3])
        mw = rng.choice(mw_left if left else mw_ok)
        nw = n_alt + gen + ffw
        if mw != 'none' and nw == 0:
            if left:
                continue
            mw = 'none'
        if mw == 'none' and nw:
            mw = 'number'
        if mw in ('left-typeonly',) and (n_alt == 0 or not (gen or ffw)):
            continue
        if mw == 'left-typecount' and n_alt == 0:
            continue
        dumps = tuple(d for d in ('graph', 'repair', 'canon') if rng.random() < 0.25)
        paths = rng.choice(['rel', 'abs', 'sub', 'dots', 'same', 'xin', 'xitp', 'oabs', 'absin'])
        add(chains=chains, n_alt=n_alt, gen=gen, ffwarn=ffw, mw=mw, paths=paths, pre=rng.choice(PRE_CLASSES + ('mix', 'gap')),
            dumps=dumps, dumps_pre=rng.random() < 0.5, extra=extra, faults=(not left) and rng.random() < 0.6,
            top=rng.random() < 0.9, variants=rng.choice([0, 2, 3]))
        n += 1
    return out


TOKS = ['alpha', 'beta', 'gamma', 'delta', 'eps', 'zeta']


def lib_scenarios(tier, seed):
    rng = random.Random(seed * 104729 + 3)
    out = []
    old = lambda name, n=0: [backup_name(name, n), 'old %s #%d\nline two\n' % (name, n)]

    def add(name, ops, pre=(), dirs=('sub',), **kw):
        sc = {'fam': 'lib', 'name': name, 'ops': ops, 'pre': [list(p) for p in pre], 'dirs': list(dirs)}
        sc.update(kw)
        out.append(sc)

    F = ['finalise', None]
    # consecutive runs in one process: backups .1 then .2 (then .3 filling a gap)
    add('two-runs', [['open', 'a.itp', 'w', ['alpha'], 'inst'], ['open', 'sub/b.top', 'w', ['beta'], 'func'], F,
                     ['open', 'a.itp', 'w', ['gamma'], 'top'], ['open', 'sub/b.top', 'w', ['delta'], 'pdb'], F,
                     ['open', 'a.itp', 'w', ['eps', 'zeta'], 'inst'], F],
        pre=[old('a.itp'), old('sub/b.top'), old('sub/b.top', 2)])
    add('two-runs-append', [['open', 'log.txt', 'a', ['alpha'], 'func'], F, ['open', 'log.txt', 'a', ['beta'], 'inst'],
                            ['open', 'new.txt', 'a', ['gamma'], 'inst'], F, ['open', 'log.txt', 'w', ['delta'], 'top'], F],
        pre=[old('log.txt')])
    # discard, then the same path again
    add('discard-reopen', [['open', 'a.itp', 'w', ['alpha'], 'inst'], ['open', 'b.itp', 'a', ['beta'], 'func'], ['discard'],
                           ['open', 'a.itp', 'w', ['gamma'], 'func'], F, ['open', 'b.itp', 'w', ['delta'], 'inst'], ['discard'],
                           ['open', 'b.itp', 'a', ['eps'], 'inst'], F],
        pre=[old('a.itp'), old('a.itp', 1), old('b.itp')])
    # both modes on one path
    add('w-then-a', [['open', 'a.itp', 'w', ['alpha'], 'inst'], ['open', 'a.itp', 'a', ['beta'], 'func'], F], pre=[old('a.itp')])
    add('a-then-w', [['open', 'a.itp', 'a', ['alpha'], 'inst'], ['open', 'a.itp', 'w', ['beta'], 'func'], F], pre=[old('a.itp')])
    add('w-a-w-a', [['open', 'a.itp', 'w', ['alpha'], 'top'], ['open', 'a.itp', 'a', ['beta'], 'func'],
                    ['open', 'a.itp', 'w', ['gamma'], 'pdb'], ['open', 'a.itp', 'a', ['delta'], 'inst'], F], pre=[old('a.itp'), old('a.itp', 1)])
    add('w-w-and-a-a', [['open', 'a.itp', 'w', ['alpha'], 'inst'], ['open', 'a.itp', 'wb', ['beta'], 'func'],
                        ['open', 'b.itp', 'a', ['gamma'], 'inst'], ['open', 'b.itp', 'ab', ['delta'], 'pdb'], F], pre=[old('a.itp'), old('b.itp')])
    add('empty-data', [['open', 'a.itp', 'w', [], 'inst'], ['open', 'b.itp', 'a', [], 'func'], F], pre=[old('a.itp'), old('b.itp')])
    # one file, several spellings
    add('spellings', [['open', './a.itp', 'w', ['alpha'], 'inst'], ['open', 'a.itp', 'a', ['beta'], 'func'],
                      ['open', 'sub/../a.itp', 'a', ['gamma'], 'top'], ['open', '{W}/a.itp', 'a', ['delta'], 'pdb'],
                      ['open', '{W}/sub/./b.itp', 'w', ['eps'], 'inst'], ['open', 'sub/b.itp', 'w', ['zeta'], 'func'], F],
        pre=[old('a.itp'), old('sub/b.itp'), old('sub/b.itp', 1)])
    add('spellings-w', [['open', 'sub/../a.itp', 'w', ['alpha'], 'inst'], ['open', './a.itp', 'w', ['beta'], 'func'], F,
                        ['open', '{W}/a.itp', 'w', ['gamma'], 'func'], F], pre=[old('a.itp')])
    # the working directory changes between open and finalisation
    add('chdir', [['open', 'a.itp', 'w', ['alpha'], 'inst'], ['chdir', 'sub'], ['open', 'a.itp', 'w', ['beta'], 'func'],
                  ['open', '../a.itp', 'w', ['gamma'], 'func'], F], pre=[old('a.itp'), old('sub/a.itp')])
    # destinations that cannot be written, at every position of the queue, in both modes
    for mode in ('w', 'a'):
        for pos in (0, 1, 2):
            names = ['a.itp', 'b.itp', 'c.itp']
            names[pos] = 'nodir/x.itp'
            add('missing-dir-%s-%d' % (mode, pos), [['open', n, mode if n.startswith('nodir') else rng.choice('wa'), [TOKS[i]], 'inst']
                                                  for i, n in enumerate(names)] + [F],
                pre=[old('a.itp'), old('b.itp'), old('c.itp'), old('c.itp', 1)], bad=['nodir/x.itp'])
    add('parent-is-a-file', [['open', 'a.itp', 'w', ['alpha'], 'inst'], ['open', 'afile/x.itp', 'w', ['beta'], 'func'],
                             ['open', 'b.itp', 'w', ['gamma'], 'inst'], F],
        pre=[old('a.itp'), old('b.itp'), ['afile', 'a regular file\n']], bad=['afile/x.itp'])
    add('append-to-directory', [['open', 'a.itp', 'a', ['alpha'], 'inst'], ['open', 'adir', 'a', ['beta'], 'func'],
                                ['open', 'b.itp', 'w', ['gamma'], 'inst'], F],
        pre=[old('a.itp'), old('b.itp'), ['adir/keep.txt', 'inside the directory\n']], bad=['adir'])
    add('write-onto-directory', [['open', 'a.itp', 'w', ['alpha'], 'inst'], ['open', 'adir', 'w', ['beta'], 'func'],
                                 ['open', 'b.itp', 'w', ['gamma'], 'inst'], F],
        pre=[old('a.itp'), old('b.itp'), ['adir/keep.txt', 'inside the directory\n'], ['adir/deep/more.txt', 'deeper\n']], weak=True)
    # interrupted second run
    for k in range(0, 5):
        add('two-runs-crash-%d' % k, [['open', 'a.itp', 'w', ['alpha'], 'inst'], ['open', 'b.itp', 'a', ['beta'], 'func'], F,
                                      ['open', 'a.itp', 'w', ['gamma'], 'func'], ['open', 'b.itp', 'a', ['delta'], 'inst'],
                                      ['open', 'c.itp', 'w', ['eps'], 'inst'], ['finalise', [k, EXCS[k % 3]]]],
            pre=[old('a.itp'), old('b.itp'), old('a.itp', 2)])
    # random histories over several spellings, modes, routes, rounds, discards and crash points
    nrand = 40 if tier == 'quick' else 600
    files = ['a.itp', 'sub/b.top', 'c.pdb', 'sub/d.gro']
    spell = {'a.itp': ['a.itp', './a.itp', 'sub/../a.itp', '{W}/a.itp'], 'sub/b.top': ['sub/b.top', './sub/b.top', '{W}/sub/b.top'],
             'c.pdb': ['c.pdb', '{W}/sub/../c.pdb'], 'sub/d.gro': ['sub/d.gro', 'sub/./d.gro']}
    for i in range(nrand):
        pre = []
        for f in files:
            exists, slots = pre_pattern('mix', rng)
            pre += [old(f, n) for n in ([0] if exists else []) + list(slots)]
        ops, modes = [], {}
        allow_mixed = rng.random() < 0.3
        rounds = rng.choice([1, 2, 2, 3])
        for r in range(rounds):
            for _ in range(rng.randint(1, 5)):
                f = rng.choice(files)
                m = rng.choice('wa')
                if f in modes and not allow_mixed:
                    m = modes[f]
                modes.setdefault(f, m)
                ops.append(['open', rng.choice(spell[f]), m + rng.choice(['', '', 'b']),
                            [rng.choice(TOKS) for _ in range(rng.randint(0, 3))], rng.choice(['inst', 'func', 'top', 'pdb'])])
                if rng.random() < 0.12:
                    ops.append(['discard'])
                    modes = {}
            last = r == rounds - 1
            if last and rng.random() < 0.5:
                ops.append(['finalise', [rng.randint(0, 6), rng.choice(EXCS)]])
            else:
                ops.append(F)
            modes = {}
        add('random-%d' % i, ops, pre=pre)
    return out


# ------------------------------------------------------------------------------------------------ workers
def _run_child(target, sc, root, timeout):
    os.makedirs(root, exist_ok=True)
    resfile = os.path.join(root, 'result.json')
    ctx = mp.get_context('fork')
    p = ctx.Process(target=_child_main, args=(target, sc, root, resfile))
    p.start()
    p.join(timeout)
    if p.is_alive():
        p.kill()
        p.join()
        return {'event': None, 'meta': {'err': 'timeout after %ds' % timeout, 'log': _log_tail(root)}}
    try:
        with open(resfile) as fh:
            return json.load(fh)
    except (OSError, ValueError):
        return {'event': None, 'meta': {'err': 'child died (exit %s)' % p.exitcode, 'log': _log_tail(root)}}


def _child_main(target, sc, root, resfile):
    try:
        {'cli': cli_child, 'lib': lib_child}[target](sc, root, resfile)
    except BaseException:      # noqa
        try:
            with open(resfile, 'w') as fh:
                json.dump({'event': None, 'meta': {'err': traceback.format_exc()[-1500:], 'log': _log_tail(root)}}, fh)
        except OSError:
            pass
    finally:
        sys.stdout.flush()
        sys.stderr.flush()
        os._exit(0)


JUDGE_CFG = 'SPECIFICATION Spec\n'


def judge_events(events, workdir):
    """TLC verdicts [{'v':..., 'facts': {...}}] for the events, in order."""
    os.makedirs(workdir, exist_ok=True)
    tf = tlc.write_json(workdir, 'trace.json', events)
    res = tlc.run('DeferredWriterJudge', JUDGE_CFG, dump=True, env={'TRACE_FILE': tf}, workdir=workdir, workers=1, timeout=1500)
    got = {st['tid']: st['verdict'] for st in res.states() if st['verdict']['v'] != 'pending'}
    if len(got) != len(events):
        raise tlc.MachineryError('judge returned %d verdicts for %d events' % (len(got), len(events)))
    return res, [got[i + 1] for i in range(len(events))]


def scenario_class(sc, meta, facts):
    """Coverage class of a judged scenario (for the vacuity accounting)."""
    out = []
    if sc['fam'] == 'cli':
        out.append('cli:' + ('refused' if facts['left'] > 0 else ('waived' if facts['warns'] > 0 else 'clean')))
        out.append('cli-mw:' + sc['mwkind'])
        out.append('cli-paths:' + sc['paths'])
        if facts['left'] > 0 and meta.get('npre_dest', 0) > 0:
            out.append('cli:refused-with-pre-existing-destinations')
        if facts['left'] > 0 and sc.get('dumps'):
            out.append('cli:refused-with-debug-dumps')
        if facts['backups'] > 0:
            out.append('cli:backup-made')
        if meta.get('ndest') and meta.get('npre_dest') == meta.get('ndest'):
            out.append('cli:every-destination-pre-existing')
        elif sc['pre'] in ('files', 'b1', 'gap', 'hole1'):
            out.append('cli:HARNESS-predicted-output-names-incomplete')
        if facts['highslot'] >= 2:
            out.append('cli:backup-number-above-1')
        if facts['crashes'] > 0:
            out.append('cli:crash-points')
        if facts['reopen'] > 0:
            out.append('cli:one-path-opened-twice')
        dests = meta.get('dests', [])
        if sum(1 for d in dests if d.startswith('molecule_') and d.endswith('.itp')) > 1:
            out.append('cli:several-itps')
        if any(d.startswith('go_') for d in dests):
            out.append('cli:go-files')
        if any(d.endswith('.out') for d in dests):
            out.append('cli:contact-map-file')
    else:
        out.append('lib:' + sc['name'].rstrip('0123456789-'))
        if facts['finalised'] >= 2:
            out.append('lib:consecutive-finalisations')
        if facts['mixed'] > 0:
            out.append('lib:both-modes-on-one-path')
        if facts['failed'] > 0:
            out.append('lib:unwritable-destination')
        if facts['crashes'] > 0:
            out.append('lib:crash')
        if facts['discards'] > 0:
            out.append('lib:discard')
        if facts['appends'] > 0:
            out.append('lib:append')
        if facts['highslot'] >= 2:
            out.append('lib:backup-number-above-1')
    return out


def worker(idx, scenarios, scratch, outfile):
    """One worker process: runs its scenarios (each in a fresh fork), judges them with its own TLC, writes a summary."""
    t_start = time.time()
    summary = {'n': 0, 'events': 0, 'unjudged': [], 'violations': [], 'classes': collections.Counter(), 'crash_points': 0,
               'primitives': 0, 'samples': [], 'tlc': [], 'nontrivial': [], 'not_singleton': 0, 'exact': 0, 'observed': 0}
    try:
        import vermouth                      # noqa: imported once per worker, the forked children share the pages
        import vermouth.file_writer, vermouth.pdb, vermouth.gmx.gro, vermouth.gmx.topology, vermouth.dssp.dssp   # noqa
        import vermouth.rcsu.contact_map     # noqa
        results = []
        for j, sc in enumerate(scenarios):
            root = os.path.join(scratch, 'w%d_%d' % (idx, j))
            r = _run_child(sc['fam'], sc, root, 900)
            shutil.rmtree(root, ignore_errors=True)
            results.append((sc, r))
        judged = []
        for sc, r in results:
            if r.get('event'):
                judged.append((sc, r, r['event'], False))
                for e in r.get('more_events', ()):
                    judged.append((sc, r, e, True))
            else:
                summary['unjudged'].append({'scenario': sc, 'err': r['meta'].get('err'), 'log': r['meta'].get('log', '')[-600:]})
        if judged:
            wd = os.path.join(scratch, 'judge%d' % idx)
            res, verdicts = judge_events([j[2] for j in judged], wd)
            summary['tlc'].append({'distinct': res.distinct, 'generated': res.generated, 'wall': res.wall})
            shutil.rmtree(wd, ignore_errors=True)
            for (sc, r, _, variant), v in zip(judged, verdicts):
                summary['n'] += 0 if variant else 1
                summary['events'] += 1
                facts = v['facts']
                summary['crash_points'] += facts['crashes']
                summary['primitives'] += facts['prims']
                summary['exact'] += facts['exact']
                summary['observed'] += facts['observed']
                if facts['exact'] != facts['observed']:
                    summary.setdefault('inexact', []).append({'scenario': sc, 'facts': facts})
                if not r['meta'].get('same_singleton', True):
                    summary['not_singleton'] += 1
                if variant and facts['discards']:
                    summary['classes']['cli:interrupted-before-the-gate'] += 1
                elif variant:
                    summary['classes']['cli:directory-changed-during-the-run'] += 1
                    if facts['highslot'] >= 2:
                        summary['classes']['cli:backup-number-above-1'] += 1
                else:
                    for c in scenario_class(sc, r['meta'], facts):
                        summary['classes'][c] += 1
                summary['nontrivial'].append([sc['fam'], sc.get('name'), r['meta'].get('argv'), sc.get('pre'), variant and facts,
                                              r['meta'].get('opens', sc.get('ops'))])
                if sc['fam'] == 'cli' and sc.get('faults') and facts['left'] == 0 and facts['crashes'] != len(EXCS) * facts['prims']:
                    summary['unjudged'].append({'scenario': sc, 'err': 'crash points exercised %d, model has %d primitives x %d exceptions'
                                                % (facts['crashes'], facts['prims'], len(EXCS)), 'log': ''})
                if sc['fam'] == 'cli' and not variant and sc.get('ffwarn') and v['v'] == 'ok' and '-merge' not in sc['opts']:
                    # (not with -merge: merging molecules re-files the stored entries of the merged-in molecule, an observation
                    # outside the listed properties, DESIGN 9.4 - the plan below does not describe that)
                    # the warnings the force field attaches to placements are stored on the molecules and emitted when the output is
                    # prepared: every one of them has to reach the counter the gate reads (one per placement, in every molecule)
                    got = (r['meta'].get('counts') or {}).get('model', 0)
                    if got != sc['n_model']:
                        v = dict(v, v='force-field-warnings-counted-%d-placements-%d' % (got, sc['n_model']))
                    else:
                        summary['classes']['cli:force-field-warnings-all-counted'] += 1
                if v['v'] != 'ok':
                    summary['violations'].append({'scenario': dict(sc, directory_variant=True) if variant else sc, 'verdict': v['v'],
                                                  'argv': r['meta'].get('argv'), 'log': r['meta'].get('log', '')[-500:]})
                elif len(summary['samples']) < 2 and (facts['crashes'] or facts['left']) and not variant:
                    summary['samples'].append({'scenario': {k: sc[k] for k in sc if k not in ('seed',)}, 'argv': r['meta'].get('argv'),
                                               'verdict': v['v'], 'facts': facts})
    except BaseException:      # noqa
        summary['error'] = traceback.format_exc()[-2000:]
    summary['classes'] = dict(summary['classes'])
    summary['elapsed'] = time.time() - t_start
    with open(outfile + '.tmp', 'w') as fh:
        json.dump(common.jsonable(summary), fh)
    os.replace(outfile + '.tmp', outfile)


class Family:
    """Starts the worker processes at once (before the parent has any thread), collects their summaries later."""
    def __init__(self, tier, seed, scratch, nworkers=None, scenarios=None):
        self.scratch = scratch
        self.t0 = time.time()
        if scenarios is None:
            scenarios = cli_scenarios(tier, seed) + lib_scenarios(tier, seed)
        self.scenarios = scenarios
        # longest-processing-time-first onto the least loaded worker (estimated seconds: a command-line run ~6, each set of
        # crash points ~1.5, a library history ~0.3)
        def cost(sc):
            if sc['fam'] != 'cli':
                return 0.3
            return 6.0 + (1.5 * (1 + sc.get('variants', 0)) if sc.get('faults') and not sc.get('expect_left') else 0.0)
        n = nworkers or min(tlc.NCPU, max(1, len(scenarios)))
        shares, load = [[] for _ in range(n)], [0.0] * n
        for i in sorted(range(len(scenarios)), key=lambda i: (-cost(scenarios[i]), i)):
            w = min(range(n), key=lambda j: (load[j], j))
            shares[w].append(scenarios[i])
            load[w] += cost(scenarios[i])
        ctx = mp.get_context('fork')
        self.procs = []
        for w, share in enumerate(shares):
            if not share:
                continue
            out = os.path.join(scratch, 'summary_%d.json' % w)
            p = ctx.Process(target=_worker_main, args=(w, share, scratch, out))
            p.start()
            self.procs.append((p, out, share))

    def collect(self, timeout):
        merged = {'n': 0, 'events': 0, 'unjudged': [], 'violations': [], 'classes': collections.Counter(), 'crash_points': 0,
                  'primitives': 0, 'samples': [], 'tlc': [], 'nontrivial': [], 'not_singleton': 0, 'exact': 0, 'observed': 0,
                  'inexact': []}
        deadline = time.time() + timeout
        for p, out, share in self.procs:
            p.join(max(1, deadline - time.time()))
            if p.is_alive():
                p.kill()
                raise tlc.MachineryError('C07 command-line worker did not finish in %ds' % timeout)
            try:
                with open(out) as fh:
                    s = json.load(fh)
            except (OSError, ValueError):
                raise tlc.MachineryError('C07 command-line worker left no summary (exit %s)' % p.exitcode)
            if s.get('error'):
                raise tlc.MachineryError('C07 command-line worker failed:\n%s' % s['error'])
            for k in ('n', 'events', 'crash_points', 'primitives', 'not_singleton', 'exact', 'observed'):
                merged[k] += s[k]
            for k in ('unjudged', 'violations', 'samples', 'tlc', 'nontrivial'):
                merged[k] += s[k]
            merged['classes'].update(s['classes'])
            merged['inexact'] += s.get('inexact', [])
            merged['worker_s'] = max(merged.get('worker_s', 0), s.get('elapsed', 0))
        merged['wall'] = time.time() - self.t0
        return merged


def _worker_main(idx, share, scratch, out):
    try:
        worker(idx, share, scratch, out)
    finally:
        sys.stdout.flush()
        sys.stderr.flush()
        os._exit(0)


REQUIRED_CLASSES = ['cli:directory-changed-during-the-run', 'cli:interrupted-before-the-gate', 'cli:refused', 'cli:waived', 'cli:clean', 'cli:refused-with-pre-existing-destinations', 'cli:refused-with-debug-dumps',
                    'cli:backup-made', 'cli:every-destination-pre-existing', 'cli:backup-number-above-1', 'cli:crash-points', 'cli:one-path-opened-twice', 'cli:several-itps',
                    'cli:go-files', 'cli:contact-map-file', 'cli-mw:number', 'cli-mw:type', 'cli-mw:typecount', 'cli-mw:left-typeonly', 'cli-mw:left-typecount',
                    'cli-paths:abs', 'cli-paths:sub', 'cli-paths:same', 'cli-paths:xin', 'cli-paths:dots',
                    'lib:consecutive-finalisations', 'lib:both-modes-on-one-path', 'lib:unwritable-destination', 'lib:crash',
                    'lib:discard', 'lib:append', 'lib:backup-number-above-1', 'lib:spellings', 'lib:chdir', 'lib:write-onto-directory']


# ------------------------------------------------------------------------------------------------ selftest / replay
def _synthetic():
    """A hand-made, correct history of one command-line run (structure and topology written over existing files, backups
    1 and 3 of the structure exist, so the free number is 2) with its crash points - and tampered copies of it."""
    P = lambda name, n=0: b'old %s %d\nmore\n' % (name.encode(), n)
    pre = {'cg.pdb': P('cg.pdb'), '#cg.pdb.1#': P('cg.pdb', 1), '#cg.pdb.3#': P('cg.pdb', 3), 'sub/topol.top': P('topol.top'),
           'in.pdb': b'ATOM\n', 'notes.txt': b'unrelated\n'}
    top, pdb = b'[ system ]\ntitle\n', b'ATOM 1\nEND'
    opens = [{'op': 'open', 'd': 'sub/topol.top', 'mode': 'w', 'data': top, 'snap': None},
             {'op': 'open', 'd': 'cg.pdb', 'mode': 'w', 'data': pdb, 'snap': dict(pre)}]
    s1 = dict(pre)
    s1['sub/#topol.top.1#'] = s1.pop('sub/topol.top')
    s2 = dict(s1, **{'sub/topol.top': top})
    s3 = dict(s2)
    s3['#cg.pdb.2#'] = s3.pop('cg.pdb')
    s4 = dict(s3, **{'cg.pdb': pdb})
    kinds = ['Backup', 'MoveTmp', 'Backup', 'MoveTmp']
    crashes = [{'k': k, 'exc': 'halt', 'prims': kinds[:k], 'snap': s} for k, s in enumerate([pre, s1, s2, s3])]

    def gate(counts, specs, exit_, wrote, snap, cr=(), halt=-1, prims=None):
        return {'op': 'gate', 'counts': counts or {'none': 0}, 'above': 0, 'specs': specs, 'exit': exit_, 'wrote': wrote, 'halt': halt,
                'prims': kinds if prims is None else prims, 'bad': [], 'crashes': list(cr), 'snap': snap, 'tmpleft': 0}

    def ev(g, opens_=None, exempt=()):
        return EventBuilder().build(pre, [dict(o) for o in (opens_ or opens)] + [g], {'cg.pdb', 'sub/topol.top'}, exempt)
    waived = ({'pdb-alternate': 2}, [{'t': 'pdb-alternate', 'n': 2}])
    cases = [('finalised run with every crash point', ev(gate(*waived, 0, True, s4, crashes)), 'ok'),
             ('refused run', ev(gate({'pdb-alternate': 2}, [{'t': '*', 'n': 1}], 2, False, dict(pre), prims=[])), 'ok')]
    t = dict(s4)
    t['#cg.pdb.4#'] = t.pop('#cg.pdb.2#')
    cases.append(('backup number = count + 1 instead of the first free one', ev(gate(*waived, 0, True, t)), 'first-free-backup-name'))
    t = dict(s4)
    del t['#cg.pdb.2#']
    cases.append(('old file overwritten without backup', ev(gate(*waived, 0, True, t)), 'first-free-backup-name'))
    cases.append(('destination holds something else', ev(gate(*waived, 0, True, dict(s4, **{'cg.pdb': pdb + b'\nEXTRA'}))), 'does-not-hold'))
    cases.append(('unrelated file changed', ev(gate(*waived, 0, True, dict(s4, **{'notes.txt': b'changed\n'}))), 'unrelated-file-changed'))
    cases.append(('temporary file left in the directory', ev(gate(*waived, 0, True, dict(s4, **{'tmpab12.pdb': pdb}))), 'unexpected-new-file'))
    cases.append(('refused run wrote a file', ev(gate({'pdb-alternate': 2}, [], 2, False, dict(pre, **{'molecule_0.itp': b'x\n'}), prims=[])),
                  'refused-run-touched'))
    cases.append(('refused run with exit status 0', ev(gate({'pdb-alternate': 2}, [], 0, False, dict(pre), prims=[])), 'exit-0'))
    cases.append(('type waived by name, another type left, finalised anyway',
                  ev(gate({'pdb-alternate': 1, 'general': 1}, [{'t': 'pdb-alternate', 'n': -1000}], 2, True, s4)), 'although-warnings-were-left'))
    cases.append(('all waived but refused', ev(gate(*waived, 2, False, dict(pre), prims=[])), 'waived-but-run-refused'))
    bad_crash = [dict(c) for c in crashes]
    lost = dict(s3)
    del lost['#cg.pdb.2#']                   # tmp moved ... before the backup: at this crash point the old file is gone
    bad_crash[3] = dict(bad_crash[3], snap=lost)
    cases.append(('crash point at which the old file exists nowhere', ev(gate(*waived, 0, True, s4, bad_crash)), 'lost-by-interrupted'))
    bad_crash = [dict(c) for c in crashes]
    bad_crash[1] = dict(bad_crash[1], snap=dict(s2))
    cases.append(('crash point one primitive too far (safe; only reported as not exactly the model)', ev(gate(*waived, 0, True, s4, bad_crash)), 'ok'))
    half = dict(s1)
    half['#cg.pdb.1#'] = P('cg.pdb')          # an existing backup overwritten half-way
    bad_crash = [dict(c) for c in crashes]
    bad_crash[2] = dict(bad_crash[2], snap=half)
    cases.append(('crash point with an existing backup overwritten', ev(gate(*waived, 0, True, s4, bad_crash)), 'lost-by-interrupted'))
    odd = dict(s2)
    odd['#cg.pdb.5#'] = odd.pop('cg.pdb')     # safe by the letter, but no finalisation passes through it
    bad_crash = [dict(c) for c in crashes]
    bad_crash[3] = dict(bad_crash[3], snap=odd)
    cases.append(('crash point with the old file under a backup number that is not the first free one', ev(gate(*waived, 0, True, s4, bad_crash)),
                  'never-passes-through'))
    touched = [dict(o) for o in opens]
    touched[1]['snap'] = dict(pre, **{'cg.pdb': b''})
    cases.append(('destination truncated at open time', ev(gate(*waived, 0, True, s4), touched), 'touched-before-finalisation'))
    cases.append(('requested debug dump missing', ev(gate({'pdb-alternate': 2}, [], 2, False, dict(pre), prims=[]), exempt=['graph.pdb']),
                  'debug-dump-missing'))
    # a destination that cannot be written: the others may be finalised or untouched, never half-way / lost
    fin = {'op': 'finalise', 'halt': -1, 'prims': [], 'bad': ['nodir/x.itp'], 'crashes': [], 'snap': dict(s2), 'tmpleft': 1}
    g = gate({'pdb-alternate': 2}, [], 2, False, dict(pre), prims=[])
    cases.append(('refused run that leaves its temporary files', ev(dict(g, tmpleft=3)), 'temporary-files'))
    o3 = [dict(o) for o in opens[:1]] + [{'op': 'open', 'd': 'nodir/x.itp', 'mode': 'w', 'data': b'x\n', 'snap': None}, dict(opens[1])]
    mk = lambda f: EventBuilder().build(pre, [dict(o) for o in o3] + [f], {'cg.pdb', 'sub/topol.top', 'nodir/x.itp'})
    cases.append(('unwritable destination, queue stops there', mk(fin), 'ok'))
    cases.append(('unwritable destination, queue goes on', mk(dict(fin, snap=dict(s4))), 'ok'))
    cases.append(('unwritable destination, another one left without its old content', mk(dict(fin, snap={k: v for k, v in s2.items() if k != 'cg.pdb'})),
                  'lost-by-failed'))
    cases.append(('directory destination: content gone', {'kind': 'weak', 'pre': [1, 2, 3], 'post': [1, 3, 4]}, 'content-that-existed'))
    cases.append(('directory destination: content kept', {'kind': 'weak', 'pre': [1, 2], 'post': [2, 1, 4]}, 'ok'))
    return cases


def selftest(seed, scratch):
    """(1) hand-made histories: the correct ones are accepted, every tampered copy is rejected with the clause it breaks;
    (2) a history recorded from the REAL singleton is accepted, the same recording with one field changed is rejected."""
    cases = _synthetic()
    sc = [s for s in lib_scenarios('quick', seed) if s['name'] == 'two-runs'][0]
    r = _run_child('lib', sc, os.path.join(scratch, 'real'), 300)
    if not r.get('event'):
        raise tlc.MachineryError('selftest: recording failed: %s' % r['meta'])
    real = r['event']
    cases.append(('recorded history of the real singleton', real, 'ok'))
    t = json.loads(json.dumps(real))
    fin = [s for s in t['steps'] if s['op'] == 'finalise'][1]
    i = t['names'].index('#a.itp.2#')
    j = t['names'].index('#a.itp.1#')
    fin['snap'][i], fin['snap'][j] = fin['snap'][j], fin['snap'][i]
    cases.append(('the same recording with the two backups of a.itp exchanged', t, 'step'))
    t = json.loads(json.dumps(real))
    [s for s in t['steps'] if s['op'] == 'open'][2]['data'] = [9999]
    cases.append(('the same recording with other data written in the second run', t, 'does-not-hold'))
    res, verdicts = judge_events([c[1] for c in cases], os.path.join(scratch, 'judge'))
    ok = True
    for (label, _, want), v in zip(cases, verdicts):
        good = (v['v'] == 'ok') if want == 'ok' else (v['v'] != 'ok' and want in v['v'])
        ok = ok and good
        print('  %-75s -> %s%s' % (label, v['v'], '' if good else '   UNEXPECTED (wanted %s)' % want))
    return ok


def replay(sc, scratch):
    r = _run_child(sc['fam'], sc, os.path.join(scratch, 'replay'), 600)
    print('meta:', {k: v for k, v in r['meta'].items() if k != 'log'})
    if not r.get('event'):
        print(r['meta'].get('log', '')[-1500:])
        return 2
    events = [r['event']] + list(r.get('more_events', ()))
    res, verdicts = judge_events(events, os.path.join(scratch, 'judge'))
    for i, v in enumerate(verdicts):
        print('verdict of DeferredWriterJudge (%s):' % ('the run' if i == 0 else 'directory variant %d' % i), v)
    return 0 if all(v['v'] == 'ok' for v in verdicts) else 1
