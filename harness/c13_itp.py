"""C13 extension, part B - the content of `.itp` files read by vermouth.gmx.itp_read.read_itp.

spec/ItpFile.tla   state machine over abstract lines: molecule types (dictionary by name), atoms (columns, optional
                   charge / mass, indices unique and consecutive), every interaction section with its atom columns (AtomCols:
                   fixed columns and the slices of exclusions, virtual_sites4, virtual_sitesn, dihedral_restraints,
                   angle_restraints), references to atoms that do not exist, #ifdef / #ifndef / #else guards as interaction
                   metadata, #define, macros, improper dihedrals staying under [ dihedrals ], errors; the judge operators
                   JudgeFile / JudgeBlock for shipped files.

spec -> code  (1) every extension by <= 4 (5) lines of a small molecule type, (2) every file obtained from three well-formed
              skeleton files by one edit (insert any menu line anywhere, delete a line, truncate), (3) fault skeletons:
              each file is rendered to text, loaded by the real reader into a fresh ForceField, projected (blocks in order,
              atoms with all attributes, interactions per section in order with atoms as node keys AND atom names,
              parameters, ifdef / ifndef metadata) and compared with TLC's state.
code -> spec  the shipped test .itp files are read by an independent line reader (sections, columns, guards), loaded by the
              real reader, and TLC judges each pair with the column table and the reference rule of the specification."""
import glob
import json
import multiprocessing as mp
import os
import time
import re

from . import common, tlc, tlaval
from .common import REPO

NOATOM = {'idx': 0, 'atype': '', 'resid': 0, 'resname': '', 'name': '', 'cg': 0, 'charge': '-', 'mass': '-'}


def _line(k, **kw):
    l = {'k': k, 'h': '', 'name': '', 'n': 0, 'a': NOATOM, 'toks': (), 'tag': ''}
    l.update(kw)
    return l


def H(h):
    return _line('hdr', h=h)


def mol(name, nrexcl):
    return _line('mol', name=name, n=nrexcl)


def atom(idx, atype, resid, resname, name, cg, charge='-', mass='-'):
    return _line('atom', a={'idx': idx, 'atype': atype, 'resid': resid, 'resname': resname, 'name': name, 'cg': cg,
                            'charge': charge, 'mass': mass})


def tok(text):
    if text.isdigit():
        return {'isint': True, 'v': int(text), 's': ''}
    return {'isint': False, 'v': 0, 's': text}


def inter(text):
    return _line('inter', toks=tuple(tok(t) for t in text.split()))


def macro(name, value):
    return _line('macro', name=name, tag=value)


def prag(k, tag=''):
    return _line(k, tag=tag)


def line_tla(l):
    return tlaval.to_tla({'k': l['k'], 'h': l['h'], 'name': l['name'], 'n': l['n'], 'a': dict(l['a']),
                          'toks': tuple(dict(t) for t in l['toks']), 'tag': l['tag']})


def file_tla(f):
    return '<<' + ', '.join(line_tla(l) for l in f) + '>>'


def set_tla(items):
    return '{' + ', '.join(items) + '}'


def tok_text(t):
    return str(t['v']) if t['isint'] else t['s']


def line_text(l):
    k = l['k']
    if k == 'hdr':
        return '[ %s ]' % l['h']
    if k == 'mol':
        return '%s %d' % (l['name'], l['n'])
    if k == 'atom':
        a = l['a']
        cols = [str(a['idx']), a['atype'], str(a['resid']), a['resname'], a['name'], str(a['cg'])]
        cols += [a['charge']] if a['charge'] != '-' else []
        cols += [a['mass']] if a['mass'] != '-' else []
        return ' '.join(cols)
    if k == 'inter':
        return ' '.join(tok_text(t) for t in l['toks'])
    if k == 'macro':
        return '%s %s' % (l['name'], l['tag'])
    if k in ('ifdef', 'ifndef'):
        return '#%s %s' % (k, l['tag'])
    if k == 'define':
        return '#define %s' % l['tag']
    if k == 'include':
        return '#include "%s"' % l['tag']
    return '#' + k


def render(f):
    out = ['; rendered by harness/c13_itp.py']
    for i, l in enumerate(f):
        txt = line_text(l)
        if l['k'] == 'hdr':
            txt = ('[%s]', '[ %s ]', '[ %s ] ; comment', '[%s ]')[i % 4] % (l['h'].upper() if i % 5 == 2 else l['h'])
        elif not txt.startswith('#'):
            if i % 3 == 0:
                txt = '  ' + txt.replace(' ', '\t', 1)
            if i % 4 == 1:
                txt += ' ; qtot 0.0'
        out.append(txt)
        if i % 6 == 4:
            out.append('')
        if i % 7 == 2:
            out.append('; a comment line')
    return out


MACROREF = '("$K" :> "K" @@ "$U" :> "U")'

# ------------------------------------------------------------------ skeletons and menus
SKEL_FULL = [
    prag('define', 'FLEX'),
    H('macros'), macro('K', '0.25'),
    H('moleculetype'), mol('MOLA', 1),
    H('atoms'),
    atom(1, 'P4', 1, 'ALA', 'BB', 1, '0.5', '72.0'), atom(2, 'P3', 1, 'ALA', 'SC1', 2, '-1.0'), atom(3, 'P2', 2, 'GLY', 'BB', 3),
    atom(4, 'P2', 2, 'GLY', 'BB', 3), atom(5, 'VS', 2, 'GLY', 'V1', 4), atom(6, 'VS', 2, 'GLY', 'V2', 4),
    H('bonds'), inter('1 2 1 $K 100'),
    prag('ifdef', 'FLEX'), inter('2 3 1 0.3 200'), prag('else'), inter('2 3 6 0.3 200'), prag('endif'),
    H('angles'), inter('1 2 3 2 120 50'),
    H('dihedrals'), inter('1 2 3 4 2 0 50'), inter('1 2 3 4 1 180 5 2'),
    H('exclusions'), inter('1 2 3 4'),
    H('virtual_sites4'), inter('5 1 2 3 4 2 0.1 0.2 0.3'),
    H('virtual_sitesn'), inter('6 1 1 2 3'),
    H('dihedral_restraints'), inter('1 2 3 4 1 0 0 10'),
    H('position_restraints'), prag('ifndef', 'NOPOSRES'), inter('1 1 1000 1000 1000'), prag('endif'),
    H('moleculetype'), mol('MOLB', 2),
    H('atoms'), atom(1, 'Q1', 1, 'ION', 'NA', 1, '1.0'), atom(2, 'Q1', 1, 'ION', 'CL', 1),
    H('pairs'), inter('1 2 1'),
    H('settles'), inter('1 1 0.1 0.2'),
]
SKEL_DICT = [
    H('moleculetype'), mol('MOLA', 1), H('atoms'), atom(1, 'P4', 1, 'ALA', 'BB', 1), atom(2, 'P4', 1, 'ALA', 'SC1', 1),
    H('bonds'), inter('1 2 1 0.2 100'),
    H('moleculetype'), mol('MOLB', 3), H('atoms'), atom(1, 'Q1', 1, 'ION', 'NA', 1),
    H('moleculetype'), mol('MOLA', 2), H('atoms'), atom(1, 'C1', 1, 'XXX', 'A', 1), atom(2, 'C1', 1, 'XXX', 'B', 1),
    atom(3, 'C1', 1, 'XXX', 'C', 2),
    H('angles'), inter('1 2 3 1 90 20'), H('constraints'), inter('1 3 1 0.4'),
]
SKEL_REST = [
    H('moleculetype'), mol('REST', 1), H('atoms'), atom(1, 'C1', 1, 'R', 'A', 1), atom(2, 'C1', 1, 'R', 'B', 1),
    atom(3, 'C1', 1, 'R', 'C', 1), atom(4, 'C1', 1, 'R', 'D', 1),
    H('virtual_sites2'), inter('3 1 2 1 0.5'), H('virtual_sites3'), inter('4 1 2 3 1 0.1 0.2'), H('virtual_sites1'), inter('2 1 1'),
    H('pairs_nb'), inter('1 4 1 0.0 0.0 0.3 0.1'),
    H('distance_restraints'), inter('1 2 1 0 1 0.1 0.2 0.3 1.0'), H('orientation_restraints'), inter('1 2 1 1 1 1.0 0.5 1.0'),
    H('angle_restraints'), inter('1 2 3 4 1 90 10 1'), H('angle_restraints_z'), inter('1 2 1 90 10 1'),
    H('exclusions'), inter('1 2'), inter('2 3 4'),
    H('virtual_sitesn'), inter('4 2 1'), inter('4 1'),
]
# fault skeletons (read as they are): a later molecule type refers to atoms it does not have
SKEL_STALE = [
    H('moleculetype'), mol('MOLA', 1), H('atoms'), atom(1, 'P4', 1, 'ALA', 'BB', 1), atom(2, 'P4', 1, 'ALA', 'SC1', 1),
    H('bonds'), inter('1 2 1 0.2 100'),
    H('moleculetype'), mol('MOLB', 1), H('bonds'), inter('1 2 1 0.3 100'),
]
SKEL_STALE2 = SKEL_STALE[:9] + [H('atoms'), atom(1, 'Q1', 1, 'ION', 'NA', 1), H('bonds'), inter('1 2 1 0.3 100')]
SKELETONS = {'full': SKEL_FULL, 'dict': SKEL_DICT, 'rest': SKEL_REST}

EDIT_LINES = [mol('MOLC', 1), atom(7, 'P1', 3, 'SER', 'BB', 5), atom(1, 'P1', 3, 'SER', 'BB', 5), atom(0, 'P1', 3, 'SER', 'BB', 5),
              atom(3, 'P1', 3, 'SER', 'BB', 5, '0.0', '36.0'), inter('1 2 1 0.2 100'), inter('1 9 1 0.2 100'), inter('1'),
              inter('BB SC1 1 0.2'), inter('0 1 1'), inter('+1 2'), inter('1 2 3 4 5 6 7'), inter('1 2 $U'), inter('1 2 $K'),
              macro('K', '0.5'), prag('ifdef', 'X'), prag('ifndef', 'X'), prag('else'), prag('endif'), prag('define', 'Y'),
              prag('include', 'x.itp')]
EDIT_HEADERS = ['moleculetype', 'atoms', 'bonds', 'dihedrals', 'impropers', 'exclusions', 'virtual_sitesn', 'virtual_sites4',
                'macros', 'defaults', 'atomtypes', 'system']
EDIT_MENU = [H(h) for h in EDIT_HEADERS] + EDIT_LINES
EDIT_MENU_QUICK = [H(h) for h in ('moleculetype', 'atoms', 'bonds', 'impropers', 'atomtypes')] + \
    [mol('MOLC', 1), atom(1, 'P1', 3, 'SER', 'BB', 5), inter('1 2 1 0.2 100'), inter('1 9 1 0.2 100'),
     inter('1'), inter('BB SC1 1 0.2'), inter('0 1 1'), inter('1 2 $U'), prag('ifdef', 'X'), prag('endif'), prag('include', 'x.itp')]

ENUM_START = [H('moleculetype'), mol('A', 1), H('atoms'), atom(1, 'P4', 1, 'ALA', 'BB', 1), atom(2, 'P4', 1, 'ALA', 'SC1', 2, '0.5'),
              H('bonds'), inter('1 2 1 0.2 100')]
ENUM_MENU = [H('moleculetype'), mol('B', 2), mol('A', 3), H('atoms'), atom(1, 'Q1', 1, 'ION', 'NA', 1), atom(3, 'P1', 2, 'GLY', 'BB', 3),
             H('bonds'), H('exclusions'), inter('1 2 1 0.3'), inter('1 3'), prag('ifdef', 'X'), prag('else'), prag('endif')]

INVARIANTS = ('BlocksExactlyOnce', 'NoDanglingReference', 'AtomsConsecutive', 'InteractionsCounted')
CFG = 'SPECIFICATION Spec\n' + ''.join('INVARIANT %s\n' % i for i in INVARIANTS)


def run_model(name, skeletons, edit_menu, nedits, menu, max_extra, trace_file='', stale=False, timeout=1800, workers=None,
              invariants=True, allow_violation=False):
    res = tlc.run('ItpFile', CFG if invariants else 'SPECIFICATION Spec\n',
                  consts={'MacroRef': MACROREF, 'Menu': set_tla(line_tla(l) for l in menu), 'MaxExtra': str(max_extra),
                          'Skeletons': set_tla(file_tla(f) for f in skeletons), 'EditMenu': set_tla(line_tla(l) for l in edit_menu),
                          'NEdits': str(nedits), 'TraceFile': tlaval.to_tla(trace_file), 'StaleNames': 'TRUE' if stale else 'FALSE'},
                  dump=True, timeout=timeout, workers=workers)
    if res.violated and invariants and not allow_violation:
        raise tlc.MachineryError('ItpFile (%s) violates %s' % (name, res.violated))
    return res


# ------------------------------------------------------------------ real reader, projection, comparison
def load_real(lines):
    import vermouth.forcefield
    from vermouth.gmx.itp_read import read_itp
    ff = vermouth.forcefield.ForceField(name='verif_c13_itp')
    try:
        read_itp(list(lines), ff)
    except Exception as exc:      # noqa - any exception is a rejection
        return {'outcome': 'error', 'exc': repr(exc)[:200]}
    blocks = []
    for name, blk in ff.blocks.items():
        atoms = [[k, dict(v)] for k, v in blk.nodes.items()]
        inters = []
        for sec, lst in blk.interactions.items():
            for it in lst:
                inters.append({'sec': sec, 'keys': list(it.atoms),
                               'names': [blk.nodes[a].get('atomname', '?') if a in blk.nodes else '<no such atom>' for a in it.atoms],
                               'params': [str(p) for p in it.parameters], 'meta': dict(it.meta)})
        blocks.append({'key': name, 'name': blk.name, 'nrexcl': blk.nrexcl, 'atoms': atoms, 'inter': inters,
                       'nedges': blk.number_of_edges()})
    return {'outcome': 'loaded', 'blocks': blocks}


def expected_blocks(st):
    out = []
    for b in st['st']['blocks']:
        atoms = []
        for a in b['atoms']:
            attrs = {'index': a['idx'], 'atomname': a['name'], 'atype': a['atype'], 'resname': a['resname'], 'resid': a['resid'],
                     'charge_group': a['cg']}
            if a['charge'] != '-':
                attrs['charge'] = float(a['charge'])      # text -> float: conversion only, exact
            if a['mass'] != '-':
                attrs['mass'] = float(a['mass'])
            atoms.append([a['idx'] - 1, attrs])
        names = {a['idx']: a['name'] for a in b['atoms']}
        inters = []
        for it in b['inter']:                             # already per section, sections in order of first use
            g = it['guard']
            inters.append({'sec': it['sec'], 'keys': [i - 1 for i in it['atoms']], 'names': [names.get(i, '?') for i in it['atoms']],
                           'params': [tok_text(t) for t in it['params']],
                           'meta': {} if g['cond'] == 'none' else {g['cond']: g['tag']}})
        out.append({'key': b['name'], 'name': b['name'], 'nrexcl': b['nrexcl'], 'atoms': atoms, 'inter': inters, 'nedges': 0})
    return out


def compare(exp, got):
    if [b['key'] for b in exp] != [b['key'] for b in got['blocks']]:
        return 'blocks %r, declared %r' % ([b['key'] for b in got['blocks']], [b['key'] for b in exp])
    for e, g in zip(exp, got['blocks']):
        for fld in ('name', 'nrexcl', 'atoms', 'nedges'):
            if e[fld] != g[fld]:
                return 'block %s %s: loaded %s, declared %s' % (e['key'], fld, json.dumps(g[fld])[:300], json.dumps(e[fld])[:300])
        if len(e['inter']) != len(g['inter']):
            return 'block %s: %d interactions loaded, %d declared' % (e['key'], len(g['inter']), len(e['inter']))
        for k, (ei, gi) in enumerate(zip(e['inter'], g['inter']), 1):
            if ei != gi:
                return 'block %s interaction %d: loaded %s, declared %s' % (e['key'], k, json.dumps(gi)[:300], json.dumps(ei)[:300])
    return ''


def stale_line(f):
    """1-based index of the first interaction line of a later molecule type read before any [ atoms ] section of that
    molecule type has been closed (the shape of defect D20, fixed in /repo: such a reference must be rejected), or 0."""
    nmol, sec, closed = 0, '', False
    for i, l in enumerate(f, 1):
        if l['k'] == 'hdr':
            if sec == 'atoms' and l['h'] != 'moleculetype':
                closed = True
            sec = l['h']
            if sec == 'moleculetype':
                nmol += 1
                closed = False
        elif l['k'] in ('inter', 'mol', 'atom') and nmol >= 2 and not closed and sec not in ('moleculetype', 'atoms', 'macros'):
            return i
    return 0


def thaw(f):
    return [dict(l, a=dict(l['a']), toks=[dict(t) for t in l['toks']]) for l in f]


def file_key(f):
    return json.dumps(thaw(f), sort_keys=True)


def _replay_chunk(args):
    bodies, wanted = args
    n, bad, unspec, cases, kept, nload = 0, [], 0, [], {}, 0
    for body in bodies:
        st = tlaval.parse_state_body(body)
        outcome = st['st']['outcome']
        key = file_key(st['file'])
        if key in wanted:
            kept[key] = st
        if outcome == 'unspecified':
            unspec += 1
            continue
        text = render(st['file'])
        got = load_real(text)
        n += 1
        nload += outcome == 'loaded'
        why = ''
        if got['outcome'] != outcome:
            why = 'model outcome %s (line %d: %s), reader %s %s' % (outcome, st['st']['n'],
                                                                    line_text(st['file'][st['st']['n'] - 1]) if st['st']['n'] else '',
                                                                    got['outcome'], got.get('exc', ''))
        elif outcome == 'loaded':
            why = compare(expected_blocks(st), got)
        if why:
            sl = stale_line(st['file'])
            bad.append({'part': 'itp', 'family': 'replay', 'text': text, 'why': why,
                        'stale_reference': bool(sl) and outcome == 'error' and st['st']['n'] == sl})
        nmol = sum(1 for l in st['file'] if l['k'] == 'hdr' and l['h'] == 'moleculetype')
        nint = sum(1 for l in st['file'] if l['k'] == 'inter')
        if outcome == 'loaded' and (nmol >= 2 or nint >= 2) or outcome == 'error' and nint >= 1:
            cases.append(text)
    return n, bad, unspec, cases, kept, nload


_STATE_HDR = re.compile(r'^State \d+:\n', re.M)


def final_bodies(res, wave=20000):
    """Raw text of the dumped states in which a file has been read to its end (distinct ones), streamed from the dump in
    waves of at most `wave` states so that large dumps never sit in memory."""
    import hashlib
    seen, out, cur = set(), [], []

    def flush():
        body = ''.join(cur)
        if not body or 'phase = "lines"' not in body or 'outcome |-> "reading"' in body:
            return
        h = hashlib.md5(body.encode()).digest()
        if h not in seen:
            seen.add(h)
            out.append(body)
    with open(res.dump_path) as fh:
        for line in fh:
            if line.startswith('State ') and _STATE_HDR.match(line):
                flush()
                cur = []
                if len(out) >= wave:
                    yield out
                    out = []
            else:
                cur.append(line)
    flush()
    if out:
        yield out


def replay_states(res, ev, vd, label, wanted=()):
    outs = []
    with mp.Pool(tlc.NCPU) as pool:
        for bodies in final_bodies(res):
            outs += pool.map(_replay_chunk, [(p, set(wanted)) for p in common.chunks(bodies, tlc.NCPU * 2)])
    unspec, kept, total, loaded = 0, {}, 0, 0
    for n, bad, u, cases, k, nl in outs:
        total += n
        loaded += nl
        ev.traces += n
        ev.evaluations += n
        unspec += u
        kept.update(k)
        for b in bad:
            vd.violation('replay-mismatch', b, '%s: %s' % (label, b['why']))
        for c in cases:
            ev.nontrivial_case(['itp', c])
    if loaded == 0 or loaded == total:
        raise tlc.MachineryError('%s: vacuous family (%d files compared, %d of them loadable)' % (label, total, loaded))
    return unspec, kept


# ------------------------------------------------------------------ shipped files
KNOWN_INTER = {'bonds', 'angles', 'dihedrals', 'constraints', 'pairs', 'pairs_nb', 'exclusions', 'position_restraints',
               'virtual_sites1', 'virtual_sites2', 'virtual_sites3', 'virtual_sites4', 'virtual_sitesn', 'settles',
               'distance_restraints', 'dihedral_restraints', 'orientation_restraints', 'angle_restraints', 'angle_restraints_z'}


def classify(path):
    """Independent line reader: what the file writes (sections, columns, guards), no interpretation of the columns."""
    blocks, rejected, sec, guard = [], False, None, None
    with open(path, encoding='utf8', errors='replace') as fh:
        for raw in fh:
            txt = raw.split(';', 1)[0].strip()
            if not txt:
                continue
            if txt.startswith('['):
                sec = txt.strip('[]').strip().lower()
                if sec == 'moleculetype':
                    blocks.append({'name': '', 'nrexcl': -1, 'natoms': 0, 'anames': [], 'lines': []})
                continue
            if txt.startswith('#'):
                w = txt.split()
                if w[0] in ('#ifdef', '#ifndef') and guard is None and len(w) == 2:
                    guard = [w[0][1:], w[1]]
                elif w[0] == '#else' and guard is not None:
                    guard = ['ifndef' if guard[0] == 'ifdef' else 'ifdef', guard[1]]
                elif w[0] == '#endif' and guard is not None:
                    guard = None
                elif w[0] == '#define':
                    pass
                else:
                    rejected = True
                continue
            cols = txt.split()
            if sec == 'moleculetype' and blocks:
                blocks[-1]['name'], blocks[-1]['nrexcl'] = cols[0], int(cols[1])
            elif sec == 'atoms' and blocks:
                blocks[-1]['natoms'] += 1
                blocks[-1]['anames'].append(cols[4])
            elif sec in KNOWN_INTER and blocks:
                blocks[-1]['lines'].append({'sec': sec, 'toks': [tok(c) for c in cols], 'cond': guard[0] if guard else 'none',
                                            'tag': guard[1] if guard else ''})
            else:
                rejected = True
    if guard is not None:
        rejected = True
    for b in blocks:                                      # interactions are declared per section (a section may be reopened)
        order = []
        for ln in b['lines']:
            if ln['sec'] not in order:
                order.append(ln['sec'])
        b['lines'] = [ln for sec in order for ln in b['lines'] if ln['sec'] == sec]
    return {'blocks': blocks, 'rejected': rejected}


def _shipped_one(path):
    d = classify(path)
    with open(path, encoding='utf8', errors='replace') as fh:
        got = load_real(fh.read().splitlines())
    loaded = []
    for b in got.get('blocks', []):
        inter = []
        for it in b['inter']:
            cond = [c for c in ('ifdef', 'ifndef') if c in it['meta']]
            inter.append({'sec': it['sec'], 'atoms': [k + 1 for k in it['keys']], 'nparams': len(it['params']),
                          'params': ['' if p.isdigit() else p for p in it['params']],
                          'iparams': [int(p) if p.isdigit() and len(p) < 10 else 0 for p in it['params']],
                          'cond': cond[0] if cond else 'none', 'tag': it['meta'][cond[0]] if cond else ''})
        loaded.append({'name': b['name'] or '', 'nrexcl': b['nrexcl'] if isinstance(b['nrexcl'], int) else -1, 'natoms': len(b['atoms']),
                       'anames': [a[1].get('atomname', '?') for a in b['atoms']], 'inter': inter})
    # dictionary semantics of the declared blocks (by name: first position, last value)
    decl, pos = [], {}
    for b in d['blocks']:
        if b['name'] in pos:
            decl[pos[b['name']]] = b
        else:
            pos[b['name']] = len(decl)
            decl.append(b)
    nlines = sum(len(b['lines']) for b in decl)
    return {'path': os.path.relpath(path, REPO), 'blocks': decl, 'rejected': d['rejected'], 'outcome': got['outcome'], 'loaded': loaded,
            'nlines': nlines}


def judge(events, workers=1):
    work = tlc.scratch('c13i_')
    slim = [{k: e[k] for k in ('blocks', 'rejected', 'outcome', 'loaded')} for e in events]
    for e in slim:
        e['blocks'] = [{k: b[k] for k in ('name', 'nrexcl', 'natoms', 'anames', 'lines')} for b in e['blocks']]
    tf = tlc.write_json(work, 'itp.json', slim)
    res = tlc.run('ItpFile', 'SPECIFICATION Spec\n',
                  consts={'MacroRef': MACROREF, 'Menu': '{}', 'MaxExtra': '0', 'Skeletons': '{}', 'EditMenu': '{}', 'NEdits': '0',
                          'TraceFile': tlaval.to_tla(tf), 'StaleNames': 'FALSE'}, dump=True, timeout=3000, workers=workers, workdir=work)
    verdicts = {}
    for st in res.states():
        if st['phase'] == 'judge' and st['verdict'] != 'pending':
            verdicts[st['tid']] = st['verdict']
    return res, verdicts


def shipped_part(quick, ev, vd):
    files = sorted(glob.glob(os.path.join(REPO, 'vermouth', 'tests', 'data', '**', '*.itp'), recursive=True))
    if quick:
        files = [p for p in files if os.path.getsize(p) < 40000]
    with mp.Pool(tlc.NCPU) as pool:
        events = pool.map(_shipped_one, files)
    if not events or all(e['rejected'] for e in events):
        raise tlc.MachineryError('no shipped .itp file to judge')
    res, verdicts = judge(events, workers=4)
    ev.add_tlc('TRACE ItpFile.JudgeFile (%d shipped .itp files, %d interaction lines)' % (len(events), sum(e['nlines'] for e in events)), res)
    for i, e in enumerate(events, 1):
        ev.traces += 1
        ev.evaluations += 1 + e['nlines']
        v = verdicts.get(i, 'no-verdict')
        if v != 'ok':
            vd.violation('trace-rejected', {'part': 'itp', 'family': 'shipped', 'path': e['path']}, '%s: %s' % (e['path'], v))
        if e['nlines'] >= 2:
            ev.nontrivial_case(['itp-shipped', e['path']])
    ev.extra['shipped_itp_files'] = len(events)
    ev.extra['shipped_itp_files_rejected_as_declared'] = sum(1 for e in events if e['rejected'])


# ------------------------------------------------------------------ driver
def run_part(tier, seed, ev, vd):
    quick = tier == 'quick'
    ev.rule += (' .itp: non-trivial = loaded file with >= 2 molecule types or >= 2 interaction lines, or rejected file with an '
                'interaction line; distinct by text.')
    ev.assumptions += [
        '.itp: atoms are numbered consecutively from 1 in file order (GROMACS requires it); files that are not, molecule types '
        'without / with two name lines, lines of the wrong shape that happen to parse, unknown sections without content and atom '
        'lines with more than 8 columns are generated but not compared (outcome "unspecified" in spec/ItpFile.tla)',
        '.itp: the atom-column table (AtomCols) is the GROMACS one (virtual_sites1: site and constructing atom; the reader listed '
        'one atom column until D26 was fixed); charge and mass texts are converted with float() for the comparison',
        '.itp: the reader creates no edges; the projection requires zero edges']
    t0, times = time.time(), {}
    # 1. every extension of a small molecule type
    depth = 4 if quick else 5
    res = run_model('enumeration', [ENUM_START], [], 0, ENUM_MENU, depth)
    ev.add_tlc('MC ItpFile (small molecule type + all sequences of <= %d more lines over %d lines)' % (depth, len(ENUM_MENU)), res)
    unspec, _ = replay_states(res, ev, vd, '.itp enumeration')
    times['enumeration'] = round(time.time() - t0, 1)
    # 2. one edit of each skeleton, fault skeletons as they are
    emenu = EDIT_MENU_QUICK if quick else EDIT_MENU
    res = run_model('edits', SKELETONS.values(), emenu, 1, [], 0)
    ev.add_tlc('TAB ItpFile (3 skeleton files, one edit: insert any of %d lines anywhere / delete / truncate)' % len(emenu), res)
    u, kept = replay_states(res, ev, vd, '.itp skeleton edit', wanted=[file_key(SKEL_FULL)])
    unspec += u
    st = kept.get(file_key(SKEL_FULL))
    if st is not None and st['st']['outcome'] == 'loaded':
        ev.sample({'kind': '.itp skeleton replayed', 'text': render(SKEL_FULL)[:14] + ['...'],
                   'expected_interactions_of_first_block': expected_blocks(st)[0]['inter'][:6]})
    times['edits'] = round(time.time() - t0, 1)
    if not quick:                      # (the quick enumeration already contains a later molecule type without atoms)
        res = run_model('faults', [SKEL_STALE, SKEL_STALE2, SKEL_DICT], [], 0, [], 0)
        ev.add_tlc('TAB ItpFile (fault skeletons: molecule type referring to atoms it does not have)', res)
        unspec += replay_states(res, ev, vd, '.itp fault skeleton')[0]
        res = run_model('edits2', [SKEL_DICT], EDIT_MENU_QUICK[:3] + EDIT_MENU_QUICK[5:12], 2, [], 0, timeout=3000)
        ev.add_tlc('TAB ItpFile (1 skeleton file, two edits)', res)
        unspec += replay_states(res, ev, vd, '.itp two edits')[0]
    ev.extra['itp_files_outside_grammar_not_compared'] = unspec
    # 3. shipped files
    shipped_part(quick, ev, vd)
    times['shipped'] = round(time.time() - t0, 1)
    ev.extra['itp_part_elapsed_s'] = times


def selftest_part(seed):
    # spec mutant: the reader as found (atom references checked against the remembered atom list of an EARLIER molecule type)
    res = run_model('selftest', [SKEL_STALE], [], 0, [], 0, stale=True, allow_violation=True)
    assert res.violated == 'NoDanglingReference', res.violated
    print('selftest C13/.itp: StaleNames=TRUE violates NoDanglingReference on the file', [line_text(l) for l in SKEL_STALE])
    # tampered recordings
    good = _shipped_one_text(SKEL_DICT)
    bad1 = json.loads(json.dumps(good))
    bad1['loaded'][0]['inter'][0]['atoms'] = [1, 3, 2]
    bad2 = json.loads(json.dumps(good))
    bad2['loaded'][0]['inter'][1]['params'][1] = '0.5'
    bad3 = json.loads(json.dumps(good))
    bad3['loaded'] = bad3['loaded'] + [bad3['loaded'][0]]
    res, verdicts = judge([good, bad1, bad2, bad3])
    assert verdicts[1] == 'ok' and all(verdicts[i] != 'ok' for i in (2, 3, 4)), verdicts
    print('selftest C13/.itp: tampered recordings rejected:', verdicts[2], '/', verdicts[3], '/', verdicts[4])
    return 0


def _shipped_one_text(f):
    import tempfile
    with tempfile.NamedTemporaryFile('w', suffix='.itp', delete=False) as fh:
        fh.write('\n'.join(render(f)) + '\n')
    try:
        e = _shipped_one(fh.name)
    finally:
        os.unlink(fh.name)
    return e
