"""C07 - no output from a run with unwaived warnings; existing files are never lost.

spec/DeferredWriterOps.tla   pure operators: deferred open, the effect of every file-system primitive of finalisation, the
                             first-free-backup rule, Steps / StateAfter / FinalOf, SafeOf (PreExistingSafe), FinalisedOf
spec/DeferredWriter.tla      directory + pending table + one action per primitive + Crash + Gate, written with those
                             operators; PreExistingSafe over every (crashed) state; StepsAgree / FinalAgrees tie the state
                             machine to the closed forms the judge uses                                        (MC + SIM)
spec/DeferredWriterJudge.tla TLC judges recorded histories of the REAL command line and of the process-wide writer with the
                             same operators (harness/c07_cli.py: families cli / crash / lib)                     (TRACE)
spec/Trace_Writers.tla       TLC judges (a) directory snapshots around every library writer and (b) real bin/martinize2
                             SUBPROCESSES with engineered warnings and -maxwarn lists (exit status of the process, the
                             directory, the temporary files left after the process has gone)                      (TRACE)

spec -> code: every transition of the MC graph, and simulated behaviours of a larger instance, are replayed on a real
(non-singleton) DeferredFileWriter in a scratch directory; finalisation prefixes and crashes are realised by halting
write() at the k-th file-system primitive (wrappers installed on the names vermouth.file_writer uses); the sequence of
primitives actually executed must be the model's action sequence and the directory must equal `fs`.

code -> spec (c07_cli.py): the real entry() of bin/martinize2 in forked processes, in directories that already hold the
files the run writes and backups with gaps, for every warning / -maxwarn situation and path style; the same fault wrappers
inside the command-line process (one forked child per crash point and exception kind); histories on the singleton through
every access route.  The worker processes of that part are started first and run beside the replay; each runs AND judges
its share (own TLC process) and returns a summary."""
import collections
import json
import multiprocessing as mp
import os
import random
import re
import shutil
import subprocess
import sys
import tempfile

from . import common, tlc, tlaval
from .common import REPO

PID = 'C07'

CFG = """SPECIFICATION Spec
INVARIANT PreExistingSafe
INVARIANT RefusedIsFinal
INVARIANT OneEntryPerDestination
INVARIANT StepsAgree
INVARIANT FinalAgrees
PROPERTY UntouchedUntilFinalise
PROPERTY NeverOverwrites
PROPERTY FinalisedAtDone
"""
PRIMS = {'Backup', 'MoveTmp', 'AppendDest', 'RmTmp'}


class _Halt(BaseException):
    """Raised by the fault wrappers to stop write() between two primitives."""


class Faults:
    """Wrappers installed on the names `vermouth.file_writer` uses for file-system primitives."""
    def __init__(self, fw):
        self.fw = fw
        self.log = []
        self.halt_after = None     # halt before primitive number halt_after + 1
        self.active = False
        self.make_exc = _Halt      # what the k-th boundary raises (c07_cli also uses KeyboardInterrupt / OSError)
        self.orig = (fw.shutil, fw.os, fw._open)
        outer = self

        class ShutilProxy:
            def __getattr__(self, name):
                return getattr(shutil, name)

            def move(self, src, dst, *a, **k):
                kind = 'Backup' if os.path.basename(str(dst)).startswith('#') else 'MoveTmp'
                outer.boundary(kind, src, dst)
                return shutil.move(src, dst, *a, **k)

        class OsProxy:
            def __getattr__(self, name):
                return getattr(os, name)

            def remove(self, path, *a, **k):
                outer.boundary('RmTmp', path, None)
                return os.remove(path, *a, **k)

        def open_wrapper(file, mode='r', *a, **k):
            if outer.active and 'a' in mode:
                outer.boundary('AppendDest', None, file)
            return outer.orig[2](file, mode, *a, **k)

        fw.shutil, fw.os, fw._open = ShutilProxy(), OsProxy(), open_wrapper

    def boundary(self, kind, src, dst):
        if not self.active:
            return
        if self.halt_after is not None and len(self.log) >= self.halt_after:
            raise self.make_exc()
        self.log.append(kind)

    def restore(self):
        self.fw.shutil, self.fw.os, self.fw._open = self.orig


# ---------------------------------------------------------------- real directory <-> model fs
FILE_OF = {'p': os.path.join('sub', 'p.itp'), 'q': 'q.top', 'r': 'r.pdb', 's': os.path.join('sub', 's.gro'), 'u': 'u.map'}


def name_of(root, p, n):
    f = os.path.join(root, FILE_OF[p])
    if n == 0:
        return f
    return os.path.join(os.path.dirname(f), '#%s.%d#' % (os.path.basename(f), n))


def materialise(root, fs):
    os.makedirs(os.path.join(root, 'sub'), exist_ok=True)
    for (p, n), content in fs.items():
        if content != ('#absent',):
            with open(name_of(root, p, n), 'w') as fh:
                fh.write(''.join(t + '\n' for t in content))


def snapshot(root, paths, k):
    """Directory as model fs; also returns names not explained by the model's name space."""
    out = {}
    known = set()
    for p in paths:
        for n in range(0, k + 1):
            f = name_of(root, p, n)
            known.add(os.path.abspath(f))
            if os.path.exists(f):
                with open(f) as fh:
                    out[(p, n)] = tuple(fh.read().split('\n')[:-1])
            else:
                out[(p, n)] = ('#absent',)
    stray = []
    for d, _, files in os.walk(root):
        if os.path.basename(d) == 'tmpdir':
            continue
        for f in files:
            if os.path.abspath(os.path.join(d, f)) not in known:
                stray.append(os.path.relpath(os.path.join(d, f), root))
    return out, sorted(stray)


def fresh_writer(fw, tmpdir):
    w = type.__call__(fw.DeferredFileWriter)      # a private instance, not the process-wide singleton
    w._tmpdir = tmpdir
    return w


def run_path(init_fs, labels, paths, k, rng):
    """Replay one model behaviour (list of action labels from an initial fs). Returns (fs snapshot, stray files,
    executed primitive log, expected primitive list, error text or None)."""
    import vermouth.file_writer as fw
    root = tempfile.mkdtemp(prefix='c07_', dir=_SCRATCH)
    tmpdir = os.path.join(root, 'tmpdir')
    os.makedirs(tmpdir)
    faults = Faults(fw)
    cwd = os.getcwd()
    err = None
    executed, expected = [], []
    try:
        materialise(root, init_fs)
        os.chdir(root)
        w = fresh_writer(fw, tmpdir)
        i = 0
        while i < len(labels):
            name, args = labels[i]
            if name == 'OpenWrite':
                p, m, t = args
                spelled = FILE_OF[p] if rng.random() < 0.5 else os.path.join(root, FILE_OF[p])
                if rng.random() < 0.3:
                    spelled = os.path.join('.', FILE_OF[p]) if not os.path.isabs(spelled) else spelled
                if rng.random() < 0.3:
                    with w.open(spelled, m + 'b') as fh:
                        fh.write((t + '\n').encode())
                else:
                    with w.open(spelled, m) as fh:
                        fh.write(t + '\n')
                i += 1
            elif name == 'Discard':
                w.close()
                i += 1
            elif name == 'Gate' and args[0] != 0:
                w.close()           # the process exits without write(); __del__ discards
                i += 1
            elif name in ('Gate', 'BeginWrite'):
                j = i + 1
                prims = []
                while j < len(labels) and labels[j][0] in PRIMS:
                    prims.append(labels[j][0])
                    j += 1
                completes = j < len(labels) and labels[j][0] == 'Done'
                faults.log = []
                faults.active = True
                faults.halt_after = None if completes else len(prims)
                try:
                    w.write()
                    halted = False
                except _Halt:
                    halted = True
                finally:
                    faults.active = False
                executed += faults.log
                expected += prims
                if completes and halted:
                    err = 'write() halted unexpectedly'
                if not completes and not halted and j < len(labels) and labels[j][0] == 'Crash':
                    # the model still has primitives to go at the crash point but write() returned
                    pass
                i = j + (1 if j < len(labels) and labels[j][0] in ('Done', 'Crash') else 0)
            else:
                err = 'unknown action %s' % name
                break
        snap, stray = snapshot(root, paths, k)
    except Exception as exc:      # noqa
        err = 'exception %r' % (exc,)
        snap, stray = {}, []
    finally:
        os.chdir(cwd)
        faults.restore()
        shutil.rmtree(root, ignore_errors=True)
    return snap, stray, executed, expected, err


_SCRATCH = None
_G = None
_FAST = []


def fast_scratch(prefix):
    """Scratch root for the hundreds of thousands of tiny directories the replay creates and removes: memory-backed
    (/dev/shm) when the machine has it and TMPDIR does not say otherwise - on a disk-backed /tmp the replay is I/O bound.
    Removed at exit by this module (also when the run ends with a violation or a machinery failure)."""
    base = None
    if not os.environ.get('TMPDIR') and os.path.isdir('/dev/shm') and os.access('/dev/shm', os.W_OK | os.X_OK):
        base = '/dev/shm'
    try:
        d = tempfile.mkdtemp(prefix=prefix, dir=base)
    except OSError:
        d = tempfile.mkdtemp(prefix=prefix)
    if not _FAST:
        import atexit
        owner = os.getpid()

        def _rm():
            if os.getpid() == owner:
                for x in _FAST:
                    shutil.rmtree(x, ignore_errors=True)
        atexit.register(_rm)
    _FAST.append(d)
    return d


def parse_label(label):
    m = re.match(r'(\w+)(?:\((.*)\))?$', label, re.S)
    return m.group(1), (tlaval.parse('<<' + m.group(2) + '>>') if m.group(2) else ())


_EDGE = re.compile(r'^(-?\d+) -> (-?\d+) \[label="(.*?)",color', re.M)
_NODE = re.compile(r'^(-?\d+) \[label="(.*?)"(?:,style|,tooltip)', re.M)


def load_dot(path):
    with open(path) as fh:
        txt = fh.read()
    nodes, edges, seen = {}, collections.defaultdict(list), set()
    for m in _NODE.finditer(txt):
        nodes[m.group(1)] = m.group(2).replace('\\n', '\n').replace('\\"', '"').replace('\\\\', '\\')
    for m in _EDGE.finditer(txt):
        key = (m.group(1), m.group(2), m.group(3))
        if key not in seen:
            seen.add(key)
            edges[m.group(1)].append((m.group(2), m.group(3).replace('\\"', '"')))
    return nodes, edges, len(seen)


def _edge_chunk(args):
    idxs, seed = args
    nodes_txt, edge_list, parent, paths, k = _G
    rng = random.Random(seed)
    bad, n, prim_steps = [], 0, 0
    cache = {}

    def st(fp):
        if fp not in cache:
            cache[fp] = tlaval.parse_state_body(nodes_txt[fp])
        return cache[fp]

    for ei in idxs:
        src, tgt, label = edge_list[ei]
        # path from the root to src along the BFS tree
        labels, fp = [], src
        while fp in parent:
            pfp, plabel = parent[fp]
            labels.append(plabel)
            fp = pfp
        labels.reverse()
        labels.append(label)
        init_fs = st(fp)['fs']
        parsed = [parse_label(x) for x in labels]
        snap, stray, executed, expected, err = run_path(init_fs, parsed, paths, k, rng)
        n += 1
        prim_steps += len(executed)
        target = st(tgt)
        want = {key: tuple(v) for key, v in target['fs'].items()}
        why = None
        if err:
            why = err
        elif executed != expected:
            why = 'primitive sequence: model %s, implementation %s' % (expected, executed)
        elif snap != want:
            diff = {str(key): (want[key], snap.get(key)) for key in want if want[key] != snap.get(key)}
            why = 'directory differs (model, implementation): %s' % diff
        elif stray:
            why = 'files outside the model name space: %s' % stray
        if why and len(bad) < 5:
            bad.append({'init_fs': {'%s|%d' % key: list(v) for key, v in init_fs.items()}, 'path': labels, 'why': why})
    return n, prim_steps, bad


def replay_graph(dot, paths, k, seed, ev, vd, limit=None):
    global _G
    nodes_txt, edges, nedges = load_dot(dot)
    roots = [fp for fp, body in nodes_txt.items() if re.search(r'opens = 0\b', body) and re.search(r'rounds = 0\b', body)
             and 'phase = "running"' in body and 'pending = <<>>' in body]
    parent, seen = {}, set(roots)
    frontier = list(roots)
    while frontier:
        nxt = []
        for fp in frontier:
            for tgt, label in edges.get(fp, ()):
                if tgt in nodes_txt and tgt not in seen:
                    seen.add(tgt)
                    parent[tgt] = (fp, label)
                    nxt.append(tgt)
        frontier = nxt
    edge_list = [(s, t, l) for s, lst in edges.items() for t, l in lst if t in nodes_txt and s in seen]
    rng = random.Random(seed)
    idxs = list(range(len(edge_list)))
    if limit and len(idxs) > limit:
        idxs = sorted(rng.sample(idxs, limit))
    _G = (nodes_txt, edge_list, parent, paths, k)
    acts = collections.Counter(parse_label(edge_list[i][2])[0] for i in idxs)
    with mp.Pool(tlc.NCPU) as pool:
        outs = pool.map(_edge_chunk, [(c, seed * 131 + i) for i, c in enumerate(common.chunks(idxs, tlc.NCPU * 4))])
    total = 0
    for n, ps, bad in outs:
        total += n
        ev.traces += n
        ev.evaluations += n
        for b in bad:
            vd.violation('replay-mismatch', b, b['why'])
    ev.extra['replayed_transitions_by_action'] = dict(acts)
    return total, len(edge_list), acts


# ---------------------------------------------------------------- simulation (bigger instance)
def _sim_chunk(args):
    files, paths, k, seed = args
    rng = random.Random(seed)
    bad, n = [], 0
    for f in files:
        beh = tlaval.parse_simulate_file(f)
        if len(beh) < 2:
            continue
        init_fs = beh[0][2]['fs']
        labels = []
        for act, a, st in beh[1:]:
            labels.append((act, tlaval.parse('<<' + (a or '') + '>>')))
        # check the directory at the end of every prefix that ends in a complete/crashed/idle point
        cut = len(labels)
        snap, stray, executed, expected, err = run_path(init_fs, labels[:cut], paths, k, rng)
        n += 1
        want = {key: tuple(v) for key, v in beh[cut][2]['fs'].items()}
        why = None
        if err:
            why = err
        elif executed != expected:
            why = 'primitive sequence: model %s, implementation %s' % (expected, executed)
        elif snap != want:
            why = 'directory differs: %s' % {str(key): (want[key], snap.get(key)) for key in want if want[key] != snap.get(key)}
        elif stray:
            why = 'stray files %s' % stray
        if why:
            bad.append({'init_fs': {'%s|%d' % key: list(v) for key, v in init_fs.items()},
                        'path': ['%s(%s)' % (a, b or '') for a, b, _ in beh[1:]], 'why': why})
    return n, bad


# ---------------------------------------------------------------- library writers (deferral not by-passed)
def writer_cases():
    """(name, callable(system_dir) -> list of destination file names)"""
    import numpy as np
    import vermouth
    from vermouth.molecule import Molecule, Interaction
    from vermouth.system import System
    from vermouth.forcefield import ForceField

    def small_system():
        ff = ForceField(name='verif')
        system = System(force_field=ff)
        mol = Molecule(force_field=ff, nrexcl=1)
        mol.meta['moltype'] = 'molA'
        for i in range(3):
            mol.add_node(i, atomname='B%d' % i, resname='ALA', resid=1, chain='A', atype='P1', charge_group=i + 1,
                         position=np.array([0.1 * i, 0.0, 0.0]), element='C', charge=0.0, mass=72.0, _old_resid=1)
        mol.add_edge(0, 1)
        mol.add_interaction('bonds', (0, 1), ['1', '0.3', '1000'])
        system.add_molecule(mol)
        system.meta['header'] = ['verification header']
        return system

    def w_pdb(d):
        vermouth.pdb.write_pdb(small_system(), os.path.join(d, 'out.pdb'))
        return ['out.pdb']

    def w_gro(d):
        s = small_system()
        for m in s.molecules:
            m.box = np.array([3.0, 3.0, 3.0])
        vermouth.gmx.gro.write_gro(s, os.path.join(d, 'out.gro'))
        return ['out.gro']

    def w_top(d):
        vermouth.gmx.topology.write_gmx_topology(small_system(), os.path.join(d, 'topol.top'))
        return ['topol.top', 'molA.itp']

    def w_contacts(d):
        from vermouth.rcsu import contact_map
        contact_map._write_contacts(os.path.join(d, 'contacts.out'), [(1, 'A', 5, 'A')],
                                    {0: {'resname': 'ALA', 'resid': 1, 'chain': 'A'}} if False else None) \
            if False else _call_write_contacts(contact_map, os.path.join(d, 'contacts.out'))
        return ['contacts.out']

    def w_atomtypes(d):
        from vermouth.gmx.topology import write_atomtypes, Atomtype
        s = small_system()
        s.gmx_topology_params['atomtypes'].append(Atomtype(molecule=s.molecules[0], node=0, sigma=0.0, epsilon=0.0, meta={}))
        write_atomtypes(s, os.path.join(d, 'virtual_sites_atomtypes.itp'))
        return ['virtual_sites_atomtypes.itp']

    def w_nonbond(d):
        from vermouth.gmx.topology import write_nonbond_params, NonbondParam
        s = small_system()
        s.gmx_topology_params['nonbond_params'].append(NonbondParam(atoms=('a_1', 'a_2'), sigma=0.5, epsilon=9.4, meta={}))
        write_nonbond_params(s, os.path.join(d, 'go_nbparams.itp'))
        return ['go_nbparams.itp']

    return [('write_pdb', w_pdb), ('write_gro', w_gro), ('write_gmx_topology', w_top), ('write_contacts', w_contacts),
            ('write_atomtypes', w_atomtypes), ('write_nonbond_params', w_nonbond)]


def _call_write_contacts(contact_map, path):
    """Call the contact-map writer with whatever signature this tree has."""
    import inspect
    fn = contact_map._write_contacts
    params = list(inspect.signature(fn).parameters)
    # (fout, all_contacts, ca_pos, G) in this tree: build tiny consistent arguments
    import numpy as np
    import networkx as nx
    g = nx.Graph()
    g.add_node(0, resname='ALA', resid=1, chain='A')
    g.add_node(1, resname='GLY', resid=5, chain='A')
    all_contacts = [[0, 1, 1, 1, 1, 1, 1, 1, 1, 1]] if False else []
    try:
        return fn(path, all_contacts, np.zeros((2, 3)), g)
    except TypeError:
        return fn(path, all_contacts)


def dir_ids(root):
    """name -> content id (int) for every file under root."""
    out = {}
    for d, _, files in os.walk(root):
        for f in files:
            with open(os.path.join(d, f), 'rb') as fh:
                out[os.path.relpath(os.path.join(d, f), root)] = fh.read()
    return out


def writer_events(seed):
    import vermouth.file_writer as fw
    rng = random.Random(seed)
    events = []
    for name, fn in writer_cases():
        for preexisting in (False, True):
            root = tempfile.mkdtemp(prefix='c07w_', dir=_SCRATCH)
            cwd = os.getcwd()
            os.chdir(root)
            try:
                fw.DeferredFileWriter().close()
                err = ''
                dests = []
                if preexisting:
                    probe = tempfile.mkdtemp(prefix='probe_', dir=_SCRATCH)
                    try:
                        dests = fn(probe)
                    finally:
                        fw.DeferredFileWriter().close()
                        shutil.rmtree(probe, ignore_errors=True)
                    for dname in dests:
                        with open(os.path.join(root, dname), 'w') as fh:
                            fh.write('precious old content of %s\n' % dname)
                        if rng.random() < 0.5:
                            with open(os.path.join(root, '#%s.1#' % dname), 'w') as fh:
                                fh.write('older backup\n')
                before = dir_ids(root)
                try:
                    dests = fn(root)
                except Exception as exc:   # noqa
                    err = 'writer raised %r' % (exc,)
                after_call = dir_ids(root)
                fw.DeferredFileWriter().write()
                after_write = dir_ids(root)
            finally:
                os.chdir(cwd)
                fw.DeferredFileWriter().close()
                shutil.rmtree(root, ignore_errors=True)
            contents = sorted(set(before.values()) | set(after_call.values()) | set(after_write.values()))
            cid = {c: i + 1 for i, c in enumerate(contents)}
            names = sorted(set(before) | set(after_call) | set(after_write))

            def enc(snap):
                return [[n, cid[snap[n]] if n in snap else 0] for n in names]
            events.append({'kind': 'writer', 'writer': name, 'names': names, 'dests': sorted(dests), 'before': enc(before),
                           'after_call': enc(after_call), 'after_write': enc(after_write), 'err': err})
    return events


# ---------------------------------------------------------------- CLI gate
def make_gate_pdb(n_alt):
    """dipro-termini with n_alt extra alternate-location copies of atoms (one pdb-alternate warning each)."""
    src = os.path.join(REPO, 'vermouth', 'tests', 'data', 'integration_tests', 'tier-0', 'dipro-termini', 'aa.pdb')
    lines = open(src).read().splitlines()
    atoms = [l for l in lines if l.startswith('ATOM')]
    out = []
    done = 0
    for l in lines:
        out.append(l)
        if l.startswith('ATOM') and done < n_alt and l[12:16].strip() in ('CB', 'CG', 'CD'):
            alt = l[:16] + 'B' + l[17:]
            out.append(alt)
            done += 1
    return '\n'.join(out) + '\n'


EXTRA_FF = '''[ link ]
resname "PRO"
[ atoms ]
BB {}
+BB {}
[ edges ]
BB +BB
[ warning ]
verification: force-field defined warning for {BB[resname]}{BB[resid]}
'''


def gate_start(args):
    """Start one real bin/martinize2 SUBPROCESS (the only place where a real process exit is observed); returns a handle."""
    n_alt, maxwarn, preexisting, idx = args[:4]
    ffwarn = len(args) > 4 and args[4]
    root = tempfile.mkdtemp(prefix='c07g_', dir=_SCRATCH)
    tmpd = tempfile.mkdtemp(prefix='c07gt_', dir=_SCRATCH)
    with open(os.path.join(root, 'in.pdb'), 'w') as fh:
        fh.write(make_gate_pdb(n_alt))
    if ffwarn:
        # a force-field defined [ warning ] entry: reported as a warning of type "model" when the output is prepared
        os.makedirs(os.path.join(root, 'ff', 'martini3001'))
        with open(os.path.join(root, 'ff', 'martini3001', 'verif_extra.ff'), 'w') as fh:
            fh.write(EXTRA_FF)
    outs = ['cg.pdb', 'topol.top', 'molecule_0.itp']
    if preexisting:
        for f in outs:
            with open(os.path.join(root, f), 'w') as fh:
                fh.write('precious %s\n' % f)
    before = {k: v for k, v in dir_ids(root).items() if not k.startswith('ff' + os.sep)}
    cmd = [sys.executable, os.path.join(REPO, 'bin', 'martinize2'), '-f', 'in.pdb', '-x', 'cg.pdb', '-o', 'topol.top',
           '-ff', 'martini3001', '-nt', '-noscfix']
    for group in maxwarn:
        cmd += ['-maxwarn'] + group
    if ffwarn:
        cmd += ['-ff-dir', 'ff']
    env = dict(os.environ)
    env['PYTHONPATH'] = REPO
    env['TMPDIR'] = tmpd          # the writer's temporary files: what is left of them after the process has gone?
    err = open(os.path.join(tmpd + '.stderr'), 'w+')
    p = subprocess.Popen(cmd, cwd=root, env=env, stdout=subprocess.DEVNULL, stderr=err, text=True)
    return {'p': p, 'root': root, 'tmpd': tmpd, 'err': err, 'before': before, 'outs': outs, 'preexisting': preexisting,
            'maxwarn': maxwarn, 'cmd': cmd, 't0': __import__('time').time()}


def gate_finish(h):
    p, root = h['p'], h['root']
    try:
        try:
            p.wait(timeout=900)
        except subprocess.TimeoutExpired:
            p.kill()
            raise tlc.MachineryError('martinize2 subprocess timed out: %s' % ' '.join(h['cmd'][2:]))
        h['err'].seek(0)
        stderr = h['err'].read()
        h['err'].close()
        before, outs, preexisting, maxwarn = h['before'], h['outs'], h['preexisting'], h['maxwarn']
        after = {k: v for k, v in dir_ids(root).items() if not k.startswith('ff' + os.sep)}
        counts = collections.Counter()
        above = 0
        for line in stderr.splitlines():
            m = re.match(r'\s*(WARNING|ERROR|CRITICAL) - (\S+) - ', line)
            if m and m.group(1) == 'WARNING':
                counts[m.group(2)] += 1
            elif m and 'warnings were encountered after accounting' not in line:
                above += 1
        specs = []
        for group in maxwarn:
            for s in group:
                if ':' in s:
                    t, n = s.split(':')
                    specs.append({'t': t, 'n': int(n)})
                else:
                    try:
                        specs.append({'t': '*', 'n': int(s)})
                    except ValueError:
                        specs.append({'t': s, 'n': -1000})
        new = sorted(set(after) - set(before))
        changed = sorted(n for n in before if n in after and after[n] != before[n])
        lost = sorted(n for n in before if n not in after)
        backups_ok = all(('#%s.1#' % f) in after and after['#%s.1#' % f] == before[f] for f in outs) if preexisting else True
        return {'kind': 'gate', 'counts': dict(counts) or {'none': 0}, 'above': above, 'specs': specs, 'exit': p.returncode,
                'new': new, 'changed': changed, 'lost': lost, 'outs': outs, 'preexisting': preexisting,
                'backups_ok': backups_ok, 'outs_present': all(f in after for f in outs),
                'tmp_left': sorted(dir_ids(h['tmpd'])),
                'argv': ' '.join(h['cmd'][2:]), 'stderr_tail': stderr[-300:]}
    finally:
        shutil.rmtree(root, ignore_errors=True)
        shutil.rmtree(h['tmpd'], ignore_errors=True)
        try:
            os.remove(h['tmpd'] + '.stderr')
        except OSError:
            pass


def judge(events):
    work = tlc.scratch('c07t_')
    tf = tlc.write_json(work, 'trace.json', events)
    res = tlc.run('Trace_Writers', 'SPECIFICATION Spec\n', dump=True, env={'TRACE_FILE': tf}, workdir=work, workers=2, timeout=900)
    return res, {st['tid']: st['verdict'] for st in res.states() if st['verdict'] != 'pending'}


# ---------------------------------------------------------------- driver
def run(tier, seed, ev, vd):
    global _SCRATCH
    from . import c07_cli
    _SCRATCH = fast_scratch('c07fs_')
    quick = tier == 'quick'
    # the command-line / singleton families: worker processes started before anything else (no thread exists yet); they run
    # beside the model checking and the replay below and are collected at the end
    # C07_PARTS=mc,sim,writers,gate,hist selects parts of the check (debugging / mutation testing only; default: all)
    parts = set(os.environ.get('C07_PARTS', 'mc,sim,writers,gate,hist').split(','))
    famdir = os.path.join(_SCRATCH, 'cli')
    os.makedirs(famdir)
    family = c07_cli.Family(tier, seed, famdir, nworkers=tlc.NCPU) if 'hist' in parts else None
    gate_matrix = [
        (0, [], True), (2, [], True), (2, [['2']], True), (2, [['pdb-alternate:1'], ['1']], True),
        (3, [['pdb-alternate:2', '1']], False), (1, [['pdb-alternate']], True),
        (0, [], True, True), (0, [['model:1']], True, True), (1, [['pdb-alternate']], True, True),
    ]
    if not quick:
        gate_matrix += [(3, [['pdb-alternate:2'], ['0']], True), (2, [['unmapped-atom:5']], True), (2, [['1']], False),
                        (1, [['general']], True), (3, [['pdb-alternate:1', 'pdb-alternate:3']], True), (2, [['-1']], True),
                        (0, [['3']], False), (3, [['2'], ['pdb-alternate:1']], True), (1, [['1']], True),
                        (2, [['pdb-alternate:2']], False)]
    if 'gate' not in parts:
        gate_matrix = []
    gate_handles = [gate_start((g[0], g[1], g[2], i) + tuple(g[3:])) for i, g in enumerate(gate_matrix[:tlc.NCPU])]
    ev.rule = ('MC: every transition of DeferredWriter (2 paths, K backup slots, every set of pre-existing files/backups, opens '
               'in w/a, discard, gate, every crash point), replayed on a real writer; SIM: behaviours of a 4-path instance; '
               'library writers x {fresh, pre-existing}; real CLI subprocesses x warnings x -maxwarn; recorded histories of the '
               'real entry() (warning situation x -maxwarn form x path style x pre-existing files / backups with gaps x debug '
               'dumps x every crash point x 3 exception kinds) and of the process-wide writer (consecutive runs, discard, both '
               'modes, spellings, chdir, unwritable destinations). Non-trivial = behaviour that reaches finalisation with a '
               'pre-existing destination, or a crash, or a refusing gate; distinct by behaviour / by command line, directory '
               'and recorded opens.')
    ev.assumptions = ['a crash inside one file-system primitive (half-copied file) is below the step size of the model',
                      'the same path opened in both w and a: the statement does not say which mode decides how the destination '
                      'is finalised; not part of the model-checked instance, and the judge of recorded histories admits either '
                      'reading (what was written follows the sequential meaning: w truncates, a adds); mode a+ / r+ not generated',
                      'two outputs on one path (-x and -o equal, -x on a molecule ITP): sequential meaning, the destination '
                      'holds what the LAST opening in w mode wrote and the old file is backed up once',
                      'warning counts of CLI subprocesses are read from the log lines on stderr; in-process runs read the '
                      'counter when ignore_warnings_and_count is called',
                      'debug dumps requested with -write-* are set aside as the statement says (may be new / overwritten at '
                      'once, whatever the gate decides); they must exist after the run (Martinize.tla: written immediately)',
                      'a destination that cannot be written (missing directory, parent is a file, appending to a directory): '
                      'the statement only says that pre-existing files survive; required beyond that: every other destination is in '
                      'a state finalisation passes through. A destination that IS a directory (w mode) is outside the vocabulary of '
                      'the statement: only "no content is lost" is required',
                      'temporary files: a martinize2 process must leave none behind in $TMPDIR (observed on real subprocesses)',
                      'contents are compared line by line (sequences of line identifiers); generated appends fall on line ends']
    if 'mc' in parts:
        run_mc(quick, seed, ev, vd)
    if 'sim' in parts:
        run_sim(quick, seed, ev, vd)
    run_snapshots(parts, seed, ev, vd, gate_matrix, gate_handles)
    if family is not None:
        run_histories(family, quick, ev, vd)


def run_mc(quick, seed, ev, vd):
    paths = ['p', 'q']
    consts = {'Path': '{"p","q"}', 'K': '2', 'Tok': '{"x","y"}', 'MaxOpens': '2' if quick else '3',
              'MaxRounds': '1' if quick else '2'}
    work = tlc.scratch('c07_')
    dot = os.path.join(work, 'g.dot')
    res = tlc.run('DeferredWriter', CFG, consts=consts, workdir=work, extra=['-dump', 'dot,actionlabels', dot], timeout=3000)
    if res.violated:
        raise tlc.MachineryError('DeferredWriter violates %s' % res.violated)
    ev.add_tlc('MC DeferredWriter %s' % consts, res)
    total, nedges, acts = replay_graph(dot, paths, 2, seed, ev, vd, limit=None if not quick else 12000)
    ev.exhaustive = total == nedges
    need = {'OpenWrite', 'Discard', 'Gate', 'Backup', 'MoveTmp', 'AppendDest', 'RmTmp', 'Done', 'Crash'}
    if need - set(acts):
        raise tlc.MachineryError('vacuous: actions never replayed %s' % sorted(need - set(acts)))
    os.remove(dot)
    ev.extra['transitions_in_graph'] = nedges



def run_sim(quick, seed, ev, vd):
    # simulation of a larger instance
    big = {'Path': '{"p","q","r","s"}', 'K': '3', 'Tok': '{"x","y","z"}', 'MaxOpens': '7', 'MaxRounds': '3'}
    nsim = 400 if quick else 8000
    w2 = tlc.scratch('c07s_')
    sres = tlc.run('DeferredWriter', CFG, consts=big, workdir=w2, seed=seed + 5, workers=tlc.NCPU,
                   simulate={'num': max(1, nsim // tlc.NCPU), 'file': True}, depth=30, timeout=3000)
    if sres.violated:
        raise tlc.MachineryError('DeferredWriter simulation violates %s' % sres.violated)
    files = tlc.sim_files(sres)
    with mp.Pool(tlc.NCPU) as pool:
        outs = pool.map(_sim_chunk, [(c, ['p', 'q', 'r', 's'], 3, seed * 17 + i) for i, c in enumerate(common.chunks(files, tlc.NCPU))])
    nb = 0
    for n, bad in outs:
        nb += n
        for b in bad:
            vd.violation('simulated-behaviour-mismatch', b, b['why'])
    ev.traces += nb
    ev.evaluations += nb
    ev.tlc_runs.append({'run': 'SIM DeferredWriter 4 paths K=3', 'behaviours': nb})
    if files:
        beh = tlaval.parse_simulate_file(files[0])
        calls = ['%s(%s)' % (a, b or '') for a, b, _ in beh[1:]]
        ev.sample({'kind': 'simulated behaviour replayed on a real DeferredFileWriter', 'calls': calls})
    # distinct non-trivial behaviours: from simulation files (cheap re-parse of action names only)
    for f in files:
        txt = open(f).read()
        names = re.findall(r'^\\\* <(\w+)', txt, re.M)
        if 'Crash' in names or 'Backup' in names or 'AppendDest' in names:
            ev.nontrivial_case(re.findall(r'^\\\* <(.*?) line', txt, re.M))



def run_snapshots(parts, seed, ev, vd, gate_matrix, gate_handles):
    # library writers + CLI subprocesses, judged by TLC
    events = writer_events(seed) if 'writers' in parts else []
    gate_events = [gate_finish(h) for h in gate_handles]
    rest = gate_matrix[len(gate_handles):]
    while rest:
        hs = [gate_start((g[0], g[1], g[2], i) + tuple(g[3:])) for i, g in enumerate(rest[:tlc.NCPU])]
        gate_events += [gate_finish(h) for h in hs]
        rest = rest[tlc.NCPU:]
    all_events = events + gate_events
    if not all_events:
        return
    jres, verdicts = judge([{k: v for k, v in e.items() if k not in ('stderr_tail', 'argv')} for e in all_events])
    ev.add_tlc('TRACE Trace_Writers (writer snapshots + CLI subprocesses)', jres)
    for i, e in enumerate(all_events, 1):
        ev.traces += 1
        ev.evaluations += 1
        v = verdicts.get(i, 'no-verdict')
        ev.nontrivial_case([e['kind'], e.get('writer'), e.get('argv'), e.get('before')])
        if v != 'ok':
            vd.violation('trace-rejected', e, '%s %s: %s' % (e['kind'], e.get('writer', e.get('argv')), v))
    if len(gate_events) > 1:
        ev.sample({'kind': 'CLI subprocess judged by TLC', 'event': {k: gate_events[1][k] for k in
                                                                      ('argv', 'counts', 'specs', 'exit', 'new', 'changed', 'lost', 'tmp_left')}})
    ev.extra['cli_gate_runs'] = len(gate_events)
    ev.extra['library_writer_snapshots'] = len(events)



def run_histories(family, quick, ev, vd):
    from . import c07_cli
    # the command line and the singleton as systems under test (started at the top of run())
    m = family.collect(2400 if quick else 7200)
    for u in m['unjudged'][:3]:
        print('UNJUDGED C07 history: %s\n  %s\n  %s' % (u['err'], {k: u['scenario'].get(k) for k in ('fam', 'name', 'chains', 'opts', 'paths', 'mwkind')},
                                                          (u.get('log') or '')[-400:].replace('\n', '\n  ')), file=sys.stderr)
    if m['not_singleton']:
        vd.violation('writer-not-shared', {'fam': 'singleton'}, 'bin/martinize2, vermouth.file_writer.deferred_open and the library '
                     'modules do not share one DeferredFileWriter in %d processes' % m['not_singleton'])
    for v in m['violations']:
        vd.violation('history-rejected', v['scenario'], '%s: %s' % (v.get('argv') or v['scenario'].get('name'), v['verdict']))
    # machinery: everything generated must have been judged, and every class of history must have occurred - unless histories
    # were rejected (a rejected history stops being walked, so its later steps are not counted)
    missing = [c for c in c07_cli.REQUIRED_CLASSES if not m['classes'].get(c)]
    if not m['violations'] and not vd.count():
        if m['unjudged']:
            raise tlc.MachineryError('%d recorded histories could not be judged (first: %s)' % (len(m['unjudged']), m['unjudged'][0]['err']))
        if missing:
            raise tlc.MachineryError('vacuous: history classes never judged: %s' % missing)
    elif m['unjudged'] or missing:
        print('NOTE C07: besides the rejected histories, %d histories could not be judged; classes not reached: %s' % (len(m['unjudged']), missing))
    ev.traces += m['events'] + m['crash_points']
    ev.evaluations += m['events'] + m['crash_points']
    for c in m['nontrivial']:
        ev.nontrivial_case(c)
    for smp in m['samples'][:1]:
        ev.sample({'kind': 'recorded history of the real command line judged by DeferredWriterJudge', 'history': smp}, limit=4)
    ev.states += sum(t['distinct'] for t in m['tlc'])
    ev.transitions += sum(t['generated'] for t in m['tlc'])
    ev.tlc_runs.append({'run': 'TRACE DeferredWriterJudge (%d worker-local TLC processes)' % len(m['tlc']),
                        'distinct_states': sum(t['distinct'] for t in m['tlc']), 'states_generated': sum(t['generated'] for t in m['tlc']),
                        'wall_s': round(max([t['wall'] for t in m['tlc']] or [0]), 2)})
    ev.extra['recorded_histories'] = m['events']
    ev.extra['crash_points_in_real_command_line_and_singleton'] = m['crash_points']
    ev.extra['finalisation_primitives_judged'] = m['primitives']
    ev.extra['observations_exactly_as_modelled'] = '%d of %d (crash points: the directory after k primitives and the primitives executed; completed finalisations: the primitive sequence) - reported, not required' % (m['exact'], m['observed'])
    if m['exact'] != m['observed']:
        print('NOTE C07: %d of %d observed finalisations / crash points are safe but not exactly the modelled primitive sequence' % (m['observed'] - m['exact'], m['observed']))
    ev.extra['history_classes'] = dict(sorted(m['classes'].items()))
    ev.extra['histories_slowest_worker_s'] = round(m.get('worker_s', 0), 1)
    for x in m['inexact'][:3]:
        print('  not exactly as modelled: %s %s' % (x['scenario'].get('name') or x['scenario'].get('opts'), json.dumps(x['scenario'].get('ops'))[:600]))


def replay(sc):
    global _SCRATCH
    _SCRATCH = fast_scratch('c07r_')
    if 'fam' in sc and sc['fam'] in ('cli', 'lib'):
        from . import c07_cli
        return c07_cli.replay(sc, _SCRATCH)
    if 'path' in sc:
        init = {(k.split('|')[0], int(k.split('|')[1])): tuple(v) for k, v in sc['init_fs'].items()}
        paths = sorted({k[0] for k in init})
        kk = max(k[1] for k in init)
        labels = [parse_label(x) for x in sc['path']]
        print(run_path(init, labels, paths, kk, random.Random(0)))
        print('expected problem:', sc['why'])
    else:
        print(sc)
    return 0


def selftest(seed):
    global _SCRATCH
    from . import c07_cli
    _SCRATCH = fast_scratch('c07st_')
    events = writer_events(seed)
    e = dict(events[1])
    e['after_call'] = e['after_write']          # pretend the writer by-passed deferral
    e2 = dict(events[3])
    e2['after_write'] = [[n, 0 if n.startswith('#') else c] for n, c in e2['after_write']]   # pretend the backup vanished
    gate = {'kind': 'gate', 'counts': {'pdb-alternate': 2}, 'above': 0, 'specs': [], 'exit': 2, 'new': [], 'changed': [], 'lost': [],
            'outs': ['cg.pdb'], 'preexisting': True, 'backups_ok': True, 'outs_present': False, 'tmp_left': []}
    g2 = dict(gate, tmp_left=['tmpab12.pdb'])   # pretend the refused process left a temporary file behind
    g3 = dict(gate, exit=0)
    res, verdicts = judge([events[0], e, e2, gate, g2, g3])
    assert verdicts[1] == 'ok' and verdicts[2] != 'ok' and verdicts[3] != 'ok', verdicts
    assert verdicts[4] == 'ok' and 'temporary' in verdicts[5] and 'exit-0' in verdicts[6], verdicts
    print('selftest C07: tampered writer snapshots rejected:', verdicts[2], '/', verdicts[3])
    print('selftest C07: tampered subprocess records rejected:', verdicts[5], '/', verdicts[6])
    # spec mutant: a backup step that always uses number 1 must be refuted by the model checker (NeverOverwrites / PreExistingSafe)
    print('selftest C07: recorded histories (DeferredWriterJudge):')
    ok = c07_cli.selftest(seed, _SCRATCH)
    assert ok, 'a tampered history was accepted or a correct one rejected'
    print('selftest C07: passed')
    return 0
