"""C13, command-line level: several -map-dir directories (spec/MapCombine.tla).

TLC enumerates what each of two user directories defines over four keys (destination force field x molecule); the harness
writes one Backward-style .map file per (directory, key) whose weights carry the directory's tag, runs the REAL entry() of
bin/martinize2 with `-map-dir d1 -map-dir d2` in a forked child, takes the mapping table at the moment the command line has
finished combining the user directories (its last call of combine_mappings), reads off which directory's mapping is in effect for
every key and compares with TLC's `out`."""
import multiprocessing as mp
import os
import shutil
import sys

from . import common, tlc

KEYS = ['martini3001>GLY', 'martini3001>ALA', 'martini22>GLY', 'martini22>ALA']
TAG_ATOM = {1: 'CA', 2: 'N'}          # directory i maps only this atom into BB with a non-zero weight


class _Stop(Exception):
    pass


def _write_dirs(base, d):
    dirs = []
    for i in (1, 2):
        path = os.path.join(base, 'maps%d' % i)
        os.makedirs(path)
        dirs.append(path)
        for key in d[i - 1]:
            to, name = key.split('>')
            atoms = ['N', 'CA', 'C', 'O']
            lines = ['[ molecule ]', name, '[from]', 'charmm', '[to]', to, '[ martini ]', 'BB', '[ atoms ]']
            for k, a in enumerate(atoms, 1):
                lines.append('%d %s %sBB' % (k, a, '' if a == TAG_ATOM[i] else '!'))
            with open(os.path.join(path, '%s.%s.map' % (name.lower(), to)), 'w') as fh:
                fh.write('\n'.join(lines) + '\n')
    return dirs


def _tag(mapping):
    heavy = {a: w for a, beads in mapping.items() for b, w in beads.items() if w}
    names = set(heavy)
    for i, atom in TAG_ATOM.items():
        if names == {atom}:
            return i
    return 0


def _run_state(args):
    idx, d = args
    import importlib.machinery
    import importlib.util
    base = tlc.scratch('c13cli_')
    try:
        dirs = _write_dirs(base, d)
        loader = importlib.machinery.SourceFileLoader('m2_c13cli', os.path.join(common.REPO, 'bin', 'martinize2'))
        spec = importlib.util.spec_from_loader('m2_c13cli', loader)
        mod = importlib.util.module_from_spec(spec)
        loader.exec_module(mod)
        captured = {}
        orig_self = mod.generate_all_self_mappings

        def stop_here(force_fields):
            # entry() builds the self mappings right after the user directories were combined: nothing else happens between
            if not hasattr(force_fields, 'get'):
                force_fields = {ff.name: ff for ff in force_fields}
            captured['ff'] = {
                'update': 'VRFA' in getattr(force_fields.get('martini3001'), 'blocks', {}),
                'update-link': any(l.molecule_meta.get('verif') == 'a' for l in getattr(force_fields.get('martini3001'), 'links', [])),
                'new': 'VRFB' in getattr(force_fields.get('veriffield'), 'blocks', {}),
                'kept': 'GLY' in getattr(force_fields.get('martini3001'), 'blocks', {}),
                'elsewhere': any('VRFA' in ff.blocks or 'VRFB' in ff.blocks for n, ff in force_fields.items()
                                 if n not in ('martini3001', 'veriffield')),
            }
            raise _Stop()
        orig_combine = mod.combine_mappings

        def spy(known, partial):
            captured['table'] = known
            return orig_combine(known, partial)
        mod.combine_mappings = spy
        mod.generate_all_self_mappings = stop_here
        # a user force-field directory as well: one sub-directory named like a SHIPPED force field (its files extend that force
        # field), one with a new name (a new force field)
        ffd = os.path.join(base, 'ffd')
        os.makedirs(os.path.join(ffd, 'martini3001'))
        os.makedirs(os.path.join(ffd, 'veriffield'))
        with open(os.path.join(ffd, 'martini3001', 'extra.ff'), 'w') as fh:
            fh.write('[ moleculetype ]\nVRFA 1\n[ atoms ]\n1 P1 1 VRFA A 1 0\n2 P1 1 VRFA B 2 0\n[ bonds ]\nA B 1 0.3 1000\n'
                     '[ link ]\n[ molmeta ]\nverif "a"\n[ bonds ]\nBB +BB 1 0.31 1000\n')
        with open(os.path.join(ffd, 'veriffield', 'blk.ff'), 'w') as fh:
            fh.write('[ moleculetype ]\nVRFB 1\n[ atoms ]\n1 P1 1 VRFB A 1 0\n')
        argv = ['martinize2', '-f', os.path.join(common.REPO, 'vermouth/tests/data/integration_tests/tier-0/dipro-termini/aa.pdb'),
                '-x', os.path.join(base, 'cg.pdb'), '-ff', 'martini3001', '-map-dir', dirs[0], '-map-dir', dirs[1], '-ff-dir', ffd]
        old = list(sys.argv)
        sys.argv = argv
        err = ''
        try:
            mod.entry()
        except _Stop:
            pass
        except BaseException as exc:       # noqa
            err = repr(exc)[:200]
        finally:
            sys.argv = old
        table = captured.get('table')
        got = {}
        if table is not None:
            for key in KEYS:
                to, name = key.split('>')
                try:
                    got[key] = _tag(table['charmm'][to][name].mapping)
                except KeyError:
                    got[key] = -1
        if got:
            got['ff-dir'] = captured.get('ff')
        return idx, got, err
    finally:
        shutil.rmtree(base, ignore_errors=True)


def run_part(tier, seed, ev, vd):
    import random
    res = tlc.run('MapCombine', 'SPECIFICATION Spec\nINVARIANT OpIsDecl\nINVARIANT NothingLost\n',
                  consts={'Keys': tlc.tlaval.to_tla(set(KEYS)), 'NDirs': '2'}, dump=True, timeout=900)
    if res.violated:
        raise tlc.MachineryError('MapCombine violates %s' % res.violated)
    ev.add_tlc('TAB MapCombine', res)
    states = list(res.states())
    rng = random.Random(seed * 31 + 5)
    if tier == 'quick':
        # every state where the two directories define different, overlapping or nested key sets would be 256 command lines;
        # the quick tier takes the states where both directories define something plus a sample of the rest
        both = [s for s in states if s['d'][0] and s['d'][1]]
        states = rng.sample(both, 20) + rng.sample([s for s in states if not (s['d'][0] and s['d'][1])], 4)
    jobs = [(i, [sorted(st['d'][0]), sorted(st['d'][1])]) for i, st in enumerate(states)]
    ctx = mp.get_context('fork')
    with ctx.Pool(min(tlc.NCPU, len(jobs)), maxtasksperchild=4) as pool:
        outs = dict((i, (g, e)) for i, g, e in pool.imap_unordered(_run_state, jobs))
    lost = 0
    for i, st in enumerate(states):
        got, err = outs[i]
        ev.traces += 1
        ev.evaluations += 1
        exp = {k: st['out'][k] for k in KEYS}
        # -ff-dir: every declared block / link is loaded exactly where it was declared (the shipped force field of that name is
        # extended and keeps what it had, the new name is a new force field, no other force field gets the blocks)
        exp['ff-dir'] = {'update': True, 'update-link': True, 'new': True, 'kept': True, 'elsewhere': False}
        sc = {'part': 'map-dirs', 'dirs': [sorted(st['d'][0]), sorted(st['d'][1])], 'expected': exp, 'got': got, 'err': err}
        if err or not got:
            vd.violation('replay-mismatch', sc, 'martinize2 -map-dir d1 -map-dir d2 did not reach the end of the loading phase: %s' % err)
            continue
        if got != exp:
            vd.violation('replay-mismatch', sc, 'mapping directories combined: expected %s (0 = shipped), in effect %s' % (exp, got))
            continue
        if st['d'][0] and st['d'][1]:
            ev.nontrivial_case(['map-dirs', sc['dirs']])
            lost += 1
    if not lost and not vd.count():
        raise tlc.MachineryError('vacuous: no command line with two non-empty mapping directories')


def selftest_part(seed):
    idx, got, err = _run_state((0, [['martini3001>GLY'], ['martini3001>ALA']]))
    assert not err, err
    assert got == {'martini3001>GLY': 1, 'martini3001>ALA': 2, 'martini22>GLY': 0, 'martini22>ALA': 0}, got
    print('selftest C13/map-dirs: two directories with different keys -> both in effect %s' % got)
