"""C13 - force-field, topology and mapping files load to exactly what they declare.

spec/SectionStack.tla  header rule of the section parsers, operational = declarative; Known = real METH_DICT (data)
spec/FFFile.tla        .ff loading at top-level-section granularity: finalise/open contexts, dict semantics,
                       ExactlyOnceInOrder, ErrorIffMalformed (CloseOnStore = FALSE reproduces defect D1)
spec/Tokens.tla        interaction-line tokeniser, operational = structural definition, round trip
spec/AtomPrefix.tla    prefix <-> order normalisation of link atoms, operational = declarative
spec/ItpPragma.tla     #ifdef/#ifndef/#else/#endif state of the ITP reader
spec/Trace_FF.tla      TLC judges recorded loads (declared vs loaded library; #meta + per-line metadata rule)
spec/MappingFile.tla   the new-style .mapping director line by line        (driver: harness/c13_mapping.py, called at the end of run)
spec/ItpFile.tla       the content of .itp files beyond the pragma state   (driver: harness/c13_itp.py, called at the end of run)

spec -> code: every state/row of the five models is rendered to concrete input and replayed into the real readers
(read_ff, read_itp, FFDirector/ITPDirector/MappingDirector.parse_header, _tokenize, _treat_atom_prefix).
code -> spec: every shipped .ff file is abstracted by an independent line classifier, loaded by the real reader, and
the pair judged by TLC; per-object interaction metadata of rendered files is judged by TLC."""
import glob
import json
import multiprocessing as mp
import os
import random
import re

from . import common, tlc, tlaval
from . import ffchunks_c13 as CH
from .common import REPO

PID = 'C13'


# ------------------------------------------------------------------ helpers on the real objects
def load_ff_text(lines):
    import vermouth.forcefield
    import vermouth.ffinput
    ff = vermouth.forcefield.ForceField(name='verif_c13')
    vermouth.ffinput.read_ff(lines, ff)
    return ff


def subst(s, table):
    for k in sorted(table, key=len, reverse=True):
        s = s.replace(k, table[k])
    return s


def meta_pairs(meta):
    return sorted([str(k), json.dumps(v, sort_keys=True)] for k, v in meta.items())


def norm_ref(r, desc_atoms):
    if isinstance(r, tuple):
        return r[0]
    if isinstance(r, int):
        return desc_atoms[r - 1]['name']
    return r


def check_object(obj, desc, why, meta_events, tag):
    """Compare a loaded block/link/modification with the description it was rendered from."""
    table = desc.get('macro_subst', {})
    kind = desc['k']
    if kind == 'block':
        if obj.name != desc['name'] or obj.nrexcl != desc['nrexcl']:
            why.append('%s: name/nrexcl %r/%r' % (tag, obj.name, obj.nrexcl))
        names = [a['name'] for a in desc['atoms']]
        if list(obj.nodes) != names:
            why.append('%s: atoms %r, declared %r' % (tag, list(obj.nodes), names))
            return
        for a in desc['atoms']:
            node = obj.nodes[a['name']]
            exp = {'atomname': a['name'], 'atype': a.get('atype_exp', a['atype']), 'resname': a['resname'], 'resid': a['resid'],
                   'charge_group': a['cg']}
            if 'charge' in a:
                exp['charge'] = a['charge']
            if 'mass' in a:
                exp['mass'] = a['mass']
            exp.update(a.get('attrs') or {})
            if dict(node) != exp:
                why.append('%s: atom %s attributes %r, declared %r' % (tag, a['name'], dict(node), exp))
    else:
        declared = [k for k, _ in desc.get('atoms', [])]
        for sec, lines in desc['sections']:
            for ln in lines:
                if ln[0] == 'inter':
                    declared += [norm_ref(r, None) for r in ln[1] if r != '--']
        for e in desc.get('edges', []):
            declared += list(e)
        if set(obj.nodes) != set(declared):
            why.append('%s: nodes %r, declared %r' % (tag, sorted(obj.nodes), sorted(set(declared))))
        if kind == 'mod' and obj.name != desc['name']:
            why.append('%s: modification name %r' % (tag, obj.name))
        for key, attrs in desc.get('atoms', []):
            node = obj.nodes.get(key, {})
            for ak, av in attrs.items():
                if node.get(ak) != av:
                    why.append('%s: node %s attribute %s = %r, declared %r' % (tag, key, ak, node.get(ak), av))
        if kind == 'link':
            from vermouth.molecule import Choice
            for key, val in desc.get('attrs', []):
                v = json.loads(val)
                for n in obj.nodes:
                    got = obj.nodes[n].get(key)
                    if '|' in v:
                        ok = isinstance(got, Choice) and list(got.value) == v.split('|')
                    else:
                        ok = got == v
                    if not ok:
                        why.append('%s: link attribute %s not applied to node %s (%r)' % (tag, key, n, got))
            if sorted(obj.features) != sorted(desc.get('features', [])):
                why.append('%s: features %r' % (tag, sorted(obj.features)))
            if dict(obj.molecule_meta) != {k: json.loads(v) for k, v in desc.get('molmeta', [])}:
                why.append('%s: molecule_meta %r' % (tag, dict(obj.molecule_meta)))
            if [e[0:1] + [sorted(e[1].items())] for e in [[a, b.get('atomname')] and [a, {'atomname': b.get('atomname')}] for a, b in obj.non_edges]] and \
                    [(a, b.get('atomname')) for a, b in obj.non_edges] != [tuple(e) for e in desc.get('non_edges', [])]:
                why.append('%s: non-edges %r' % (tag, obj.non_edges))
            if not desc.get('non_edges') and obj.non_edges:
                why.append('%s: unexpected non-edges %r' % (tag, obj.non_edges))
            got_pat = [[(k, dict(a)) for k, a in pat] for pat in obj.patterns]
            exp_pat = [[(k, dict(a)) for k, a in pat] for pat in desc.get('patterns', [])]
            if got_pat != exp_pat:
                why.append('%s: patterns %r' % (tag, got_pat))
    # interactions, in declared order per destination list
    cursors = {}
    used = {}
    for sec, lines in desc['sections']:
        removal = sec.startswith('!')
        base = sec.lstrip('!')
        tlc_lines, got_meta = [], []
        for ln in lines:
            if ln[0] == 'meta':
                tlc_lines.append({'ismeta': True, 'pairs': meta_pairs(ln[1])})
                continue
            _, refs, params, meta = ln
            params = [subst(p, table) for p in params]
            dest = base
            if base == 'dihedrals' and params and params[0] == '2' and not removal:
                dest = 'impropers'
            store = obj.removed_interactions if removal else obj.interactions
            lst = store.get(dest, [])
            i = cursors.get((removal, dest), 0)
            cursors[(removal, dest)] = i + 1
            tlc_lines.append({'ismeta': False, 'pairs': meta_pairs(meta or {})})
            if i >= len(lst):
                why.append('%s: interaction %d of [%s] missing' % (tag, i + 1, sec))
                got_meta.append([])
                continue
            inter = lst[i]
            exp_atoms = [norm_ref(r, desc.get('atoms') if kind == 'block' else None) for r in refs if r != '--']
            if list(inter.atoms) != exp_atoms:
                why.append('%s: [%s] #%d atoms %r, declared %r' % (tag, sec, i + 1, list(inter.atoms), exp_atoms))
            if [str(x) for x in inter.parameters] != params:
                why.append('%s: [%s] #%d parameters %r, declared %r' % (tag, sec, i + 1, list(inter.parameters), params))
            got_meta.append(meta_pairs(inter.meta))
        meta_events.append({'kind': 'meta', 'lines': tlc_lines, 'got': got_meta, 'where': '%s [%s]' % (tag, sec)})
    for removal, store in ((False, obj.interactions), (True, getattr(obj, 'removed_interactions', {}))):
        for dest, lst in store.items():
            if len(lst) != cursors.get((removal, dest), 0):
                why.append('%s: %d %s%s interactions loaded, %d declared' % (tag, len(lst), '!' if removal else '', dest,
                                                                            cursors.get((removal, dest), 0)))
    # edges = explicit edges + consecutive atoms of the loaded edge-making interactions
    exp_edges = {frozenset(e) for e in desc.get('edges', [])}
    for t in (('bonds', 'angles', 'dihedrals', 'cmap', 'constraints') if kind != 'mod' else ()):      # modifications: explicit [ edges ] only
        for inter in obj.interactions.get(t, []):
            if inter.meta.get('edge', True):
                exp_edges |= {frozenset(p) for p in zip(inter.atoms[:-1], inter.atoms[1:])}
    exp_edges = {e for e in exp_edges if len(e) == 2}
    got_edges = {frozenset(e) for e in obj.edges if e[0] != e[1]}
    if got_edges != exp_edges:
        why.append('%s: edges %r, declared %r' % (tag, sorted(map(sorted, got_edges)), sorted(map(sorted, exp_edges))))


def load_chunks(ids):
    """Render the chunk sequence, load it with the real reader, project the library."""
    lines = []
    for cid in ids:
        lines += CH.chunk_text(cid)
        lines.append('')
    why, meta_events = [], []
    try:
        ff = load_ff_text(lines)
    except Exception as exc:      # any exception = rejected
        return {'outcome': 'error', 'exc': repr(exc)[:200]}, why, meta_events, lines
    # identify loaded objects with chunk ids through their content descriptions
    proj = {'outcome': 'loaded', 'blocks': list(ff.blocks), 'mods': list(ff.modifications), 'blockids': [], 'links': [], 'modids': []}

    def identify(obj, candidates, tag):
        best = None
        for cid in candidates:
            w, m = [], []
            check_object(obj, CH.MENU[cid], w, m, tag)
            if not w:
                return cid, m, []
            if best is None:
                best = (cid, m, w)
        return (0, [], best[2] if best else ['%s: no declared object of that kind' % tag])

    for name, blk in ff.blocks.items():
        cands = [c for c in ids if c in CH.MENU and CH.MENU[c]['k'] == 'block' and CH.MENU[c]['name'] == name]
        cid, m, w = identify(blk, list(reversed(cands)), 'block %s' % name)
        proj['blockids'].append(cid)
        meta_events += m
        why += w
    for li, link in enumerate(ff.links):
        cands = [c for c in ids if c in CH.MENU and CH.MENU[c]['k'] == 'link']
        decl = cands[li] if li < len(cands) else None
        order = ([decl] if decl else []) + [c for c in cands if c != decl]
        cid, m, w = identify(link, order, 'link #%d' % (li + 1))
        proj['links'].append(cid)
        meta_events += m
        why += w
    for name, mod in ff.modifications.items():
        cands = [c for c in ids if c in CH.MENU and CH.MENU[c]['k'] == 'mod' and CH.MENU[c]['name'] == name]
        cid, m, w = identify(mod, list(reversed(cands)), 'modification %s' % name)
        proj['modids'].append(cid)
        meta_events += m
        why += w
    if VARS_ID in ids:
        if dict(ff.variables) != {'regular': 0.47, 'name': 'quoted'}:
            why.append('variables %r' % dict(ff.variables))
    return proj, why, meta_events, lines


VARS_ID = 2


def _ff_chunk(args):
    states, seed = args
    bad, n, events = [], 0, []
    for st in states:
        if st['outcome'] == 'reading':
            continue
        ids = [c['id'] for c in st['file']]
        proj, why, meta_events, lines = load_chunks(ids)
        n += 1
        exp = st['outcome']
        if proj['outcome'] != exp:
            bad.append({'chunks': ids, 'why': 'model outcome %s, reader %s %s' % (exp, proj['outcome'], proj.get('exc', '')), 'text': lines})
            continue
        if exp == 'loaded':
            lib = st['lib']
            want = {'blocks': [c['name'] for c in lib['blocks']], 'blockids': [c['id'] for c in lib['blocks']],
                    'links': [c['id'] for c in lib['links']], 'mods': [c['name'] for c in lib['mods']],
                    'modids': [c['id'] for c in lib['mods']]}
            got = {k: proj[k] for k in want}
            if got != want:
                why.insert(0, 'library: model %r, reader %r' % (want, got))
            if why:
                bad.append({'chunks': ids, 'why': '; '.join(why[:4]), 'text': lines})
            events += [dict(m, chunks=ids) for m in meta_events]
    return n, bad, events


# ------------------------------------------------------------------ function tables
def _tok_chunk(states):
    from vermouth.parser_utils import _tokenize
    bad, n = [], 0
    for st in states:
        line = ''.join(st['line'])
        try:
            got = {'err': False, 'toks': [t for t in _tokenize(line)]}
        except IOError:
            got = {'err': True}
        exp = st['out']
        n += 1
        depth_ok = True
        d = 0
        for ch in line:
            d += (ch == '{') - (ch == '}')
            if d < 0:
                depth_ok = False
        if not depth_ok:
            continue        # outside the documented grammar (see spec/Tokens.tla)
        e = {'err': exp['err']} if exp['err'] else {'err': False, 'toks': [''.join(t) for t in exp['toks']]}
        if got != e:
            bad.append({'table': 'tokens', 'line': line, 'expected': e, 'got': got})
    return n, bad


def order_value(o):
    t = o['t']
    if t == 'none':
        return None
    if t == 'int':
        return o['v']
    if t == 'str':
        return ''.join(o['v'])
    if t == 'bool':
        return True
    return 1.5


def _prefix_chunk(states):
    from vermouth.ffinput import _treat_atom_prefix
    bad, n = [], 0
    for st in states:
        if st['out'].get('key') == ('?',):
            continue
        ref = ''.join(st['prefix']) + ''.join(st['base'])
        attrs = {}
        ov = order_value(st['ord'])
        if st['ord']['t'] != 'none':
            attrs['order'] = ov
        if st['name']:
            attrs['atomname'] = ''.join(st['name'])
        attrs['resname'] = 'ALA'
        try:
            key, out = _treat_atom_prefix(ref, dict(attrs))
            got = {'err': False, 'key': key, 'order': out.get('order'), 'atomname': out.get('atomname'),
                   'kept': out.get('resname') == 'ALA'}
        except IOError:
            got = {'err': True}
        exp = st['out']
        if exp['err']:
            e = {'err': True}
        else:
            e = {'err': False, 'key': ''.join(exp['key']), 'order': order_value(exp['order']), 'atomname': ''.join(exp['atomname']),
                 'kept': True}
        n += 1
        if got != e or (not got['err'] and type(got['order']) is not type(e['order'])):
            bad.append({'table': 'prefix', 'reference': ref, 'attributes': common.jsonable(attrs), 'expected': e, 'got': common.jsonable(got)})
    return n, bad


def export_known(which):
    import vermouth.ffinput
    import vermouth.gmx.itp_read
    import vermouth.map_parser
    cls = {'ff': vermouth.ffinput.FFDirector, 'itp': vermouth.gmx.itp_read.ITPDirector,
           'map': vermouth.map_parser.MappingDirector}[which]
    return cls, sorted(cls.METH_DICT)


def _stack_rows(args):
    which, states = args
    from vermouth.forcefield import ForceField
    from vermouth.molecule import Block
    cls, _ = export_known(which)
    bad, n = [], 0
    for st in states:
        if st['steps'] == 0:
            continue
        if which == 'map':
            d = object.__new__(cls)
            d.macros = {}
        else:
            d = cls(ForceField(name='x'))
            d.current_block = Block()
        d.finalize_section = lambda *a, **k: None
        d.header_actions = {}
        d.section = list(st['prev'])
        try:
            d.parse_header('[ %s ]' % st['hdr'])
            got = list(d.section)
        except Exception as exc:
            got = 'exception %r' % (exc,)
        n += 1
        if got != list(st['section']):
            bad.append({'table': 'section-stack', 'director': which, 'stack': list(st['prev']), 'header': st['hdr'],
                        'expected': list(st['section']), 'got': got})
    return n, bad


ITP_HEAD = ['[ moleculetype ]', 'GLY 1', '[ atoms ]', '1 P4 1 ALA BB 1', '2 P3 1 ALA SC1 1', '[ bonds ]']
PRAGMA_TXT = {'ifdefA': '#ifdef A', 'ifndefA': '#ifndef A', 'ifdefB': '#ifdef B', 'else': '#else', 'endif': '#endif',
              'define': '#define X 1', 'include': '#include "x.itp"'}


def _pragma_rows(states):
    import vermouth.forcefield
    from vermouth.gmx.itp_read import read_itp
    bad, n = [], 0
    for st in states:
        if st['outcome'] == 'reading':
            continue
        lines = list(ITP_HEAD)
        k = 0
        for e in st['seen']:
            if e == 'line':
                k += 1
                lines.append('1 2 1 0.%d 100' % k)
            else:
                lines.append(PRAGMA_TXT[e])
        ff = vermouth.forcefield.ForceField(name='x')
        try:
            read_itp(lines, ff)
            blk = ff.blocks['GLY']
            got = []
            for inter in blk.interactions.get('bonds', []):
                cond = [c for c in ('ifdef', 'ifndef') if c in inter.meta]
                got.append({'cond': cond[0] if cond else 'none', 'tag': inter.meta[cond[0]] if cond else ''})
            got_outcome = 'loaded'
        except Exception as exc:      # noqa
            got, got_outcome = repr(exc)[:120], 'error'
        n += 1
        exp_lines = [dict(g) for g in st['lines']]
        if got_outcome != st['outcome'] or (got_outcome == 'loaded' and got != exp_lines):
            bad.append({'table': 'itp-pragma', 'events': list(st['seen']), 'expected': [st['outcome'], exp_lines],
                        'got': [got_outcome, got], 'text': lines})
    return n, bad


def _map_rows(states):
    """.map weights: render the model's [ atoms ] lines, read them with the real read_backmapping_file."""
    from vermouth.forcefield import ForceField
    from vermouth.molecule import Block
    from vermouth.map_input import read_backmapping_file
    bad, n = [], 0
    for st in states:
        ffa, ffc = ForceField(name='verif_aa'), ForceField(name='verif_cg')
        ba, bc = Block(force_field=ffa), Block(force_field=ffc)
        ba.name = bc.name = 'X'
        for a in ('A1', 'A2', 'A3'):
            ba.add_atom({'atomname': a, 'resname': 'X', 'resid': 1})
        for b in ('B1', 'B2'):
            bc.add_atom({'atomname': b, 'resname': 'X', 'resid': 1})
        ffa.blocks['X'], ffc.blocks['X'] = ba, bc
        text = ['; comment', '[ molecule ]', 'X', '[from]', 'verif_aa', '[to]', 'verif_cg', '[ martini ]', 'B1 B2', '[ atoms ]']
        for i, ln in enumerate(st['lines'], 1):
            text.append('%d %s %s' % (i, ln['atom'], ' '.join(('!' if e['null'] else '') + e['b'] for e in ln['beads'])))
        try:
            maps = read_backmapping_file(text, {'verif_aa': ffa, 'verif_cg': ffc})
            m = maps['verif_aa']['verif_cg']['X'].mapping
            got = {(a, b, w) for a, d in m.items() for b, w in d.items()}
            got_err = False
        except IOError:
            got, got_err = set(), True
        except Exception as exc:      # noqa
            got, got_err = {('exception', repr(exc), 0)}, False
        n += 1
        exp = st['out']
        ok = exp['err'] == got_err
        if ok and not got_err:
            want = {(q[0], q[1]): (q[2], q[3]) for q in exp['w']}
            have = {(a, b): w for a, b, w in got}
            ok = set(want) == set(have) and all(abs(have[k] * want[k][1] - want[k][0]) < 1e-9 for k in want)
        if not ok:
            bad.append({'table': 'map-weights', 'text': text, 'expected': common.jsonable(exp), 'got': sorted(map(str, got)), 'got_err': got_err})
    return n, bad


def _mapff_rows(states):
    """.map [from]/[to] lists: render the model's lists, read with the real read_backmapping_file, compare the produced pairs."""
    from vermouth.forcefield import ForceField
    from vermouth.molecule import Block
    from vermouth.map_input import read_backmapping_file
    bad, n = [], 0
    for st in states:
        ffs = {}
        for name, has_block in (('universal', True), ('martini22', True), ('aa2', True), ('cg2', True), ('noblock', False)):
            ff = ForceField(name=name)
            if has_block:
                b = Block(force_field=ff)
                b.name = 'X'
                for a in ('A1', 'B1'):
                    b.add_atom({'atomname': a, 'resname': 'X', 'resid': 1})
                ff.blocks['X'] = b
            ffs[name] = ff
        text = ['[ molecule ]', 'X']
        if st['fl']:
            text += ['[from]', ' '.join(st['fl'])]
        if st['tl']:
            text += ['[to]', ' '.join(st['tl'])]
        text += ['[ martini ]', 'B1', '[ atoms ]', '1 A1 B1']
        try:
            maps = read_backmapping_file(text, ffs)
            got = sorted([f, t] for f in maps for t in maps[f] if 'X' in maps[f][t])
        except Exception as exc:      # noqa
            got = 'exception %r' % (exc,)
        n += 1
        exp = sorted([list(p) for p in st['out']])
        if got != exp:
            bad.append({'table': 'map-from-to', 'text': text, 'expected': exp, 'got': got})
    return n, bad


# ------------------------------------------------------------------ shipped force-field files
TOP = {'macros', 'variables', 'citations', 'moleculetype', 'link', 'modification'}


def classify_ff(path):
    """Independent line classifier: the sequence of top-level sections with the declared names."""
    chunks = []
    expect_name = None
    with open(path, encoding='utf8') as fh:
        for raw in fh:
            line = raw.split(';', 1)[0].strip()
            if not line:
                continue
            if line.startswith('[') and line.endswith(']'):
                name = line.strip('[ ]').casefold()
                if name in TOP:
                    kind = {'moleculetype': 'block', 'modification': 'mod'}.get(name, name)
                    chunks.append({'k': kind, 'name': '', 'id': len(chunks) + 1, 'um': False})
                    expect_name = kind if kind in ('block', 'mod') else None
                else:
                    expect_name = None
                continue
            if expect_name:
                chunks[-1]['name'] = line.split()[0] if expect_name == 'block' else line
                expect_name = None
    return chunks


def shipped_events():
    import vermouth.forcefield
    import vermouth.ffinput
    events = []
    for path in sorted(glob.glob(os.path.join(REPO, 'vermouth', 'data', 'force_fields', '*', '*.ff'))):
        chunks = classify_ff(path)
        ff = vermouth.forcefield.ForceField(name='verif')
        try:
            with open(path, encoding='utf8') as fh:
                vermouth.ffinput.read_ff(fh, ff)
            outcome = 'loaded'
        except Exception:      # noqa
            outcome = 'error'
        # ids of the loaded objects: position of the declaring chunk, found through object identity order
        link_ids = [c['id'] for c in chunks if c['k'] == 'link']
        last = {}
        for c in chunks:
            if c['k'] in ('block', 'mod'):
                last[(c['k'], c['name'])] = c['id']
        events.append({'kind': 'file', 'path': os.path.relpath(path, REPO), 'chunks': chunks, 'outcome': outcome,
                       'blocks': list(ff.blocks), 'blockids': [last.get(('block', n), 0) for n in ff.blocks],
                       'links': link_ids[:len(ff.links)] + [0] * max(0, len(ff.links) - len(link_ids)),
                       'mods': list(ff.modifications), 'modids': [last.get(('mod', n), 0) for n in ff.modifications]})
    return events


def judge(events):
    work = tlc.scratch('c13t_')
    slim = []
    for e in events:
        if e['kind'] == 'file':
            slim.append({k: e[k] for k in ('kind', 'chunks', 'outcome', 'blocks', 'blockids', 'links', 'mods', 'modids')})
        else:
            slim.append({k: e[k] for k in ('kind', 'lines', 'got')})
    tf = tlc.write_json(work, 'trace.json', slim)
    res = tlc.run('Trace_FF', 'SPECIFICATION Spec\n', dump=True, env={'TRACE_FILE': tf}, workdir=work, workers=4, timeout=1800)
    return res, {st['tid']: st['verdict'] for st in res.states() if st['verdict'] != 'pending'}


def pmap(fn, states, extra=None):
    parts = common.chunks(states, tlc.NCPU * 2)
    with mp.Pool(tlc.NCPU) as pool:
        return pool.map(fn, [(extra, p) if extra is not None else p for p in parts])


# ------------------------------------------------------------------ driver
def run(tier, seed, ev, vd):
    quick = tier == 'quick'
    ev.rule = ('Every state of five TLA+ models is one concrete input replayed into the real readers; shipped .ff files and '
               'per-object metadata are judged by TLC. Non-trivial = file with >= 2 top-level sections of which one is a '
               'block/link/modification, or a table row on which two cases of the function apply; distinct by input.')
    ev.assumptions = ['content of a loaded object is compared with the abstract description its text was rendered from',
                      'lines whose brace depth becomes negative and recovers ("} {") are outside the documented grammar',
                      '.map weights are modelled (MapFile); the .mapping director is bound only through the shared section-header rule']

    def account(outs, kind):
        for n, bad in outs:
            ev.traces += n
            ev.evaluations += n
            for b in bad:
                vd.violation('replay-mismatch', b, '%s: expected %s got %s' % (kind, b.get('expected'), b.get('got')))

    # 1. section stack, three directors
    for which, reset in (('ff', 'TRUE'), ('itp', 'TRUE'), ('map', 'FALSE')):
        cls, known = export_known(which)
        names = sorted({n for t in known for n in t} | {'nosuchsection'})
        allfold = '(' + ' @@ '.join('%s :> %s' % (tlaval.to_tla(k), tlaval.to_tla(k.casefold())) for k in names) + ')'
        allnames = tlaval.to_tla(set(names))
        if quick and len(names) > 14:
            keep = {'macros', 'variables', 'citations', 'moleculetype', 'link', 'modification', 'atoms', 'bonds', '!bonds', 'edges',
                    'non-edges', 'patterns', 'features', 'molmeta', 'nosuchsection', 'dihedrals', 'impropers', 'meta', 'settle', 'SETTLE', '!SETTLE', '!settle'}
            names = [n for n in names if n in keep]
        # headers are case-insensitive: a few names also appear in other spellings (the documented one for SETTLE is upper case)
        spell = {n: n.casefold() for n in names}
        for n in names:
            if n.casefold() in ('bonds', 'link', 'settle', '!settle', 'moleculetype', 'atoms', 'mapping', 'molecule', 'from', 'to'):
                spell[n.upper()] = n.casefold()
                spell[n.capitalize()] = n.casefold()
        fold = '(' + ' @@ '.join('%s :> %s' % (tlaval.to_tla(k), tlaval.to_tla(v)) for k, v in sorted(spell.items())) + ')'
        res = tlc.run('SectionStack', 'SPECIFICATION Spec\nINVARIANT OpIsDecl\nINVARIANT StackIsShort\nINVARIANT FoldedOnly\n',
                      consts={'Known': tlaval.to_tla(set(tuple(t) for t in known)), 'Names': tlaval.to_tla(set(spell)),
                              'Reset': reset, 'MaxDepth': '3', 'Fold': fold}, dump=True, timeout=1800)
        unreachable = sorted(t for t in known if any(x != x.casefold() for x in t))
        reach = tlc.run('SectionStack', 'SPECIFICATION Spec\nINVARIANT KnownReachable\n',
                        consts={'Known': tlaval.to_tla(set(tuple(t) for t in known)), 'Names': allnames,
                                'Reset': reset, 'MaxDepth': '0', 'Fold': allfold}, timeout=600)
        ev.evaluations += 1
        if reach.violated:
            vd.violation('replay-mismatch', {'table': 'grammar', 'director': which, 'unreachable': [list(t) for t in unreachable]},
                         'sections %r of the %s grammar can never be entered: headers are case-folded (SectionStack!KnownReachable)'
                         % (unreachable, which))
        if res.violated:
            raise tlc.MachineryError('SectionStack(%s) violates %s' % (which, res.violated))
        ev.add_tlc('TAB SectionStack %s' % which, res)
        states = list(res.states())
        account(pmap(_stack_rows, states, which), 'section stack')
        for st in states:
            if len(st['prev']) >= 1:
                ev.nontrivial_case(['stack', which, st['prev'], st['hdr']])
    # 2. tokens
    res = tlc.run('Tokens', 'SPECIFICATION Spec\nINVARIANT OpIsDecl\nINVARIANT UnbalancedRejected\nINVARIANT RoundTrip\n'
                  'INVARIANT NoSeparatorOutsideBraces\n', consts={'Chars': '{"a", "-", " ", "{", "}"}', 'MaxLen': '6' if quick else '8'},
                  dump=True, timeout=1800)
    if res.violated:
        raise tlc.MachineryError('Tokens violates %s' % res.violated)
    ev.add_tlc('TAB Tokens', res)
    states = list(res.states())
    account(pmap(_tok_chunk, states), 'tokens')
    for st in states:
        if '{' in st['line'] and ' ' in st['line']:
            ev.nontrivial_case(['tok', st['line']])
    ev.sample({'kind': 'Tokens row', 'line': ''.join(states[-1]['line']), 'expected': common.jsonable(states[-1]['out'])})
    # 3. atom prefix
    orders = ('{[t|->"none"],[t|->"bool"],[t|->"float"],[t|->"str",v|-><<">">>],[t|->"str",v|-><<">",">">>],[t|->"str",v|-><<"<">>],'
              '[t|->"str",v|-><<"<","<">>],[t|->"str",v|-><<"*">>],[t|->"str",v|-><<"*","*">>],[t|->"str",v|-><<">","<">>],'
              '[t|->"str",v|-><<"x">>],[t|->"str",v|-><<>>]} \\cup {[t|->"int",v|->n] : n \\in -3..3}')
    res = tlc.run('AtomPrefix', 'SPECIFICATION Spec\nINVARIANT OpIsDecl\nINVARIANT PrefixOrderAgree\nINVARIANT ContradictionRejected\n',
                  consts={'Prefixes': '{<<>>,<<"+">>,<<"+","+">>,<<"+","+","+">>,<<"-">>,<<"-","-">>,<<">">>,<<">",">">>,<<"<">>,<<"<","<">>,'
                                      '<<"*">>,<<"*","*">>,<<"+","-">>,<<"+",">">>,<<"*","<">>}',
                          'Bases': '{<<"B","B">>,<<"C","A","1">>,<<>>}', 'Orders': orders, 'AtomNames': '{<<>>,<<"X","X">>}'},
                  dump=True, timeout=1800)
    if res.violated:
        raise tlc.MachineryError('AtomPrefix violates %s' % res.violated)
    ev.add_tlc('TAB AtomPrefix', res)
    states = list(res.states())
    account(pmap(_prefix_chunk, states), 'atom prefix')
    for st in states:
        if st['prefix'] and st['ord']['t'] != 'none':
            ev.nontrivial_case(['prefix', st['prefix'], st['base'], st['ord'], st['name']])
    # 4. itp pragma
    res = tlc.run('ItpPragma', 'SPECIFICATION Spec\nINVARIANT GuardsDecl\n',
                  consts={'Events': '{"ifdefA","ifndefA","ifdefB","else","endif","define","include","line"}', 'MaxLen': '5' if quick else '6'},
                  dump=True, timeout=1800)
    if res.violated:
        raise tlc.MachineryError('ItpPragma violates %s' % res.violated)
    ev.add_tlc('MC ItpPragma', res)
    states = list(res.states())
    account(pmap(_pragma_rows, states), 'itp pragma')
    for st in states:
        if st['outcome'] != 'reading' and len(st['seen']) >= 2:
            ev.nontrivial_case(['pragma', st['seen']])
    # 4b. .map weights (multiplicity / total per atom, "!" = 0, conflicts and duplicate atoms are errors)
    res = tlc.run('MapFile', 'SPECIFICATION Spec\nINVARIANT OpIsDecl\nINVARIANT WeightsOfAnAtomSumToOne\nINVARIANT NullIsZero\n',
                  consts={'Atoms': '{"A1","A2"}', 'Beads': '{"B1","B2"}', 'MaxBeads': '3', 'MaxLines': '2' if quick else '3'}, dump=True, timeout=1800)
    if res.violated:
        raise tlc.MachineryError('MapFile violates %s' % res.violated)
    ev.add_tlc('MC MapFile', res)
    # TLC checks the invariants on every state; the replay into read_backmapping_file streams the dump and, in the thorough
    # tier (4.9 M states with three lines), takes every 12th state so that the rows fit in memory (25 GB otherwise)
    stride = 1 if quick else 12
    batch, nmap = [], 0
    for i, st in enumerate(res.states()):
        if i % stride:
            continue
        batch.append(st)
        if any(len(l['beads']) >= 2 for l in st['lines']):
            ev.nontrivial_case(['map', st['lines']])
        if len(batch) >= 60000:
            account(pmap(_map_rows, batch), '.map weights')
            nmap += len(batch)
            batch = []
    if batch:
        account(pmap(_map_rows, batch), '.map weights')
        nmap += len(batch)
    ev.extra['map_rows_replayed'] = {'rows': nmap, 'stride': stride}
    # 4c. .map [from] / [to] lists: every pair of usable force fields, wherever unusable names stand
    res = tlc.run('MapFileFF', 'SPECIFICATION Spec\nINVARIANT OpIsDecl\nINVARIANT OrderIrrelevant\n',
                  consts={'Names': '{"universal", "martini22", "aa2", "cg2", "noblock", "unknownff"}',
                          'Usable': '{"universal", "martini22", "aa2", "cg2"}', 'MaxList': '2' if quick else '3'}, dump=True, timeout=1800)
    if res.violated:
        raise tlc.MachineryError('MapFileFF violates %s' % res.violated)
    ev.add_tlc('TAB MapFileFF', res)
    account(pmap(_mapff_rows, list(res.states())), '.map from/to lists')
    # 5. FFFile: well-formed sequences + every fault at every position
    faults = sorted(CH.FAULT_IDS)
    menu = CH.menu_tla(None if not quick else {1, 2, 3, 4, 5, 6, 7, 8, 10, 13, 14, 15}, faults if not quick else faults[::2] + [faults[-1]])
    res = tlc.run('FFFile', 'SPECIFICATION Spec\nINVARIANT ExactlyOnceInOrder\nINVARIANT ErrorIffMalformed\n',
                  consts={'Menu': menu, 'MaxChunks': '3' if quick else '4', 'CloseOnStore': 'TRUE'}, dump=True, timeout=3000)
    if res.violated:
        raise tlc.MachineryError('FFFile violates %s' % res.violated)
    ev.add_tlc('MC FFFile', res)
    ev.exhaustive = True
    states = [s for s in res.states() if s['outcome'] != 'reading']
    parts = common.chunks(states, tlc.NCPU * 2)
    with mp.Pool(tlc.NCPU) as pool:
        outs = pool.map(_ff_chunk, [(p, seed) for p in parts])
    meta_events = []
    seen_meta = set()
    for n, bad, events in outs:
        ev.traces += n
        ev.evaluations += n
        for b in bad:
            vd.violation('replay-mismatch', b, b['why'])
        for e in events:
            key = json.dumps([e['lines'], e['got']], sort_keys=True)
            if key not in seen_meta:
                seen_meta.add(key)
                meta_events.append(e)
    for st in states:
        if len(st['file']) >= 2 and any(c['k'] in ('block', 'link', 'mod') for c in st['file']):
            ev.nontrivial_case(['ff', [c['id'] for c in st['file']]])
    ev.sample({'kind': 'FFFile state replayed', 'chunks': [[c['k'], c['name'], c['id']] for c in states[-1]['file']],
               'outcome': states[-1]['outcome']})
    # 6. TLC judges shipped files and metadata events
    events = shipped_events() + meta_events
    jres, verdicts = judge(events)
    ev.add_tlc('TRACE Trace_FF (%d shipped files, %d metadata events)' % (len(events) - len(meta_events), len(meta_events)), jres)
    for i, e in enumerate(events, 1):
        ev.traces += 1
        ev.evaluations += 1
        v = verdicts.get(i, 'no-verdict')
        if v != 'ok':
            vd.violation('trace-rejected', {k: e[k] for k in e if k != 'chunks' or len(e['chunks']) < 60},
                         '%s: %s' % (e.get('path', e.get('where')), v))
    ev.extra['shipped_ff_files'] = len(events) - len(meta_events)
    ev.extra['metadata_events'] = len(meta_events)
    # 7. extension: the .mapping director (spec/MappingFile.tla) and the content of .itp files (spec/ItpFile.tla)
    from . import c13_mapping, c13_itp, c13_cli
    c13_mapping.run_part(tier, seed, ev, vd)
    c13_itp.run_part(tier, seed, ev, vd)
    c13_cli.run_part(tier, seed, ev, vd)


def replay(sc):
    if 'chunks' in sc and 'text' in sc:
        print('\n'.join(sc['text']))
        print(load_chunks(sc['chunks'])[:2])
    else:
        print(json.dumps(sc, indent=1)[:3000])
    return 0


def selftest(seed):
    # spec mutant: the pinned commit's behaviour (link not forgotten once stored) violates ExactlyOnceInOrder
    res = tlc.run('FFFile', 'SPECIFICATION Spec\nINVARIANT ExactlyOnceInOrder\n',
                  consts={'Menu': CH.menu_tla({1, 4, 7}), 'MaxChunks': '3', 'CloseOnStore': 'FALSE'})
    assert res.violated == 'ExactlyOnceInOrder'
    print('selftest C13: CloseOnStore=FALSE violates ExactlyOnceInOrder with file', [c['k'] for c in res.error_trace[-1]['file']])
    ev_ok = {'kind': 'meta', 'lines': [{'ismeta': True, 'pairs': [['version', '1']]}, {'ismeta': False, 'pairs': [['version', '2']]}],
             'got': [[['version', '2']]]}
    ev_bad = {'kind': 'meta', 'lines': ev_ok['lines'], 'got': [[['version', '1']]]}
    f_ok = {'kind': 'file', 'chunks': [{'k': 'link', 'name': '', 'id': 1, 'um': False}, {'k': 'macros', 'name': '', 'id': 2, 'um': False}],
            'outcome': 'loaded', 'blocks': [], 'blockids': [], 'links': [1], 'mods': [], 'modids': []}
    f_bad = dict(f_ok, links=[1, 1])
    res, verdicts = judge([ev_ok, ev_bad, f_ok, f_bad])
    assert verdicts[1] == 'ok' and verdicts[2] != 'ok' and verdicts[3] == 'ok' and verdicts[4] != 'ok', verdicts
    print('selftest C13: tampered events rejected:', verdicts[2], '/', verdicts[4])
    from . import c13_mapping, c13_itp, c13_cli
    c13_mapping.selftest_part(seed)
    c13_itp.selftest_part(seed)
    c13_cli.selftest_part(seed)
    return 0
