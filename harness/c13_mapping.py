"""C13 extension, part A - the new-style `.mapping` format (vermouth.map_parser.MappingDirector / map_input.read_mapping_file).

spec/MappingFile.tla   state machine over abstract lines: section stack, one mapping per [ block ] / [ modification ]
                       finalised exactly once and in file order, force fields, blocks (shorthand <resname>#<resid>, longhand,
                       '!' no-fetch), nodes, edges, mapping weights, reference atoms, macros; errors; the 3-level dictionary
                       of read_mapping_file; invariants ExactlyOnceInOrder, NamesAsDeclared, MappedOnly, ...

spec -> code  (1) all line sequences up to a bound over a small structural menu, (2) every file obtained from four
              well-formed skeleton files by one edit (insert any menu line at any position, delete any line, truncate):
              each file is rendered to text, loaded by the real reader against a synthetic pair of force fields, the
              Mapping objects are projected and compared with TLC's `st.out` / `lib`.
code -> spec  every shipped .mapping file is abstracted by an independent line classifier, the abstract file is given to
              TLC (same machine, force fields exported from the real ForceField objects), the invariants are checked on
              it and the real loader's Mapping objects must equal TLC's.
load history  inside ONE fresh process, .mapping files (longhand `ID {"resname": "CT"}` modification mapping, shorthand
              mapping) and a `.ff` file whose link / modification atoms use the identical attribute token are loaded in
              every order (also twice, also against shared force-field objects); every load must equal what TLC expects
              for that file alone."""
import glob
import itertools
import json
import multiprocessing as mp
import os
import time

from . import common, tlc, tlaval
from .common import REPO

# ------------------------------------------------------------------ abstract syntax (same shapes as spec/MappingFile.tla)
NOJ = {'resname': '-', 'resid': -1, 'extra': frozenset()}


def T(text):
    """Token from its text:  [!]name[#num][:atom]"""
    bang = text.startswith('!')
    rest = text[1:] if bang else text
    atom = ''
    if ':' in rest:
        rest, atom = rest.split(':', 1)
    num = -1
    if '#' in rest:
        rest, n = rest.split('#', 1)
        num = int(n)
    return {'bang': bang, 'name': rest, 'num': num, 'atom': atom}


def H(h):
    return {'h': h, 'toks': (), 'hasjson': False, 'json': NOJ, 'w': -1}


def L(text, js=None, w=-1):
    """Content line: blank-separated tokens, optional JSON attributes (python dict), optional integer weight."""
    line = {'h': '', 'toks': tuple(T(t) for t in text.split()), 'hasjson': js is not None, 'json': NOJ, 'w': w}
    if js is not None:
        d = dict(js)
        line['json'] = {'resname': d.pop('resname', '-'), 'resid': d.pop('resid', -1),
                        'extra': frozenset((k, json.dumps(v, sort_keys=True)) for k, v in d.items())}
    return line


def line_tla(l):
    return tlaval.to_tla({'h': l['h'], 'toks': tuple(l['toks']), 'hasjson': l['hasjson'],
                          'json': {'resname': l['json']['resname'], 'resid': l['json']['resid'], 'extra': set(l['json']['extra'])},
                          'w': l['w']})


def file_tla(f):
    return '<<' + ', '.join(line_tla(l) for l in f) + '>>'


def set_tla(items):
    return '{' + ', '.join(items) + '}'


def tok_text(t):
    return ('!' if t['bang'] else '') + t['name'] + ('#%d' % t['num'] if t['num'] >= 0 else '') + (':' + t['atom'] if t['atom'] else '')


def json_text(j):
    d = {}
    if j['resname'] != '-':
        d['resname'] = j['resname']
    if j['resid'] != -1:
        d['resid'] = j['resid']
    for k, v in sorted(j['extra']):
        d[k] = json.loads(v)
    return json.dumps(d)


HDR_STYLE = ('[ %s ]', '[%s]', '[ %s ] ; a comment', '[%s ]')


def render(f):
    """Abstract file -> text lines (header spelling, indentation, comments and blank lines vary with the position)."""
    out = ['; rendered by harness/c13_mapping.py']
    for i, l in enumerate(f):
        if l['h']:
            h = l['h'].upper() if i % 5 == 3 else l['h']
            out.append(HDR_STYLE[i % 4] % h)
            continue
        parts = [tok_text(t) for t in l['toks']]
        if l['hasjson']:
            parts.append(json_text(l['json']))
        if l['w'] >= 0:
            parts.append(str(l['w']))
        txt = ('  ' if i % 2 else '') + ('   ' if i % 3 == 0 else ' ').join(parts)
        if i % 4 == 1:
            txt += ' ; trailing comment'
        out.append(txt)
        if i % 6 == 2:
            out.append('')
        if i % 7 == 3:
            out.append('; comment line')
    return out


# ------------------------------------------------------------------ synthetic force fields
FFA_TEXT = """
[ moleculetype ]
GLY 1
[ atoms ]
N N 1 GLY N 1 0
CA C 1 GLY CA 1 0
[ edges ]
N CA
[ moleculetype ]
ALA 1
[ atoms ]
N N 1 ALA N 1 0
CB C 1 ALA CB 2 0.5
[ edges ]
N CB
[ moleculetype ]
DI 1
[ atoms ]
A1 C 1 DI A1 1 0
A2 C 2 DI A2 2 0
[ edges ]
A1 A2
[ modification ]
CT
[ atoms ]
CA {"element": "C", "PTM_atom": false}
OXT {"element": "O", "PTM_atom": true, "replace": {"atomname": "OT"}}
[ edges ]
CA OXT
"""
FFB_TEXT = """
[ moleculetype ]
GLY 1
[ atoms ]
BB P1 1 GLY BB 1 0
[ moleculetype ]
ALA 1
[ atoms ]
BB P1 1 ALA BB 1 0
SC1 C1 1 ALA SC1 2 0
[ edges ]
BB SC1
[ modification ]
CT
[ atoms ]
BB {"replace": {"atype": "Q5"}}
"""


def build_ffs():
    from vermouth.forcefield import ForceField
    from vermouth.ffinput import read_ff
    ffa, ffb = ForceField(name='ffa'), ForceField(name='ffb')
    read_ff(FFA_TEXT.splitlines(), ffa)
    read_ff(FFB_TEXT.splitlines(), ffb)
    return {'ffa': ffa, 'ffb': ffb}


def jtext(v):
    return json.dumps(v, sort_keys=True, default=repr)


def node_desc(attrs):
    d = dict(attrs)
    rec = {'atomname': d.pop('atomname', '-'), 'resname': d.pop('resname', '-'), 'resid': d.pop('resid', -1),
           'cg': d.pop('charge_group', -1)}
    mods = d.pop('modifications', [])
    rec['mods'] = [getattr(m, 'name', repr(m)) for m in mods] if isinstance(mods, (list, tuple)) else [repr(mods)]
    rec['extra'] = sorted([str(k), jtext(v)] for k, v in d.items())
    return rec


def block_desc(blk):
    keys = list(blk.nodes)
    pos = {k: i + 1 for i, k in enumerate(keys)}
    atoms = []
    for k in keys:
        nd = node_desc(blk.nodes[k])
        atoms.append({'atomname': nd['atomname'], 'resname': nd['resname'], 'resid': nd['resid'], 'cg': nd['cg'],
                      'extra': {tuple(p) for p in nd['extra']}})
    return {'nrexcl': blk.nrexcl if isinstance(getattr(blk, 'nrexcl', None), int) else -1, 'atoms': tuple(atoms),
            'edges': {(pos[a], pos[b]) for a, b in blk.edges}}


def ff_const(ffs, names=None):
    """TLA+ value of the force-field library (data exported from the real objects the files are loaded against)."""
    def fn(d):
        if not d:
            return '<<>>'
        return '(' + ' @@ '.join('%s :> %s' % (tlaval.to_tla(k), v) for k, v in d.items()) + ')'
    out = {}
    for name, ff in ffs.items():
        out[name] = '[blocks |-> %s, modifications |-> %s]' % (
            fn({bn: tlaval.to_tla(block_desc(b)) for bn, b in ff.blocks.items() if names is None or bn in names}),
            fn({mn: tlaval.to_tla(block_desc(m)) for mn, m in ff.modifications.items() if names is None or mn in names}))
    return fn(out)


MACROREF = '("$R" :> "R" @@ "$U" :> "U" @@ "$F" :> "F")'

# ------------------------------------------------------------------ skeleton files and menus
SKEL_BLOCK = [
    H('macros'), L('R GLY'), L('F ffb'),
    H('block'), H('from'), L('ffa'), H('to'), L('$F'),
    H('from blocks'), L('$R ALA'),
    H('to blocks'), L('GLY#1 ALA#2'),
    H('mapping'), L('GLY:N GLY#1:BB'), L('CA BB', w=2), L('ALA:N ALA#2:BB'), L('CB SC1', w=0),
    H('reference atoms'), L('GLY#1:BB GLY:CA'),
]
SKEL_MOD = [
    H('modification'), H('from'), L('ffa'), H('to'), L('ffb'),
    H('from blocks'), L('CT'), H('to blocks'), L('CT'),
    H('from nodes'), L('N'), H('from edges'), L('N CA'),
    H('mapping'), L('CA BB'), L('OXT BB'), L('N BB', w=0),
    H('block'), H('to'), L('ffb'),
    H('from blocks'), L('!A1', {'resid': 1, 'tag': 'a'}), L('!A2', {'resname': 'XX', 'resid': 2}),
    H('from nodes'), L('A1:P', {'color': 'red'}), L('A2:P'), L('Q', {'color': 'blue'}),
    H('from edges'), L('A1:P A2:P'),
    H('to blocks'), L('!B13 !C1#5'),
    H('to nodes'), L('B13:X'), L('C1#5:X'), L('Y'),
    H('to edges'), L('B13:X C1#5:X'),
    H('mapping'), L('A1:P B13:X'), L('A2:P C1#5:X', w=3), L('Q Y'),
    H('reference atoms'), L('C1#5:X A2:P'),
]
SKEL_MULTI = [
    H('block'), H('from'), L('ffa'), H('to'), L('ffb'),
    H('from blocks'), L('GLY'), H('to blocks'), L('GLY'), H('mapping'), L('N BB'),
    H('block'), H('from'), L('ffa'), H('to'), L('ffb'),
    H('from blocks'), L('g1', {'resname': 'GLY', 'resid': 1}), L('d', {'resname': 'DI'}),
    H('to blocks'), L('GLY ALA'), H('mapping'), L('g1:N GLY:BB'), L('d:A2 ALA:SC1'), L('d:A1 ALA:BB'),
    H('modification'),
    H('block'), H('from'), L('ffa'), H('to'), L('ffb'),
    H('from blocks'), L('GLY'), H('to blocks'), L('GLY'), H('mapping'), L('CA BB'),
]
# load-history skeleton: longhand modification mapping whose attribute token is identical to the one in HISTORY_FF
SKEL_LONGMOD = [
    H('modification'), H('from'), L('ffa'), H('to'), L('ffb'),
    H('from blocks'), L('ID', {'resname': 'CT'}),
    H('to blocks'), L('ID', {'resname': 'CT'}),
    H('from nodes'), L('ID:N', {'resname': 'CT'}),
    H('from edges'), L('ID:N ID:CA'),
    H('mapping'), L('ID:CA ID:BB'), L('OXT BB'),
]
SKELETONS = {'block': SKEL_BLOCK, 'mod': SKEL_MOD, 'multi': SKEL_MULTI, 'longmod': SKEL_LONGMOD}

ALL_HEADERS = ['block', 'modification', 'from', 'to', 'from blocks', 'to blocks', 'from nodes', 'to nodes', 'from edges',
               'to edges', 'mapping', 'reference atoms', 'macros', 'molecule', 'nosuch']
EDIT_LINES = [L('CA CA'), L('ffa'), L('zzz'), L('GLY'), L('XXX'), L('!X#7'), L('GLY#3 ALA'), L('CT'), L('N BB'), L('N BB', w=2),
              L('ZZ BB'), L('GLY:N GLY#1:BB'), L('NOID:N BB'), L('$R'), L('$U'), L('R ALA'), L('P', {'tag': 'p'}),
              L('!A9', {'resid': 9}), L('BB CA'), L('A1:P A2:P'), L('N CA BB'), L('B13:X')]
EDIT_MENU = [H(h) for h in ALL_HEADERS] + EDIT_LINES
EDIT_MENU_QUICK = [H(h) for h in ('block', 'modification', 'from blocks', 'mapping', 'macros', 'nosuch')] + \
    [L('CA CA'), L('GLY'), L('XXX'), L('!X#7'), L('N BB', w=2), L('ZZ BB'), L('NOID:N BB'), L('$U'), L('P', {'tag': 'p'}), L('BB CA')]

ENUM_MENU = [H(h) for h in ('block', 'modification', 'to blocks', 'to nodes', 'macros', 'nosuch')] + [L('!X'), L('P')]
ENUM_MENU_THOROUGH = ENUM_MENU + [H('mapping'), H('from blocks'), L('X:P'), L('!Y#2')]

INVARIANTS = ('ExactlyOnceInOrder', 'NamesAsDeclared', 'MappedOnly', 'NoDanglingEdges', 'KeysDistinct', 'WeightsPointToAtoms',
              'ReferencesAreMappedPairs', 'LibHoldsLastOfEachKey')
CFG = 'SPECIFICATION Spec\n' + ''.join('INVARIANT %s\n' % i for i in INVARIANTS)


# ------------------------------------------------------------------ real loader, projection, comparison
def project_mapping(m):
    def nodes(g):
        out = []
        for k, attrs in g.nodes.items():
            nd = node_desc(attrs)
            nd['key'] = k
            out.append(nd)
        return out

    def edges(g):
        return sorted(sorted([a, b]) for a, b in g.edges if a != b)
    return {'type': m.type, 'ffrom': '-' if m.ff_from is None else m.ff_from, 'fto': '-' if m.ff_to is None else m.ff_to,
            'names': list(m.names), 'bf': nodes(m.block_from), 'ef': edges(m.block_from), 'bt': nodes(m.block_to),
            'et': edges(m.block_to), 'w': sorted([f, t, w] for f, d in m.mapping.items() for t, w in d.items()),
            'refs': sorted([t, f] for t, f in m.references.items())}


def name_text(n):
    return n['name'] + ('#%d' % n['num'] if n['num'] >= 0 else '')


def expected_mapping(m):
    """TLC's mapping record -> the same JSON shape as project_mapping."""
    def nodes(seq):
        return [{'key': n['key'], 'atomname': n['atomname'], 'resname': n['resname'], 'resid': n['resid'], 'cg': n['cg'],
                 'mods': list(n['mods']), 'extra': sorted([p[0], p[1]] for p in n['extra'])} for n in seq]
    return {'type': m['type'], 'ffrom': m['ffrom'], 'fto': m['fto'], 'names': [name_text(n) for n in m['names']],
            'bf': nodes(m['bf']), 'ef': sorted(sorted(e) for e in m['ef']), 'bt': nodes(m['bt']),
            'et': sorted(sorted(e) for e in m['et']), 'w': sorted(list(t) for t in m['w']), 'refs': sorted(list(p) for p in m['refs'])}


def load_real(lines, ffs=None):
    """Load text with the real read_mapping_file; the Mapping objects the director yields are captured (harness-side
    interposition) so that the list and the returned dictionary refer to the same objects."""
    import vermouth.map_input as MI
    import vermouth.map_parser as MP
    if ffs is None:
        ffs = build_ffs()
    captured = []

    class Recording(MP.MappingDirector):
        def parse(self, file_handle):
            for m in super().parse(file_handle):
                captured.append(m)
                yield m
    orig = MI.MappingDirector
    MI.MappingDirector = Recording
    try:
        nested = MI.read_mapping_file(list(lines), ffs)
    except Exception as exc:      # noqa - any exception is a rejection
        return {'outcome': 'error', 'exc': repr(exc)[:160] + ' / ' + repr(exc.__cause__)[:120]}
    finally:
        MI.MappingDirector = orig
    lib = []
    for ffrom, tos in nested.items():
        for fto, names in tos.items():
            for nm, m in names.items():
                idx = [i for i, c in enumerate(captured, 1) if c is m]
                lib.append({'ffrom': '-' if ffrom is None else ffrom, 'fto': '-' if fto is None else fto, 'names': list(nm),
                            'idx': idx[0] if idx else 0})
    return {'outcome': 'loaded', 'out': [project_mapping(m) for m in captured], 'lib': lib}


def compare(exp_out, exp_lib, got):
    """-> '' or a description of the first difference."""
    if len(exp_out) != len(got['out']):
        return '%d mappings loaded, %d declared' % (len(got['out']), len(exp_out))
    for k, (e, g) in enumerate(zip(exp_out, got['out']), 1):
        for fld in ('type', 'ffrom', 'fto', 'names', 'bf', 'ef', 'bt', 'et', 'w', 'refs'):
            if e[fld] != g[fld]:
                return 'mapping #%d field %s: expected %s, loaded %s' % (k, fld, json.dumps(e[fld])[:300], json.dumps(g[fld])[:300])
    if exp_lib != got['lib']:
        return 'dictionary of read_mapping_file: expected %s, got %s' % (json.dumps(exp_lib)[:300], json.dumps(got['lib'])[:300])
    return ''


def expected_of_state(st):
    s = st['st']
    if s['outcome'] != 'loaded':
        return s['outcome'], None, None
    out = [expected_mapping(m) for m in s['out']]
    lib = [{'ffrom': e['ffrom'], 'fto': e['fto'], 'names': [name_text(n) for n in e['names']], 'idx': e['idx']} for e in st['lib']]
    return 'loaded', out, lib


def thaw_file(f):
    return [dict(l, toks=[dict(t) for t in l['toks']], json=dict(l['json'], extra=sorted(map(list, l['json']['extra'])))) for l in f]


def _replay_chunk(args):
    """Parse the dumped states of one chunk (raw text), render each file, load it, compare."""
    bodies, wanted = args
    n, bad, unspec, cases, kept, nload = 0, [], 0, [], {}, 0
    for body in bodies:
        st = tlaval.parse_state_body(body)
        key = json.dumps(thaw_file(st['file']), sort_keys=True)
        if key in wanted:
            kept[key] = st
        outcome, exp_out, exp_lib = expected_of_state(st)
        if outcome == 'unspecified':
            unspec += 1
            continue
        text = render(st['file'])
        got = load_real(text)
        n += 1
        nload += outcome == 'loaded'
        why = ''
        if got['outcome'] != outcome:
            why = 'model outcome %s (line %d), reader %s %s' % (outcome, st['st']['n'], got['outcome'], got.get('exc', ''))
        elif outcome == 'loaded':
            why = compare(exp_out, exp_lib, got)
        if why:
            bad.append({'part': 'mapping', 'family': 'replay', 'text': text, 'why': why})
        nopen = sum(1 for l in st['file'] if l['h'] in ('block', 'modification'))
        ncontent = sum(1 for l in st['file'] if not l['h'])
        if nopen >= 2 or (nopen >= 1 and ncontent >= 2):
            cases.append(text)
    return n, bad, unspec, cases, kept, nload


_STATE_HDR = __import__('re').compile(r'^State \d+:\n', __import__('re').M)


def final_bodies(res, wave=20000):
    """Raw text of the dumped states in which a file has been read to its end (distinct ones), streamed from the dump in
    waves of at most `wave` states so that large dumps never sit in memory."""
    import hashlib
    seen, out, cur = set(), [], []

    def flush():
        body = ''.join(cur)
        if not body or 'phase = "start"' in body or 'outcome |-> "reading"' in body:
            return
        h = hashlib.md5(body.encode()).digest()
        if h not in seen:
            seen.add(h)
            out.append(body)
    with open(res.dump_path) as fh:
        for line in fh:
            if line.startswith('State ') and _STATE_HDR.match(line):
                flush()
                cur = []
                if len(out) >= wave:
                    yield out
                    out = []
            else:
                cur.append(line)
    flush()
    if out:
        yield out


def final_states(res):
    return [tlaval.parse_state_body(b) for wave in final_bodies(res) for b in wave]


def run_model(name, skeletons, edit_menu, nedits, menu, max_extra, ffs_tla, trace_file='', timeout=1800):
    res = tlc.run('MappingFile', CFG, consts={'FF': ffs_tla, 'MacroRef': MACROREF, 'Menu': set_tla(line_tla(l) for l in menu),
                                             'MaxExtra': str(max_extra), 'Skeletons': set_tla(file_tla(f) for f in skeletons),
                                             'EditMenu': set_tla(line_tla(l) for l in edit_menu), 'NEdits': str(nedits),
                                             'TraceFile': tlaval.to_tla(trace_file)},
                  dump=True, timeout=timeout)
    if res.violated:
        raise tlc.MachineryError('MappingFile (%s) violates %s' % (name, res.violated))
    return res


def replay_states(res, ev, vd, label, wanted=()):
    outs = []
    with mp.Pool(tlc.NCPU) as pool:
        for bodies in final_bodies(res):
            outs += pool.map(_replay_chunk, [(p, set(wanted)) for p in common.chunks(bodies, tlc.NCPU * 2)])
    unspec, kept, total, loaded = 0, {}, 0, 0
    for n, bad, u, cases, k, nl in outs:
        total += n
        loaded += nl
        ev.traces += n
        ev.evaluations += n
        unspec += u
        kept.update(k)
        for b in bad:
            vd.violation('replay-mismatch', b, '%s: %s' % (label, b['why']))
        for c in cases:
            ev.nontrivial_case(['mapping', c])
    if loaded == 0 or loaded == total:
        raise tlc.MachineryError('%s: vacuous family (%d files compared, %d of them loadable)' % (label, total, loaded))
    return unspec, kept


def skel_key(f):
    return json.dumps(thaw_file(f), sort_keys=True)


# ------------------------------------------------------------------ shipped files
def classify(path):
    """Independent line classifier: text -> abstract lines (and the declared [ block ] / [ modification ] sections)."""
    lines, declared = [], []
    with open(path, encoding='utf8') as fh:
        for raw in fh:
            txt = raw.split(';', 1)[0].strip()
            if not txt:
                continue
            if txt[0] == '[' and txt[-1] == ']':
                h = txt[1:-1].strip().lower()
                lines.append({'h': h, 'toks': [], 'w': -1})
                if h in ('block', 'modification'):
                    declared.append({'type': h, 'from_blocks': []})
                continue
            words = txt.split()
            w = -1
            if len(words) == 3 and words[2].isdigit():
                w = int(words[2])
                words = words[:2]
            lines.append({'h': '', 'toks': [T(x) for x in words], 'w': w})
            sec = [l['h'] for l in lines if l['h']]
            if sec and sec[-1] == 'from blocks' and declared:
                declared[-1]['from_blocks'] += [x.lstrip('!').split('#')[0] for x in words]
    return lines, declared


def shipped_files(quick):
    files = sorted(glob.glob(os.path.join(REPO, 'vermouth', 'data', 'mappings', '*.mapping')) +
                   glob.glob(os.path.join(REPO, 'vermouth', 'data', 'mappings', '*', '*.mapping')))
    return files


def real_force_fields(names):
    import vermouth
    import vermouth.forcefield
    out = {}
    for n in sorted(names):
        d = os.path.join(vermouth.DATA_PATH, 'force_fields', n)
        if os.path.isdir(d):
            out[n] = vermouth.forcefield.ForceField(d)
    return out


def _shipped_one(args):
    path, ffnames = args
    ffs = real_force_fields(ffnames)
    with open(path, encoding='utf8') as fh:
        return load_real(fh.read().splitlines(), ffs)


def shipped_part(quick, ev, vd):
    files = shipped_files(quick)
    abstract, declared, used = [], [], []
    for p in files:
        lines, decl = classify(p)
        abstract.append(lines)
        declared.append(decl)
        ffn, names = set(), set()
        for i, l in enumerate(lines):
            if not l['h'] and i and lines[i - 1]['h'] in ('from', 'to'):
                ffn.add(l['toks'][0]['name'])
            for t in l['toks']:
                names.add(t['name'])
        used.append((ffn, names))
    allff = set().union(*[u[0] for u in used]) if used else set()
    if quick:
        allff -= {'charmm'}       # the charmm force field takes 3 s to load: its mapping files are judged in the thorough tier
    keep = [i for i, u in enumerate(used) if u[0] <= allff]
    if not keep:
        raise tlc.MachineryError('no shipped .mapping file to judge')
    ffs = real_force_fields(allff)
    names = set().union(*[used[i][1] for i in keep]) if keep else set()
    work = tlc.scratch('c13m_')
    tf = tlc.write_json(work, 'shipped.json', [abstract[i] for i in keep])
    res = run_model('shipped', [], [], 0, [], 0, ff_const(ffs, names), trace_file=tf)
    ev.add_tlc('TRACE MappingFile on %d shipped .mapping files' % len(keep), res)
    by_file = {}
    for st in final_states(res):
        by_file[json.dumps(thaw_file(st['file']), sort_keys=True)] = st
    with mp.Pool(min(tlc.NCPU, max(1, len(keep)))) as pool:
        loaded = pool.map(_shipped_one, [(files[i], sorted(used[i][0])) for i in keep])
    for i, got in zip(keep, loaded):
        rel = os.path.relpath(files[i], REPO)
        key = json.dumps(thaw_file([H(l['h']) if l['h'] else {'h': '', 'toks': tuple(l['toks']), 'hasjson': False, 'json': NOJ, 'w': l['w']}
                                    for l in abstract[i]]), sort_keys=True)
        st = by_file.get(key)
        if st is None:
            raise tlc.MachineryError('no TLC state for shipped file %s' % rel)
        outcome, exp_out, exp_lib = expected_of_state(st)
        ev.traces += 1
        ev.evaluations += 1
        why = ''
        if outcome != 'loaded':
            raise tlc.MachineryError('shipped file %s is %s in the model (classifier / grammar gap)' % (rel, outcome))
        if got['outcome'] != 'loaded':
            why = 'real loader rejects the file: %s' % got.get('exc')
        else:
            decl = declared[i]
            if [m['type'] for m in got['out']] != [d['type'] for d in decl]:
                why = 'declared sections %s, loaded %s' % ([d['type'] for d in decl], [m['type'] for m in got['out']])
            elif [m['names'] for m in got['out']] != [d['from_blocks'] for d in decl]:
                why = 'declared names %s, loaded %s' % ([d['from_blocks'] for d in decl], [m['names'] for m in got['out']])
            else:
                why = compare(exp_out, exp_lib, got)
        if why:
            vd.violation('trace-rejected', {'part': 'mapping', 'family': 'shipped', 'path': rel}, '%s: %s' % (rel, why))
        if len(declared[i]) >= 2:
            ev.nontrivial_case(['mapping-shipped', rel])
    ev.extra['shipped_mapping_files'] = len(keep)
    ev.extra['shipped_mapping_files_skipped_quick'] = len(files) - len(keep)


# ------------------------------------------------------------------ load history
HISTORY_FF = """
[ link ]
[ atoms ]
BB {"resname": "CT"}
SC1 {"resname": "CT"}
[ bonds ]
BB SC1 1 0.2 100
[ modification ]
HM
[ atoms ]
CA {"resname": "CT"}
OXT {"resname": "CT", "element": "O"}
[ edges ]
CA OXT
"""


def check_history_ff():
    from . import c13
    ff = c13.load_ff_text(HISTORY_FF.splitlines())
    why = []
    if len(ff.links) != 1:
        return 'history .ff: %d links' % len(ff.links)
    link = ff.links[0]
    for a in ('BB', 'SC1'):
        if dict(link.nodes[a]) != {'atomname': a, 'resname': 'CT'} and dict(link.nodes[a]).get('resname') != 'CT':
            why.append('link atom %s attributes %r (declared resname CT)' % (a, dict(link.nodes[a])))
    mod = ff.modifications.get('HM')
    if mod is None:
        why.append('modification HM missing')
    else:
        for a, extra in (('CA', {}), ('OXT', {'element': 'O'})):
            got = dict(mod.nodes[a])
            if got.get('resname') != 'CT' or any(got.get(k) != v for k, v in extra.items()):
                why.append('modification atom %s attributes %r (declared resname CT %r)' % (a, got, extra))
    return '; '.join(why)


def _history_one(args):
    """One interleaving, run in a fresh process: items are 'F' (the .ff text) or a skeleton name; shared = one force
    field dictionary for all mapping loads of the interleaving (as read_mapping_directory does)."""
    order, shared, expected = args
    ffs = build_ffs() if shared else None
    bad = []
    for pos, item in enumerate(order, 1):
        if item == 'F':
            why = check_history_ff()
        else:
            text, exp_out, exp_lib = expected[item]
            got = load_real(text, ffs)
            why = 'rejected: %s' % got.get('exc') if got['outcome'] != 'loaded' else compare(exp_out, exp_lib, got)
        if why:
            bad.append({'part': 'mapping', 'family': 'history', 'order': list(order), 'shared_force_fields': shared, 'position': pos,
                        'item': item, 'why': why})
            break
    return bad


def history_part(quick, by_text, ev, vd):
    expected = {}
    for name in ('longmod', 'block', 'mod'):
        st = by_text.get(skel_key(SKELETONS[name]))
        if st is None:
            raise tlc.MachineryError('no TLC state for skeleton %s' % name)
        outcome, exp_out, exp_lib = expected_of_state(st)
        if outcome != 'loaded':
            raise tlc.MachineryError('skeleton %s is %s in the model' % (name, outcome))
        expected[name] = (render(SKELETONS[name]), exp_out, exp_lib)
    items = ('F', 'longmod', 'mod') if quick else ('F', 'longmod', 'mod', 'block')
    orders = [o for k in (2, 3) for o in itertools.product(items, repeat=k)]
    if not quick:
        orders += [o for o in itertools.product(items, repeat=4) if 'F' in o and 'longmod' in o]
    jobs = [(o, sh, expected) for o in orders for sh in (False, True)]
    import vermouth.map_input      # noqa - imported before forking: every interleaving starts from a pristine copy
    import vermouth.ffinput        # noqa
    with mp.Pool(tlc.NCPU, maxtasksperchild=1) as pool:
        outs = pool.map(_history_one, jobs, chunksize=1)
    for (order, shared, _), bad in zip(jobs, outs):
        ev.traces += 1
        ev.evaluations += len(order)
        if len(set(order)) >= 2:
            ev.nontrivial_case(['mapping-history', order, shared])
        for b in bad:
            vd.violation('history-mismatch', b, 'load #%d (%s) of %s: %s' % (b['position'], b['item'], '/'.join(order), b['why']))
    ev.extra['load_history_interleavings'] = len(jobs)


# ------------------------------------------------------------------ driver
def run_part(tier, seed, ev, vd):
    quick = tier == 'quick'
    ev.rule += (' .mapping: non-trivial = file with >= 2 mappings or a mapping with >= 2 content lines, distinct by text; '
                'load history: interleaving with >= 2 different files.')
    ev.assumptions = [a for a in ev.assumptions if 'bound only through the shared section-header rule' not in a]
    ev.assumptions += [
        '.map weights are modelled (MapFile); the .mapping director is modelled line by line (MappingFile)',
        '.mapping: files the documented grammar does not cover are generated but not compared (outcome "unspecified" in '
        'spec/MappingFile.tla): identifier redefined in one direction, atoms '
        'added by hand before a fetched block, blocks of two force fields on one side, an unknown section without content, '
        'edge attributes, non-integer weights (the reader only accepts integers although its docstring says float | int)',
        '.mapping: the attributes of fetched blocks are those of the force-field objects the file is loaded against (exported '
        'as the constant FF)']
    t0, times = time.time(), {}
    ffs = build_ffs()
    got = {n: (sorted(ff.blocks), sorted(ff.modifications)) for n, ff in ffs.items()}
    want = {'ffa': (['ALA', 'DI', 'GLY'], ['CT']), 'ffb': (['ALA', 'GLY'], ['CT'])}
    if got != want:          # the .ff reader itself is broken: the files of this part cannot be judged against these force fields
        vd.violation('replay-mismatch', {'part': 'mapping', 'family': 'synthetic force fields', 'text': (FFA_TEXT + FFB_TEXT).splitlines()},
                     'synthetic .ff files loaded as %r, declared %r' % (got, want))
        return
    ffs_tla = ff_const(ffs)
    # 1. all line sequences over a small structural menu
    menu = ENUM_MENU if quick else ENUM_MENU_THOROUGH
    res = run_model('enumeration', [[]], [], 0, menu, 5 if quick else 6, ffs_tla)
    ev.add_tlc('MC MappingFile (all sequences <= %d lines over %d lines)' % (5 if quick else 6, len(menu)), res)
    unspec, _ = replay_states(res, ev, vd, '.mapping enumeration')
    times['enumeration'] = round(time.time() - t0, 1)
    # 2. one edit of each skeleton
    emenu = EDIT_MENU_QUICK if quick else EDIT_MENU
    res = run_model('edits', SKELETONS.values(), emenu, 1, [], 0, ffs_tla)
    ev.add_tlc('TAB MappingFile (4 skeleton files, one edit: insert any of %d lines anywhere / delete / truncate)' % len(emenu), res)
    u, by_text = replay_states(res, ev, vd, '.mapping skeleton edit', wanted=[skel_key(f) for f in SKELETONS.values()])
    unspec += u
    st = by_text.get(skel_key(SKEL_MOD))
    if st is None or st['st']['outcome'] != 'loaded':
        raise tlc.MachineryError('skeleton file "mod" is not a loadable file in the model')
    ev.sample({'kind': '.mapping skeleton replayed', 'text': render(SKEL_MOD)[:12] + ['...'],
               'expected_first_mapping': expected_mapping(st['st']['out'][0])})
    if not quick:
        # two edits with a reduced menu on the two shorter skeletons
        res = run_model('edits2', [SKEL_BLOCK, SKEL_LONGMOD], EDIT_MENU_QUICK[:4] + EDIT_MENU_QUICK[6:11], 2, [], 0, ffs_tla, timeout=3000)
        ev.add_tlc('TAB MappingFile (2 skeleton files, two edits)', res)
        unspec += replay_states(res, ev, vd, '.mapping two edits')[0]
    ev.extra['mapping_files_outside_grammar_not_compared'] = unspec
    times['edits'] = round(time.time() - t0, 1)
    # 3. load history
    history_part(quick, by_text, ev, vd)
    times['history'] = round(time.time() - t0, 1)
    # 4. shipped files
    shipped_part(quick, ev, vd)
    times['shipped'] = round(time.time() - t0, 1)
    ev.extra['mapping_part_elapsed_s'] = times


def selftest_part(seed):
    ffs_tla = ff_const(build_ffs())
    res = run_model('selftest', [SKEL_BLOCK, SKEL_MULTI], [], 0, [], 0, ffs_tla)
    by_text = {skel_key(st['file']): st for st in final_states(res)}
    st = by_text[skel_key(SKEL_BLOCK)]
    outcome, exp_out, exp_lib = expected_of_state(st)
    got = load_real(render(SKEL_BLOCK))
    assert outcome == 'loaded' and compare(exp_out, exp_lib, got) == '', compare(exp_out, exp_lib, got)
    # tamper 1: the written weight 2 of "CA BB 2" recorded as 1
    t = json.loads(json.dumps(got))
    t['out'][0]['w'] = [[f, to, 1 if w == 2 else w] for f, to, w in t['out'][0]['w']]
    r1 = compare(exp_out, exp_lib, t)
    # tamper 2: the first mapping delivered twice
    t = json.loads(json.dumps(got))
    t['out'].insert(0, t['out'][0])
    r2 = compare(exp_out, exp_lib, t)
    # tamper 3: dictionary keeps the FIRST of two mappings with one key
    st = by_text[skel_key(SKEL_MULTI)]
    outcome, exp_out, exp_lib = expected_of_state(st)
    got = load_real(render(SKEL_MULTI))
    assert compare(exp_out, exp_lib, got) == ''
    t = json.loads(json.dumps(got))
    t['lib'][0]['idx'] = 1
    r3 = compare(exp_out, exp_lib, t)
    assert r1 and r2 and r3, (r1, r2, r3)
    print('selftest C13/.mapping: tampered recordings rejected:\n   %s\n   %s\n   %s' % (r1[:110], r2[:110], r3[:110]))
    return 0
