"""C19 - mutation and modification requests hit exactly the residues they name.

spec/MutMod.tla        ParseOp / Format (law: Parse(Format(t)) = t); MatchesS (all given parts; nter/cter = protein residue
                       with a single neighbour of higher/lower number, chain still required); MarksS, UnmatchedS, JudgeMarks;
                       CliMods (what the command-line options amount to), JudgeCli, JudgeItp
spec/Repair.tla        JudgeRepairX: after RepairGraph the marked residue has exactly the atoms of the requested block + modifications
spec/Trace_MutMod.tla  TLC judges recorded calls of parse_residue_spec, AnnotateMutMod.run_system and real bin/martinize2 runs

Library level: all specification strings up to length 5 over {A, 4, -, #} (+ longer structured ones) into the real parser;
systems of <= 2 molecules x <= 3 residues over a residue pool (chains incl. the empty chain, names ending in digits, gaps,
insertion codes, star/path residue graphs, a non-protein molecule) x request lists of 0-3 from a pool (repeated, overlapping,
same residue twice), every order.  The TEXT of each request goes to TLC, which parses it itself.
Command line (harness/c19_cli.py): real bin/martinize2 runs in forked children on multi-chain structures, structures with
insertion codes and water molecules, with -mutate / -modify / -nter / -cter / -nt in every documented form."""
import itertools
import logging
import multiprocessing as mp
import random

from . import c04, common, tlc

PID = 'C19'
NOCHAIN = ['?nochain']


def parse_events(tier):
    from vermouth.processors.annotate_mut_mod import parse_residue_spec
    alphabet = 'A4-#' if tier == 'quick' else 'A4B-#'
    strings = [''.join(t) for n in range(0, 6 if tier == 'quick' else 6) for t in itertools.product(alphabet, repeat=n)]
    strings += ['A-PHE45', 'PO4#2', 'PO4', 'A-PO4#12', 'nter', 'B-cter', 'A-', '-ALA', 'A-B-C7', 'X#1#2', 'GLY#', 'A-#5', '12', 'A-12',
                'LYS#x', 'A-LYS#4y']
    out = []
    for s in strings:
        try:
            d = parse_residue_spec(s)
            e = {'kind': 'parse', 's': list(s), 'chain': list(d['chain']) if 'chain' in d else NOCHAIN,
                 'resname': list(d.get('resname', '')), 'resid': d.get('resid', -1), 'err': False}
            if 'chain' in d and d['chain'] == '':
                e['chain'] = []
        except ValueError:
            e = {'kind': 'parse', 's': list(s), 'chain': NOCHAIN, 'resname': [], 'resid': -1, 'err': True}
        out.append(e)
    for chain in (NOCHAIN, ['A'], ['B', 'C']):
        for name in ([], list('ALA'), list('PO4'), list('X1'), list('nter')):
            for resid in ([], ['4'], ['4', '5'], ['0', '7']):
                if not name and not resid and chain == NOCHAIN:
                    continue
                out.append({'kind': 'law', 'chain': chain, 'resname': name, 'resid': resid})
    return out


POOL = [
    {'chain': 'A', 'resname': 'ALA', 'resid': 1, 'icode': '', 'protein': True},
    {'chain': 'A', 'resname': 'ALA', 'resid': 2, 'icode': '', 'protein': True},
    {'chain': 'A', 'resname': 'GLY', 'resid': 4, 'icode': '', 'protein': True},
    {'chain': 'A', 'resname': 'GLY', 'resid': 4, 'icode': 'A', 'protein': True},
    {'chain': 'B', 'resname': 'ALA', 'resid': 1, 'icode': '', 'protein': True},
    {'chain': 'B', 'resname': 'PO4', 'resid': 7, 'icode': '', 'protein': False},
    {'chain': 'A', 'resname': 'LIG', 'resid': 9, 'icode': '', 'protein': False},
    {'chain': '', 'resname': 'ALA', 'resid': 2, 'icode': '', 'protein': True},
    {'chain': 'B', 'resname': 'GLY', 'resid': 4, 'icode': 'B', 'protein': True},
]
REQ_POOL = [
    ('A-ALA1', 'mutation', 'GLY', True), ('ALA', 'mutation', 'LYS', True), ('A-GLY4', 'modification', 'M1', True),
    ('nter', 'modification', 'N-ter', True), ('cter', 'modification', 'C-ter', True), ('B-nter', 'modification', 'M2', True),
    ('PO4#7', 'modification', 'M3', True), ('A-ALA7', 'mutation', 'ALA', True), ('B-', 'modification', 'M4', True),
    ('2', 'mutation', 'SER', True), ('A-ALA1', 'modification', 'UNKNOWNMOD', False), ('GLY', 'mutation', 'none', True),
    ('C-ALA', 'mutation', 'UNKNOWNRES', False), ('A-cter', 'modification', 'none', True),
    ('-ALA', 'mutation', 'SER', True), ('GLY4', 'mutation', 'ALA', True), ('A-ALA1', 'mutation', 'GLY', True), ('4', 'modification', 'M2', True),
    ('B-GLY4', 'mutation', 'LYS', True), ('A-', 'mutation', 'SER', True), ('ALA1', 'modification', 'M1', True), ('-', 'modification', 'M3', True),
]
RUN_FIELDS = ('kind', 'system', 'reqs', 'err', 'reported', 'mods', 'muts')
CLI_FIELDS = ('kind', 'mods', 'muts', 'nt', 'knownBlocks', 'knownMods', 'system', 'marksMod', 'marksMut', 'reported', 'outcome')
ITP_FIELDS = ('kind', 'mols', 'itps', 'cg')


def build_system(spec_system, rng):
    from vermouth.system import System
    from vermouth.molecule import Molecule, Block, Modification
    from vermouth.forcefield import ForceField
    ff = ForceField(name='verif_c19')
    for n in ('GLY', 'LYS', 'ALA', 'SER'):
        ff.blocks[n] = Block(force_field=ff)
    for n in ('M1', 'M2', 'M3', 'M4', 'N-ter', 'C-ter'):
        ff.modifications[n] = Modification(force_field=ff)
    system = System(force_field=ff)
    for m in spec_system:
        mol = Molecule(force_field=ff)
        key = rng.choice([0, 5])
        first = {}
        for i, r in enumerate(m['res'], 1):
            for a in range(rng.randint(1, 2)):
                mol.add_node(key, chain=''.join(r['chain']), resname=''.join(r['resname']), resid=r['resid'], insertion_code=r['icode'],
                             atomname='%s%d' % ('CA' if a == 0 else 'CB', a), residx=i)
                first.setdefault(i, key)
                key += 1
        for a, b in m['edges']:
            mol.add_edge(first[a], first[b])
        system.add_molecule(mol)
    return system


STATS = {}


class _Capture(logging.Handler):
    def __init__(self):
        super().__init__(level=logging.WARNING)
        self.records = []

    def emit(self, record):
        self.records.append(record)


def run_real(spec_system, reqs, rng):
    from vermouth.processors.annotate_mut_mod import AnnotateMutMod
    system = build_system(spec_system, rng)
    mods = [(r[0], r[2]) for r in reqs if r[1] == 'modification']
    muts = [(r[0], r[2]) for r in reqs if r[1] == 'mutation']
    logger = logging.getLogger('vermouth')
    proc = AnnotateMutMod(mods, muts)
    if rng.random() < 0.5:
        # the SAME processor object was used before, on a system that holds every residue of the pool (so most requests found
        # their residue there): what it learnt about that system says nothing about this one
        primer = build_system([{'res': [dict(r, chain=list(r['chain']), resname=list(r['resname'])) for r in POOL], 'edges': []}], rng)
        try:
            proc.run_system(primer)
        except Exception:      # noqa  (an unknown modification name raises here as it will below)
            pass
        STATS['primed'] = STATS.get('primed', 0) + 1
    cap = _Capture()
    logger.addHandler(cap)
    old = logger.level
    logger.setLevel(logging.DEBUG)
    err = False
    crash = ''
    try:
        proc.run_system(system)
    except NameError:
        err = True
    except Exception as exc:      # noqa  any other exception is an outcome the specification never has
        crash = repr(exc)[:200]
    finally:
        logger.removeHandler(cap)
        logger.setLevel(old)
    reported = []
    for rec in cap.records:
        args = [str(x) for x in getattr(rec.msg, 'args', ())]
        if str(getattr(rec.msg, 'fmt', rec.msg)).startswith('Residue specified by') and len(args) >= 3:
            reported.append([list(args[0]), args[1], list(args[2])])
        else:
            reported.append([[], '?', []])          # a warning that names no request
    out_mods, out_muts = [], []
    for mol, m in zip(system.molecules, spec_system):
        mm, mu = [], []
        for i in range(1, len(m['res']) + 1):
            vals_mod = {tuple(d.get('modification', [])) for _, d in mol.nodes(data=True) if d['residx'] == i}
            vals_mut = {tuple(d.get('mutation', [])) for _, d in mol.nodes(data=True) if d['residx'] == i}
            mm.append([list(x) for x in vals_mod.pop()] if len(vals_mod) == 1 else [['!']])
            mu.append([list(x) for x in vals_mut.pop()] if len(vals_mut) == 1 else [['!']])
        out_mods.append(mm)
        out_muts.append(mu)
    return err, reported, out_mods, out_muts, crash


def systems(tier, rng):
    shapes = []
    for n in (1, 2, 3):
        for idx in itertools.permutations(range(len(POOL)), n) if n < 3 else itertools.islice(itertools.permutations(range(len(POOL)), 3), 0, None, 4):
            res = [dict(POOL[i], chain=list(POOL[i]['chain']), resname=list(POOL[i]['resname'])) for i in idx]
            if n == 1:
                shapes.append({'res': res, 'edges': []})
            elif n == 2:
                shapes.append({'res': res, 'edges': [[1, 2]]})
                if tier != 'quick':
                    shapes.append({'res': res, 'edges': []})
            else:
                shapes.append({'res': res, 'edges': [[1, 2], [2, 3]]})
                shapes.append({'res': res, 'edges': [[1, 2], [1, 3]]})      # star: residue 1 has degree 2
    rng.shuffle(shapes)
    return shapes


def _run_chunk(args):
    """Library-level cases: run the real AnnotateMutMod; the text of every request is shipped to TLC unparsed."""
    cases, seed = args
    rng = random.Random(seed)
    out = []
    for spec_system, reqs in cases:
        err, reported, mods, muts, crash = run_real(spec_system, reqs, rng)
        # order of processing: modifications first, then mutations
        ordered = [r for r in reqs if r[1] == 'modification'] + [r for r in reqs if r[1] == 'mutation']
        areqs = [{'spec': list(s), 'target': list(target), 'kind': kind, 'known': known} for s, kind, target, known in ordered]
        out.append({'kind': 'run', 'system': spec_system, 'reqs': areqs, 'err': err, 'reported': reported, 'mods': mods, 'muts': muts,
                    'specs': ['%s:%s' % (r[0], r[2]) for r in reqs], 'crash': crash})
    return out


def _slim(e):
    if e['kind'] == 'run':
        return {k: e[k] for k in RUN_FIELDS}
    if e['kind'] == 'cli':
        return {k: e[k] for k in CLI_FIELDS}
    if e['kind'] == 'itp':
        return {k: e[k] for k in ITP_FIELDS}
    return {k: e[k] for k in e if k not in ('specs', 'crash')}


def judge_batch(events):
    import shutil
    work = tlc.scratch('c19_')
    try:
        tf = tlc.write_json(work, 'trace.json', [_slim(e) for e in events])
        res = tlc.run('Trace_MutMod', 'SPECIFICATION Spec\n', dump=True, env={'TRACE_FILE': tf}, workdir=work, workers=1, timeout=3000)
        return res.distinct, res.generated, {st['tid']: (st['verdict'], st['note']) for st in res.states() if st['verdict'] != 'pending'}
    finally:
        shutil.rmtree(work, ignore_errors=True)


def _describe(e):
    if e['kind'] == 'run':
        return 'run %s' % e.get('specs')
    if e['kind'] in ('cli', 'itp'):
        return '%s martinize2 %s' % (e['kind'], e.get('argv'))
    if e['kind'] in ('repairx', 'molecule', 'unknown'):
        return 'after repair: %s in martinize2 %s' % (e.get('where'), ((e.get('info') or {}).get('case') or {}).get('requests'))
    return '%s %s' % (e['kind'], ''.join(e.get('s', [])))


def judge_into(events, sm):
    """Judge events of any kind (MutMod judge for parse / law / run / cli / itp, Repair judge for the after-repair events)."""
    mm = [e for e in events if e['kind'] in ('parse', 'law', 'run', 'cli', 'itp')]
    rp = [e for e in events if e['kind'] in ('repairx', 'molecule', 'unknown')]
    for e in events:
        if e['kind'] == 'inconclusive':
            sm.inconclusive += 1
            if e.get('harness_error'):
                sm.harness_errors.append(e['what'])
            elif len(sm.inconclusive_examples) < 8:
                sm.inconclusive_examples.append(e['what'])
    sm.events += len(mm) + len(rp)
    for batch, judge in ((mm, judge_batch), (rp, c04.judge_batch)):
        direct = [e for e in batch if e.get('problems')]
        batch = [e for e in batch if not e.get('problems')]
        for e in direct:
            sm.traces += 1
            sm.violation('repair-failed', e, '%s: %s' % (_describe(e), '; '.join(e['problems'])))
        if not batch:
            continue
        d, g, verdicts = judge(batch)
        sm.states += d
        sm.transitions += g
        for i, e in enumerate(batch, 1):
            sm.traces += 1
            v, note = verdicts.get(i, ('no-verdict', '-'))
            if e.get('crash'):
                v = 'AnnotateMutMod raised ' + e['crash']
            fam = e['kind'] if e['kind'] in ('parse', 'law', 'run') else 'cli:' + e['kind']
            sm.fam[fam] = sm.fam.get(fam, 0) + 1
            if e['kind'] == 'run':
                if len(e['reqs']) >= 1 and sum(len(m['res']) for m in e['system']) >= 2:
                    sm.nontrivial.add(c04._nt_hash([e['system'], e['specs']]))
                for letter in note:
                    sm.notes['run:' + letter] = sm.notes.get('run:' + letter, 0) + 1
                if len(e['reqs']) == 2 and not e['err']:
                    sm.samples.setdefault('run', {'kind': 'recorded AnnotateMutMod run judged by TLC', 'event': e})
            elif e['kind'] == 'parse':
                if '-' in e['s'] or '#' in e['s']:
                    sm.nontrivial.add(c04._nt_hash(['parse', e['s']]))
            elif e['kind'] == 'cli':
                sm.nontrivial.add(c04._nt_hash(['cli', e['argv'], e['info']['case'].get('pdb')]))
                for letter in note:
                    sm.notes['cli:' + letter] = sm.notes.get('cli:' + letter, 0) + 1
                sm.notes['cli-outcome:' + e['outcome']] = sm.notes.get('cli-outcome:' + e['outcome'], 0) + 1
                if 'm' in note and e['outcome'] == 'done':
                    sm.samples.setdefault('cli', {'kind': 'real martinize2 run judged by TLC', 'argv': e['argv'], 'pdb': e['info']['case'].get('pdb'),
                                                  'marks (mutation)': [[[''.join(t) for t in r] for r in m] for m in e['marksMut']],
                                                  'reported': e['reports'], 'exercised': note})
            elif e['kind'] == 'itp' and v == 'ok':
                sm.notes['itp:mutated-residues'] = sm.notes.get('itp:mutated-residues', 0) + sum(1 for m in e['mols'] for r in m if r['muts'])
            elif e['kind'] == 'repairx' and v == 'ok' and (e['muts'] or e['mods']):
                from . import c04_real
                fx = c04_real.effects(e)
                for k in fx:
                    sm.notes['repair:' + k] = sm.notes.get('repair:' + k, 0) + 1
                if e['muts']:
                    sm.notes['repair:mutated'] = sm.notes.get('repair:mutated', 0) + 1
                    if [m for m in e['mods'] if m != 'none']:
                        sm.notes['repair:mutated-terminus'] = sm.notes.get('repair:mutated-terminus', 0) + 1
                    if len(e['muts']) >= 2:
                        sm.notes['repair:mutated-twice-same-target'] = sm.notes.get('repair:mutated-twice-same-target', 0) + 1
                if [m for m in e['mods'] if m not in ('none', 'N-ter', 'C-ter')]:
                    sm.notes['repair:modified'] = sm.notes.get('repair:modified', 0) + 1
            if v.startswith('unjudged:'):
                sm.unjudged[v] = sm.unjudged.get(v, 0) + 1
                if e['kind'] == 'cli' and len(sm.inconclusive_examples) < 8:
                    sm.inconclusive_examples.append([v, e['argv'], e.get('exc'), e.get('log', '')[-300:]])
            elif v != 'ok':
                e['verdict'] = v
                sm.violation('trace-rejected', e, '%s: %s' % (_describe(e), v))


def _cli_task(conn, case):
    from . import c19_cli
    try:
        conn.send(c19_cli.run_case(case))
    except Exception:      # noqa
        import traceback
        conn.send([{'kind': 'inconclusive', 'what': ['harness error in a command-line case', repr(case)[:300], traceback.format_exc()[-600:]], 'harness_error': True}])
    conn.close()


def _worker(tasks, results, limit, wid):
    import queue
    import time
    sm = c04.Summary()
    buf = []
    try:
        while True:
            try:
                task = tasks.get(timeout=0.2)
            except queue.Empty:
                break
            t0 = time.time()
            if task[0] == 'runs':
                buf += _run_chunk((task[1], task[2]))
            elif task[0] == 'events':
                buf += task[1]
            elif task[0] == 'cli':
                buf += c04.run_killable(_cli_task, (task[1],), limit, ['martinize2 ' + repr(task[1].get('requests'))])
            sm.notes['seconds:' + task[0]] = round(sm.notes.get('seconds:' + task[0], 0) + time.time() - t0, 1)
            if len(buf) >= 400:
                t0 = time.time()
                judge_into(buf, sm)
                sm.notes['seconds:judge'] = round(sm.notes.get('seconds:judge', 0) + time.time() - t0, 1)
                buf = []
        if buf:
            t0 = time.time()
            judge_into(buf, sm)
            sm.notes['seconds:judge'] = round(sm.notes.get('seconds:judge', 0) + time.time() - t0, 1)
        results.put(('ok', wid, sm))
    except tlc.MachineryError as exc:
        results.put(('machinery', wid, str(exc)[-3000:]))
    except Exception:      # noqa
        import traceback
        results.put(('machinery', wid, traceback.format_exc()[-3000:]))


def run_tasks(tasks, limit):
    import queue
    import time
    ctx = mp.get_context('fork')
    tq, rq = ctx.Queue(), ctx.Queue()
    for t in tasks:
        tq.put(t)
    n = min(tlc.NCPU, max(1, len(tasks)))
    procs = [ctx.Process(target=_worker, args=(tq, rq, limit, i)) for i in range(n)]
    for p in procs:
        p.start()
    total = c04.Summary()
    got, dead_since = 0, None
    while got < n:
        try:
            kind, wid, payload = rq.get(timeout=0.5)
        except queue.Empty:
            if all(not p.is_alive() for p in procs):
                dead_since = dead_since or time.time()
                if time.time() - dead_since > 5:
                    raise tlc.MachineryError('%d of %d C19 workers ended without a result' % (n - got, n))
            continue
        got += 1
        if kind != 'ok':
            for p in procs:
                p.is_alive() and p.kill()
            raise tlc.MachineryError('C19 worker %s failed: %s' % (wid, payload))
        total.merge(payload)
    for p in procs:
        p.join()
    return total


# ----------------------------------------------------------------------------------------------------------------------
# command-line cases
def cli_cases(tier, rng):
    quick = tier == 'quick'
    two = {'base': 'dipro+dipro/AB'}                                  # two identical chains: PRO 2, PRO 3 in both
    mixed = {'base': 'dipro+trpcage/AB', 'waters': 2}                 # chains share residue numbers 2, 3; two water molecules (chain W)
    icode = {'base': 'trpcage', 'icodes': [['A', 11, 10, 'A'], ['A', 18, 17, 'A'], ['A', 19, 17, 'B']]}      # GLY 10, GLY 10A; PRO 17, 17A, 17B
    labels = {'base': 'dipro+trpcage+dipro/CAB'}                      # chain labels not in file order
    insulin = {'base': '3i40'}                                        # two chains in ONE molecule (disulfide bridges), crystal waters, no hydrogens
    villin = {'base': 'villin'}
    damaged = {'base': 'dipro+trpcage/AB', 'damage': ['junk-h'], 'seed': 3}
    cases = [
        # every documented form of the specification
        (mixed, [['-mutate', 'B-GLY10:ALA']], '~chain+name+number'),
        (mixed, [['-mutate', 'GLY10:ALA']], '~name+number'),
        (mixed, [['-mutate', 'A-PRO:ALA']], 'chain+name'),
        (mixed, [['-mutate', 'PRO:GLY']], '~name only, several chains'),
        (mixed, [['-mutate', '2:GLY']], '~number only, residues 2 of both chains'),
        (mixed, [['-mutate', 'B-2:GLY']], '~chain+number'),
        (two, [['-mutate', 'B-:GLY']], 'chain only'),
        (two, [['-mutate', 'B-PRO2:ALA'], ['-modify', 'A-nter:NH2-ter']], 'same residue number in two chains'),
        (mixed, [['-modify', 'nter:NH2-ter'], ['-modify', 'B-cter:COOH-ter']], 'termini through -modify'),
        (mixed, [['-nter', 'NH2-ter']], '~-nter'),
        (mixed, [['-cter', 'COOH-ter'], ['-nter', 'none']], '-cter and none'),
        (mixed, [], '~defaults only'),
        (mixed, [['-modify', 'B-ASP9:ASP-HD2'], ['-modify', 'LYS:LYS-LSN']], '-modify on side chains'),
        (mixed, [['-modify', 'W-:none']], 'chain-only request on water molecules'),
        # several requests
        (mixed, [['-mutate', 'B-GLY10:ALA'], ['-mutate', 'GLY10:ALA']], 'same residue, same target, twice'),
        (icode, [['-mutate', 'A-GLY10:ALA'], ['-mutate', 'GLY:ALA']], 'overlapping; residues differing by insertion code'),
        (icode, [['-mutate', 'GLY10:ALA'], ['-modify', 'PRO17:none']], '~insertion codes'),
        (icode, [['-mutate', '17:GLY']], '~number only, three insertion codes'),
        (mixed, [['-mutate', 'B-GLY10:ALA'], ['-mutate', 'GLY10:SER']], '~conflicting mutations'),
        (two, [['-mutate', 'PRO2:ALA'], ['-mutate', 'A-PRO:GLY']], 'conflicting in one chain only'),
        (mixed, [['-mutate', 'C-GLY10:ALA'], ['-mutate', 'B-GLY15:ALA']], 'one unmatched (no chain C)'),
        (mixed, [['-mutate', 'B-ALA10:GLY'], ['-modify', 'B-TRP7:none'], ['-mutate', 'B-GLY15:ALA']], '~two unmatched'),
        (mixed, [['-mutate', 'B-GLY10:XYZ']], 'unknown block on a matching request'),
        (mixed, [['-modify', 'B-GLY10:NOSUCHMOD']], '~unknown modification on a matching request'),
        (mixed, [['-mutate', 'C-GLY10:XYZ']], '~unknown block on an unmatched request'),
        (mixed, [['-mutate', 'B-SER13:ALA']], '-nt', True),
        (labels, [['-mutate', 'A-GLY:ALA'], ['-modify', 'C-nter:NH2-ter']], '~chain labels out of order'),
        (insulin, [['-mutate', 'A-CYS:SER']], 'two chains in one molecule'),
        (insulin, [['-mutate', 'B-GLY:ALA'], ['-nter', 'NH2-ter']], '~two chains in one molecule, -nter'),
        (villin, [['-mutate', 'LEU:ILE'], ['-mutate', 'A-PHE:TYR']], 'heavy atoms only'),
        (damaged, [['-mutate', 'B-GLY10:ALA'], ['-mutate', 'A-PRO2:ALA']], 'hydrogens with meaningless names'),
    ]
    if quick:
        cases = [c for c in cases if not c[2].startswith('~')]         # '~': thorough tier only
    if not quick:
        more = []
        names = ['GLY', 'ALA', 'SER', 'PRO']
        for i in range(120):
            base = rng.choice([mixed, two, icode, labels, villin, insulin, damaged])
            chains = {'dipro+dipro/AB': 'AB', 'dipro+trpcage/AB': 'ABW', 'trpcage': 'A', 'dipro+trpcage+dipro/CAB': 'CAB', 'villin': 'A', '3i40': 'AB'}[base['base']]
            reqs = []
            for _ in range(rng.randint(1, 3)):
                ch = rng.choice(['', '', rng.choice(chains) + '-', 'Z-'])
                if rng.random() < 0.25:
                    reqs.append(['-modify', '%s%s:%s' % (ch, rng.choice(['nter', 'cter']), rng.choice(['NH2-ter', 'COOH-ter', 'none', 'N-ter', 'C-ter']))])
                    continue
                nm = rng.choice(names + [''])
                num = rng.choice(['', '', '2', '10', '13', '17', '44'])
                if not nm and not num and not ch:
                    nm = 'GLY'
                target = rng.choice([n for n in ['GLY', 'ALA', 'SER'] if n != nm])
                if not nm and not num:                  # a whole chain: as a modification (mutating every residue keeps the matcher busy for minutes)
                    reqs.append(['-modify', '%s:none' % ch])
                    continue
                reqs.append(['-mutate', '%s%s%s:%s' % (ch, nm, num, target)])
            if len({r[1].split(':')[0] for r in reqs if 'ter:' in r[1]}) < len([r for r in reqs if 'ter:' in r[1]]):
                continue                                # the same terminus patched twice: reference atom names repeat (unspecified)
            nt = rng.random() < 0.15 and not any('ter:' in r[1] for r in reqs)      # (-nt on top of a terminus request: the same patch twice)
            more.append((base, reqs, 'random %d' % i, nt))
        cases += more
    out = []
    for c in cases:
        out.append({'pdb': c[0], 'requests': c[1], 'label': c[2].lstrip('~'), 'nt': bool(c[3]) if len(c) > 3 else False})
    return out


# what the command-line family must have exercised at least once (letters of MutMod!NoteMarks, outcomes, repair effects)
CLI_MUST = ['cli:m', 'cli:u', 'cli:e', 'cli:c', 'cli:i', 'cli:s', 'cli:t', 'cli:x', 'cli:d', 'cli-outcome:done', 'cli-outcome:annotate-error',
            'cli-outcome:repair-error', 'itp:mutated-residues', 'repair:mutated', 'repair:removed', 'repair:readded', 'repair:modified',
            'repair:mutated-twice-same-target', 'repair:mutated-terminus']
RUN_MUST = ['run:m', 'run:u', 'run:e', 'run:i', 'run:s', 'run:t', 'run:x', 'run:d']


def run(tier, seed, ev, vd):
    from . import c04_real
    ev.rule = ('parse: every string <= 5 over {A,4,-,#}; library runs: systems of 1-2 molecules built from 1-3 residues of a 9-residue pool '
               '(path and star residue graphs) x ordered request lists of 0-3 from a 22-request pool; command line: real bin/martinize2 runs '
               'on 7 structures (two identical chains, chains sharing residue numbers + waters, insertion codes, chain labels out of '
               'order, two chains in one molecule, heavy atoms only, meaningless hydrogen names) x request lists in every documented form. '
               'Non-trivial = run with >= 2 residues and >= 1 request / string containing a separator / command-line run; distinct by input.')
    ev.assumptions = ['nter/cter combined with a residue number is not generated (silently dropped by the code; unspecified)',
                      'a request with an unknown target that matches no residue is reported as unmatched and is no error',
                      'how a report words an unmatched request is the documented form of its specification (an empty chain is not written)',
                      'command line: mutation target "none", a modification that does not fit the residue, the same modification '
                      'requested twice on one residue (reference atom names repeat) and specifications with more than one ":" are '
                      'unspecified and not generated; a mutation of a large residue with hydrogens to a small one is not generated '
                      '(the matcher needs minutes); runs run with -maxwarn so that files are written although requests were reported',
                      'the written topology is judged at mutated positions by name and bead set, at other positions only when the '
                      'target force field has a block of the residue name',
                      'a run that fails after RepairGraph for another reason than the requests is counted as unjudged, never a violation']
    quick = tier == 'quick'
    rng = random.Random(seed)
    events = parse_events(tier)
    shapes = systems(tier, rng)
    cases = []
    singles = [[r] for r in REQ_POOL]
    pairs = [list(p) for p in itertools.permutations(REQ_POOL, 2)] + [[r, r] for r in REQ_POOL]
    nsys = 60 if quick else 600
    for k in range(nsys):
        mols = [shapes[(2 * k) % len(shapes)]]
        if k % 3 == 0:
            mols.append(shapes[(2 * k + 1) % len(shapes)])
        for rl in rng.sample(singles, 3) + rng.sample(pairs, 7 if quick else 28) + [rng.sample(REQ_POOL, 3) for _ in range(2 if quick else 8)] + [[]]:
            cases.append((mols, rl))
    # families the random choice must not miss: a request hitting residues that differ only by insertion code / by chain
    ic = {'res': [dict(POOL[i], chain=list(POOL[i]['chain']), resname=list(POOL[i]['resname'])) for i in (2, 3, 8)], 'edges': [[1, 2], [2, 3]]}
    ch = {'res': [dict(POOL[i], chain=list(POOL[i]['chain']), resname=list(POOL[i]['resname'])) for i in (0, 4, 7)], 'edges': [[1, 2]]}
    for rl in ([REQ_POOL[2]], [REQ_POOL[15]], [REQ_POOL[18], REQ_POOL[15]], [REQ_POOL[17]], [REQ_POOL[0], REQ_POOL[16]], [REQ_POOL[14], REQ_POOL[1]],
               [REQ_POOL[20]], [REQ_POOL[21], REQ_POOL[8]]):
        cases.append(([ic], rl))
        cases.append(([ch], rl))
        cases.append(([ic, ch], rl))
    c04_real._load()                                     # force fields and bin/martinize2 once, before any fork
    clis = cli_cases(tier, rng)
    tasks = [('cli', c) for c in clis]
    tasks += [('runs', chunk, seed * 11 + i) for i, chunk in enumerate(common.chunks(cases, 24 if quick else 64))]
    tasks += [('events', chunk) for chunk in common.chunks(events, 4)]
    sm = run_tasks(tasks, 150 if quick else 400)
    if sm.harness_errors:
        raise tlc.MachineryError('harness error in %d command-line cases, e.g. %s' % (len(sm.harness_errors), sm.harness_errors[0]))
    ev.states += sm.states
    ev.transitions += sm.transitions
    ev.traces += sm.traces
    ev.evaluations += sm.traces
    ev.nontrivial |= sm.nontrivial
    for kind, scenario, detail in sm.violations:
        vd.violation(kind, scenario, detail)
    missing = [k for k in CLI_MUST + RUN_MUST if not sm.notes.get(k)]
    if missing and not sm.nviol:
        raise tlc.MachineryError('vacuous: never exercised %s; seen %s; unjudged %s; inconclusive %s' % (missing, sm.notes, sm.unjudged, sm.inconclusive_examples))
    ev.exhaustive = False
    ev.extra['events_by_family'] = sm.fam
    ev.extra['exercised'] = sm.notes
    ev.extra['command_line_runs'] = len(clis)
    ev.extra['unjudged'] = sm.unjudged
    ev.extra['inconclusive'] = sm.inconclusive
    ev.extra['inconclusive_examples'] = sm.inconclusive_examples
    ev.tlc_runs.append({'run': 'TRACE Trace_MutMod + Trace_Repair', 'events': sm.events})
    for s in sm.samples.values():
        ev.sample(s)


def replay(sc):
    if sc.get('kind') == 'run':
        reqs = [(''.join(r['spec']), r['kind'], ''.join(r['target']), r['known']) for r in sc['reqs']]
        print('now:', run_real(sc['system'], reqs, random.Random(0)))
        print('recorded:', sc['err'], sc['reported'], sc['mods'], sc['muts'])
    elif sc.get('kind') in ('cli', 'itp', 'repairx', 'molecule', 'unknown'):
        from . import c04_real
        c04_real._load()
        case = sc['info']['case']
        events = c04.run_killable(_cli_task, (case,), 600, ['replay'])
        sm = c04.Summary()
        judge_into(events, sm)
        print('martinize2', [e for e in events if e['kind'] == 'cli'][0]['argv'] if any(e['kind'] == 'cli' for e in events) else events)
        for kind, scenario, detail in sm.violations:
            print('now rejected:', detail)
        if not sm.violations:
            print('now accepted; exercised', sm.notes)
    else:
        from vermouth.processors.annotate_mut_mod import parse_residue_spec
        print(parse_residue_spec(''.join(sc['s'])))
    return 0


def selftest(seed):
    import copy
    import os
    from . import c04_real
    m = {'res': [dict(POOL[i], chain=list(POOL[i]['chain']), resname=list(POOL[i]['resname'])) for i in (0, 1, 2)], 'edges': [[1, 2], [2, 3]]}
    good = _run_chunk(([([m], [REQ_POOL[0], REQ_POOL[3], REQ_POOL[7]])], seed))[0]
    tampered = []

    def tamper(e, what, fn):
        t = copy.deepcopy(e)
        fn(t)
        tampered.append((what, t))
    tamper(good, 'a residue the request does not name is marked', lambda t: t['muts'][0].__setitem__(1, [list('GLY')]))
    tamper(good, 'an unmatched request is not reported', lambda t: t.update(reported=[]))
    tamper(good, 'a matched request is reported', lambda t: t['reported'].append([list('A-ALA1'), 'mutation', list('GLY')]))
    tamper(good, 'the request text names another chain', lambda t: t['reqs'][1].update(spec=list('B-ALA1')))
    # command line
    c04_real._load()
    case = {'pdb': {'base': 'dipro+trpcage/AB', 'icodes': [['B', 11, 10, 'A']]}, 'label': 'selftest', 'nt': False,
            'requests': [['-mutate', 'B-GLY10:ALA'], ['-mutate', 'GLY10:ALA'], ['-modify', 'A-PRO2:none'], ['-mutate', 'C-ALA5:GLY']]}
    events = c04.run_killable(_cli_task, (case,), 600, ['selftest'])
    cli = next(e for e in events if e['kind'] == 'cli')
    itp = next(e for e in events if e['kind'] == 'itp')
    mutated = next(e for e in events if e['kind'] == 'repairx' and e['muts'])
    kb, ki = next((k, i) for k, m in enumerate(cli['marksMut']) for i, r in enumerate(m) if r)
    tamper(cli, 'command line: mark missing on one of two residues that differ by insertion code', lambda t: t['marksMut'][kb].__setitem__(ki, []))
    tamper(cli, 'command line: only the last of two requests on one residue kept', lambda t: t['marksMut'][kb].__setitem__(ki, t['marksMut'][kb][ki][-1:]))
    tamper(cli, 'command line: default terminus mark missing', lambda t: t['marksMod'][0].__setitem__(0, [list('none')]))
    tamper(cli, 'command line: unmatched request not reported', lambda t: t.update(reported=[]))
    tamper(cli, 'command line: run failed', lambda t: t.update(outcome='repair-error'))
    tamper(itp, 'topology: mutated residue keeps the old name', lambda t: next(r for m, im in zip(t['mols'], t['itps']) for x, r in zip(m, im) if x['muts']).update(resname='GLY'))
    tamper(itp, 'topology: mutated residue keeps the old beads', lambda t: next(r for m, im in zip(t['mols'], t['itps']) for x, r in zip(m, im) if x['muts']).update(beads=['BB']))
    tamper(itp, 'topology: a residue lost', lambda t: t['itps'][1].pop())
    tamper(mutated, 'after repair: side chain of the target missing', lambda t: t['out'].remove(next(o for o in t['out'] if o['name'] == 'CB')))
    sm = c04.Summary()
    judge_into([good] + events, sm)
    assert not sm.violations and not sm.unjudged, (sm.violations, sm.unjudged)
    assert all(sm.notes.get(k) for k in ('cli:m', 'cli:u', 'cli:i', 'cli:d', 'repair:mutated', 'itp:mutated-residues')), sm.notes
    for what, t in tampered:
        sm = c04.Summary()
        judge_into([t], sm)
        assert len(sm.violations) == 1, (what, sm.violations, sm.unjudged)
        print('selftest C19: %-80s -> %s' % (what, sm.violations[0][2].split(': ')[-1]))
    return 0
