"""C19 - mutation and modification requests hit exactly the residues they name.

spec/MutMod.tla        ParseOp / Format (law: Parse(Format(t)) = t); Matches (all given parts; nter/cter = protein residue
                       with a single neighbour of higher/lower number, chain still required); Marks, Unmatched, IsError
spec/Trace_MutMod.tla  TLC judges recorded calls of parse_residue_spec and AnnotateMutMod.run_system

Exhaustive: all specification strings up to length 5 over {A, 4, -, #} (+ longer structured ones) into the real parser;
all systems of <= 2 molecules x <= 3 residues over a residue pool (chains, names ending in digits, gaps, insertion codes,
star/path residue graphs, a non-protein molecule) x request lists of <= 2 from a pool, every order."""
import itertools
import logging
import multiprocessing as mp
import random

from . import common, tlc

PID = 'C19'
NOCHAIN = ['?nochain']


def parse_events(tier):
    from vermouth.processors.annotate_mut_mod import parse_residue_spec
    alphabet = 'A4-#' if tier == 'quick' else 'A4B-#'
    strings = [''.join(t) for n in range(0, 6 if tier == 'quick' else 6) for t in itertools.product(alphabet, repeat=n)]
    strings += ['A-PHE45', 'PO4#2', 'PO4', 'A-PO4#12', 'nter', 'B-cter', 'A-', '-ALA', 'A-B-C7', 'X#1#2', 'GLY#', 'A-#5', '12', 'A-12',
                'LYS#x', 'A-LYS#4y']
    out = []
    for s in strings:
        try:
            d = parse_residue_spec(s)
            e = {'kind': 'parse', 's': list(s), 'chain': list(d['chain']) if 'chain' in d else NOCHAIN,
                 'resname': list(d.get('resname', '')), 'resid': d.get('resid', -1), 'err': False}
            if 'chain' in d and d['chain'] == '':
                e['chain'] = []
        except ValueError:
            e = {'kind': 'parse', 's': list(s), 'chain': NOCHAIN, 'resname': [], 'resid': -1, 'err': True}
        out.append(e)
    for chain in (NOCHAIN, ['A'], ['B', 'C']):
        for name in ([], list('ALA'), list('PO4'), list('X1'), list('nter')):
            for resid in ([], ['4'], ['4', '5'], ['0', '7']):
                if not name and not resid and chain == NOCHAIN:
                    continue
                out.append({'kind': 'law', 'chain': chain, 'resname': name, 'resid': resid})
    return out


POOL = [
    {'chain': 'A', 'resname': 'ALA', 'resid': 1, 'icode': '', 'protein': True},
    {'chain': 'A', 'resname': 'ALA', 'resid': 2, 'icode': '', 'protein': True},
    {'chain': 'A', 'resname': 'GLY', 'resid': 4, 'icode': '', 'protein': True},
    {'chain': 'A', 'resname': 'GLY', 'resid': 4, 'icode': 'A', 'protein': True},
    {'chain': 'B', 'resname': 'ALA', 'resid': 1, 'icode': '', 'protein': True},
    {'chain': 'B', 'resname': 'PO4', 'resid': 7, 'icode': '', 'protein': False},
    {'chain': 'A', 'resname': 'LIG', 'resid': 9, 'icode': '', 'protein': False},
]
REQ_POOL = [
    ('A-ALA1', 'mutation', 'GLY', True), ('ALA', 'mutation', 'LYS', True), ('A-GLY4', 'modification', 'M1', True),
    ('nter', 'modification', 'N-ter', True), ('cter', 'modification', 'C-ter', True), ('B-nter', 'modification', 'M2', True),
    ('PO4#7', 'modification', 'M3', True), ('A-ALA7', 'mutation', 'ALA', True), ('B-', 'modification', 'M4', True),
    ('2', 'mutation', 'SER', True), ('A-ALA1', 'modification', 'UNKNOWNMOD', False), ('GLY', 'mutation', 'none', True),
    ('C-ALA', 'mutation', 'UNKNOWNRES', False), ('A-cter', 'modification', 'none', True),
]


def build_system(spec_system, rng):
    from vermouth.system import System
    from vermouth.molecule import Molecule, Block, Modification
    from vermouth.forcefield import ForceField
    ff = ForceField(name='verif_c19')
    for n in ('GLY', 'LYS', 'ALA', 'SER'):
        ff.blocks[n] = Block(force_field=ff)
    for n in ('M1', 'M2', 'M3', 'M4', 'N-ter', 'C-ter'):
        ff.modifications[n] = Modification(force_field=ff)
    system = System(force_field=ff)
    for m in spec_system:
        mol = Molecule(force_field=ff)
        key = rng.choice([0, 5])
        first = {}
        for i, r in enumerate(m['res'], 1):
            for a in range(rng.randint(1, 2)):
                mol.add_node(key, chain=r['chain'], resname=r['resname'], resid=r['resid'], insertion_code=r['icode'],
                             atomname='%s%d' % ('CA' if a == 0 else 'CB', a), residx=i)
                first.setdefault(i, key)
                key += 1
        for a, b in m['edges']:
            mol.add_edge(first[a], first[b])
        system.add_molecule(mol)
    return system


def parse_req(s):
    """Abstract request parts from the specification string (independent of the code's parser: pool strings are simple)."""
    chain, rest = ('', s)
    if '-' in s:
        chain, rest = s.split('-', 1)
    if '#' in rest:
        name, num = rest.split('#')
    else:
        name = rest.rstrip('0123456789')
        num = rest[len(name):]
    return chain, name, int(num) if num else -1


class _Capture(logging.Handler):
    def __init__(self):
        super().__init__(level=logging.WARNING)
        self.records = []

    def emit(self, record):
        self.records.append(record)


def run_real(spec_system, reqs, rng):
    from vermouth.processors.annotate_mut_mod import AnnotateMutMod
    system = build_system(spec_system, rng)
    mods = [(r[0], r[2]) for r in reqs if r[1] == 'modification']
    muts = [(r[0], r[2]) for r in reqs if r[1] == 'mutation']
    logger = logging.getLogger('vermouth')
    cap = _Capture()
    logger.addHandler(cap)
    old = logger.level
    logger.setLevel(logging.DEBUG)
    err = False
    crash = ''
    try:
        AnnotateMutMod(mods, muts).run_system(system)
    except NameError:
        err = True
    except Exception as exc:      # noqa  any other exception is an outcome the specification never has
        crash = repr(exc)[:200]
    finally:
        logger.removeHandler(cap)
        logger.setLevel(old)
    reported = []
    for rec in cap.records:
        args = getattr(rec.msg, 'args', ())
        if len(args) >= 3:
            hits = [i for i, r in enumerate(reqs, 1) if r[2] == args[2] and r[1] == args[1]]
        else:       # older message shape: (specification, target)
            hits = [i for i, r in enumerate(reqs, 1) if len(args) == 2 and r[2] == args[1]]
        reported += hits[:1] if hits else [0]
    out_mods, out_muts = [], []
    for mol, m in zip(system.molecules, spec_system):
        mm, mu = [], []
        for i in range(1, len(m['res']) + 1):
            vals_mod = {tuple(d.get('modification', [])) for _, d in mol.nodes(data=True) if d['residx'] == i}
            vals_mut = {tuple(d.get('mutation', [])) for _, d in mol.nodes(data=True) if d['residx'] == i}
            mm.append(list(vals_mod.pop()) if len(vals_mod) == 1 else ['!'])
            mu.append(list(vals_mut.pop()) if len(vals_mut) == 1 else ['!'])
        out_mods.append(mm)
        out_muts.append(mu)
    return err, reported, out_mods, out_muts, crash


def systems(tier, rng):
    shapes = []
    for n in (1, 2, 3):
        for idx in itertools.permutations(range(len(POOL)), n) if n < 3 else itertools.islice(itertools.permutations(range(len(POOL)), 3), 0, None, 4):
            res = [POOL[i] for i in idx]
            if len({(r['chain'], r['resname'], r['resid'], r['icode']) for r in res}) < n:
                continue
            if n == 1:
                shapes.append({'res': res, 'edges': []})
            elif n == 2:
                shapes.append({'res': res, 'edges': [[1, 2]]})
                if tier != 'quick':
                    shapes.append({'res': res, 'edges': []})
            else:
                shapes.append({'res': res, 'edges': [[1, 2], [2, 3]]})
                shapes.append({'res': res, 'edges': [[1, 2], [1, 3]]})      # star: residue 1 has degree 2
    rng.shuffle(shapes)
    return shapes


def _run_chunk(args):
    cases, seed = args
    rng = random.Random(seed)
    out = []
    for spec_system, reqs in cases:
        err, reported, mods, muts, crash = run_real(spec_system, reqs, rng)
        areqs = []
        for s, kind, target, known in reqs:
            c, n, r = parse_req(s)
            areqs.append({'chain': c, 'resname': n, 'resid': r, 'target': target, 'known': known, 'kind': kind})
        # order of processing: modifications first, then mutations (marks are per kind, so only the per-kind order matters)
        out.append({'kind': 'run', 'system': spec_system, 'reqs': areqs, 'err': err, 'reported': reported, 'mods': mods, 'muts': muts,
                    'specs': [r[0] for r in reqs], 'crash': crash})
    return out


def _judge(shard):
    work = tlc.scratch('c19_')
    tf = tlc.write_json(work, 'trace.json', [{k: e[k] for k in e if k not in ('specs', 'crash')} for e in shard])
    res = tlc.run('Trace_MutMod', 'SPECIFICATION Spec\n', dump=True, env={'TRACE_FILE': tf}, workdir=work, workers=1, timeout=3000)
    return res.distinct, res.generated, {st['tid']: st['verdict'] for st in res.states() if st['verdict'] != 'pending'}


def judge_events(events, ev, vd):
    shards = common.chunks(events, tlc.NCPU)
    with mp.Pool(len(shards)) as pool:
        outs = pool.map(_judge, shards)
    for shard, (d, g, verdicts) in zip(shards, outs):
        ev.states += d
        ev.transitions += g
        for i, e in enumerate(shard, 1):
            ev.traces += 1
            ev.evaluations += 1
            v = verdicts.get(i, 'no-verdict')
            if e.get('crash'):
                v = 'AnnotateMutMod raised ' + e['crash']
            if e['kind'] == 'run' and len(e['reqs']) >= 1 and sum(len(m['res']) for m in e['system']) >= 2:
                ev.nontrivial_case([e['system'], e['specs']])
            elif e['kind'] == 'parse' and ('-' in e['s'] or '#' in e['s']):
                ev.nontrivial_case(['parse', e['s']])
            if v != 'ok':
                vd.violation('trace-rejected', e, '%s %s: %s' % (e['kind'], e.get('specs', ''.join(e.get('s', []))), v))


def run(tier, seed, ev, vd):
    ev.rule = ('parse: every string <= 5 over {A,4,-,#}; runs: systems of 1-2 molecules built from 1-3 residues of a 7-residue pool '
               '(path and star residue graphs) x ordered request lists of 1-2 from a 14-request pool. Non-trivial = run with >= 2 '
               'residues and >= 1 request / string containing a separator; distinct by input.')
    ev.assumptions = ['nter/cter combined with a residue number is not generated (silently dropped by the code; unspecified)',
                      'a request with an unknown target is only generated when the test expects it to be judged by IsError '
                      '(unknown target on an unmatched request: reported as unmatched, no error)',
                      'the "after repair" clause is covered by C04 (Repair)']
    quick = tier == 'quick'
    rng = random.Random(seed)
    events = parse_events(tier)
    shapes = systems(tier, rng)
    cases = []
    req_lists = [[r] for r in REQ_POOL] + [list(p) for p in itertools.permutations(REQ_POOL, 2)]
    nsys = 60 if quick else 600
    for k in range(nsys):
        mols = [shapes[(2 * k) % len(shapes)]]
        if k % 3 == 0:
            mols.append(shapes[(2 * k + 1) % len(shapes)])
        for rl in rng.sample(req_lists, 12 if quick else 40):
            cases.append((mols, rl))
    with mp.Pool(tlc.NCPU) as pool:
        parts = pool.map(_run_chunk, [(c, seed * 11 + i) for i, c in enumerate(common.chunks(cases, tlc.NCPU))])
    events += [e for p in parts for e in p]
    judge_events(events, ev, vd)
    ev.exhaustive = False
    ev.tlc_runs.append({'run': 'TRACE Trace_MutMod', 'events': len(events)})
    e0 = next(e for e in events if e['kind'] == 'run' and len(e['reqs']) == 2 and not e['err'])
    ev.sample({'kind': 'recorded AnnotateMutMod run judged by TLC', 'event': e0})


def replay(sc):
    if sc.get('kind') == 'run':
        reqs = [(s, r['kind'], r['target'], r['known']) for s, r in zip(sc['specs'], sc['reqs'])]
        print('now:', run_real(sc['system'], reqs, random.Random(0)))
        print('recorded:', sc['err'], sc['reported'], sc['mods'], sc['muts'])
    else:
        from vermouth.processors.annotate_mut_mod import parse_residue_spec
        print(parse_residue_spec(''.join(sc['s'])))
    return 0


def selftest(seed):
    rng = random.Random(seed)
    m = {'res': [POOL[0], POOL[1], POOL[2]], 'edges': [[1, 2], [2, 3]]}
    good = _run_chunk(([([m], [REQ_POOL[0], REQ_POOL[3]])], seed))[0]
    import copy
    b1 = copy.deepcopy(good)
    b1['muts'][0][1] = ['GLY']            # a residue the request does not name
    b2 = copy.deepcopy(good)
    b2['reported'] = [1]                  # matched request reported
    ev = common.Evidence(PID, 'quick', seed)
    vd = common.Verdicts(PID, ev)
    judge_events([good, b1, b2], ev, vd)
    assert len(vd.violations) == 2, vd.violations
    print('selftest C19: tampered runs rejected:', [d.split(': ')[-1] for k, p, d in vd.violations])
    import os
    for k, p, d in vd.violations:
        os.path.exists(p) and os.remove(p)
    return 0
